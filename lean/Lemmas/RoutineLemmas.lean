import Mathlib.Data.List.Sublists
import Mathlib.Algebra.BigOperators.Group.Finset.Basic
import Mathlib.Algebra.BigOperators.Group.List.Basic
import Mathlib.Tactic

def lev : List Char → List Char → Nat
  | [], ys => ys.length
  | xs, [] => xs.length
  | x :: xs, y :: ys =>
    min (min (lev xs (y :: ys) + 1) (lev (x :: xs) ys + 1)) (lev xs ys + if x = y then 0 else 1)
termination_by xs ys => xs.length + ys.length

lemma lev_nil_left (ys : List Char) : lev [] ys = ys.length := by simp [lev]
lemma lev_nil_right (xs : List Char) : lev xs [] = xs.length := by cases xs <;> simp [lev]
lemma lev_cons_cons (x y : Char) (xs ys : List Char) :
    lev (x :: xs) (y :: ys) =
      min (min (lev xs (y :: ys) + 1) (lev (x :: xs) ys + 1)) (lev xs ys + if x = y then 0 else 1) := by
  rw [lev]

/-- L-sym -/
theorem lev_comm : ∀ (n : ℕ) (a b : List Char), a.length + b.length = n → lev a b = lev b a := by
  intro n
  induction n using Nat.strong_induction_on with
  | _ n ih =>
    intro a b hn
    match a, b with
    | [], ys => rw [lev_nil_left, lev_nil_right]
    | x :: xs, [] => rw [lev_nil_left, lev_nil_right]
    | x :: xs, y :: ys =>
      simp only [List.length_cons] at hn
      rw [lev_cons_cons, lev_cons_cons]
      rw [ih (xs.length + (ys.length + 1)) (by omega) xs (y :: ys) (by simp),
          ih ((xs.length + 1) + ys.length) (by omega) (x :: xs) ys (by simp),
          ih (xs.length + ys.length) (by omega) xs ys rfl]
      have : (if x = y then 0 else 1) = (if y = x then 0 else 1) := by
        by_cases h : x = y
        · subst h; simp
        · have h' : ¬ y = x := fun e => h e.symm
          simp [h, h']
      rw [this, min_comm (lev (y :: ys) xs + 1)]

/-- number of mismatching positions (only meaningful for equal lengths) -/
def ham : List Char → List Char → Nat
  | x :: xs, y :: ys => ham xs ys + (if x = y then 0 else 1)
  | _, _ => 0

/-- L-hamdel: equal-length strings within k mismatches share a deletion variant of deficit ≤ k -/
theorem ham_symdel : ∀ (a b : List Char) (k : ℕ), a.length = b.length → ham a b ≤ k →
    ∃ c : List Char, c.Sublist a ∧ c.Sublist b ∧ a.length ≤ c.length + k := by
  intro a
  induction a with
  | nil => intro b k _ _; exact ⟨[], List.Sublist.refl _, List.nil_sublist _, by simp⟩
  | cons x xs ih =>
    intro b k hl hk
    cases b with
    | nil => simp at hl
    | cons y ys =>
      simp only [List.length_cons, Nat.add_right_cancel_iff] at hl
      simp only [ham] at hk
      by_cases e : x = y
      · subst e; simp at hk
        obtain ⟨c, h1, h2, h3⟩ := ih ys k hl hk
        exact ⟨x :: c, h1.cons_cons _, h2.cons_cons _, by simp; omega⟩
      · simp [e] at hk
        obtain ⟨c, h1, h2, h3⟩ := ih ys (k - 1) hl (by omega)
        exact ⟨c, h1.cons _, h2.cons _, by simp; omega⟩

/-- for equal lengths the edit distance never exceeds the Hamming distance -/
theorem lev_le_ham : ∀ (a b : List Char), a.length = b.length → lev a b ≤ ham a b := by
  intro a
  induction a with
  | nil => intro b hl; have : b = [] := List.length_eq_zero_iff.mp hl.symm; subst this; simp [lev, ham]
  | cons x xs ih =>
    intro b hl
    cases b with
    | nil => simp at hl
    | cons y ys =>
      simp only [List.length_cons, Nat.add_right_cancel_iff] at hl
      rw [lev_cons_cons]; simp only [ham]
      exact le_trans (min_le_right _ _) (by have := ih ys hl; omega)

/-- L-count: the position-wise pair count equals the sum over distinct values of c(c-1) -/
def coinc (xs : List Char) : ℕ := (xs.map (fun x => xs.count x - 1)).sum
def cross (xs ys : List Char) : ℕ := (xs.map (fun x => ys.count x)).sum

theorem coinc_eq_sum (xs : List Char) :
    coinc xs = ∑ v ∈ xs.toFinset, xs.count v * (xs.count v - 1) := by
  unfold coinc
  rw [Finset.sum_list_map_count]
  simp [smul_eq_mul]

theorem cross_eq_sum (xs ys : List Char) :
    cross xs ys = ∑ v ∈ xs.toFinset, xs.count v * ys.count v := by
  unfold cross
  rw [Finset.sum_list_map_count]
  simp [smul_eq_mul]

/-- L-join: joining non-empty rows of cells that do not contain the separator is injective -/
theorem join_injective (sep : Char) (r1 r2 : List (List Char))
    (h1 : ∀ c ∈ r1, sep ∉ c) (h2 : ∀ c ∈ r2, sep ∉ c) (n1 : r1 ≠ []) (n2 : r2 ≠ [])
    (e : List.intercalate [sep] r1 = List.intercalate [sep] r2) : r1 = r2 := by
  have a := List.splitOn_intercalate sep h1 n1
  have b := List.splitOn_intercalate sep h2 n2
  rw [e] at a
  exact a.symm.trans b

#print axioms lev_comm
#print axioms ham_symdel
#print axioms lev_le_ham
#print axioms coinc_eq_sum
#print axioms cross_eq_sum
#print axioms join_injective
