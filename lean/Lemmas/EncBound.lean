import Mathlib.Algebra.BigOperators.Group.Finset.Basic
import Mathlib.Algebra.Order.BigOperators.Group.Finset
import Mathlib.Tactic

open Finset

def lev : List Char → List Char → Nat
  | [], ys => ys.length
  | xs, [] => xs.length
  | x :: xs, y :: ys =>
    min (min (lev xs (y :: ys) + 1) (lev (x :: xs) ys + 1)) (lev xs ys + if x = y then 0 else 1)
termination_by xs ys => xs.length + ys.length

variable (bin : Char → ℕ)

/-- histogram: number of characters of `s` falling in bin `b` -/
def enc (s : List Char) (b : ℕ) : ℤ := (s.countP (fun c => bin c = b) : ℕ)

/-- positive part of the coordinate-wise difference, summed over the first `d` bins -/
def pos (d : ℕ) (a b : List Char) : ℤ := ∑ i ∈ range d, max (enc bin a i - enc bin b i) 0

lemma enc_nil (b : ℕ) : enc bin [] b = 0 := by simp [enc]

lemma enc_cons (x : Char) (xs : List Char) (b : ℕ) :
    enc bin (x :: xs) b = enc bin xs b + (if bin x = b then 1 else 0) := by
  unfold enc
  rw [List.countP_cons]
  split_ifs with h <;> simp_all

lemma sum_ind_le_one (d i : ℕ) : (∑ j ∈ range d, (if i = j then (1:ℤ) else 0)) ≤ 1 := by
  rw [Finset.sum_ite_eq]
  split_ifs <;> simp

lemma pos_nonneg (d : ℕ) (a b : List Char) : 0 ≤ pos bin d a b := by
  unfold pos; exact Finset.sum_nonneg (fun i _ => le_max_right _ _)

lemma pos_cons_left (d : ℕ) (x : Char) (xs b : List Char) :
    pos bin d (x :: xs) b ≤ pos bin d xs b + 1 := by
  unfold pos
  calc ∑ i ∈ range d, max (enc bin (x :: xs) i - enc bin b i) 0
      ≤ ∑ i ∈ range d, (max (enc bin xs i - enc bin b i) 0 + (if bin x = i then (1:ℤ) else 0)) := by
        apply Finset.sum_le_sum; intro i _; rw [enc_cons]; split_ifs <;> omega
    _ = ∑ i ∈ range d, max (enc bin xs i - enc bin b i) 0 + ∑ i ∈ range d, (if bin x = i then (1:ℤ) else 0) :=
        Finset.sum_add_distrib
    _ ≤ _ := by have := sum_ind_le_one d (bin x); omega

lemma pos_cons_left_le (d : ℕ) (y : Char) (a ys : List Char) :
    pos bin d a (y :: ys) ≤ pos bin d a ys := by
  unfold pos; apply Finset.sum_le_sum; intro i _; rw [enc_cons]; split_ifs <;> omega

lemma pos_cons_right (d : ℕ) (x : Char) (xs b : List Char) :
    pos bin d b (x :: xs) ≤ pos bin d b xs + 0 := by
  simpa using pos_cons_left_le bin d x b xs

lemma pos_rev_cons (d : ℕ) (x : Char) (xs b : List Char) :
    pos bin d b xs ≤ pos bin d b (x :: xs) + 1 := by
  unfold pos
  calc ∑ i ∈ range d, max (enc bin b i - enc bin xs i) 0
      ≤ ∑ i ∈ range d, (max (enc bin b i - enc bin (x :: xs) i) 0 + (if bin x = i then (1:ℤ) else 0)) := by
        apply Finset.sum_le_sum; intro i _; rw [enc_cons]; split_ifs <;> omega
    _ = ∑ i ∈ range d, max (enc bin b i - enc bin (x :: xs) i) 0 + ∑ i ∈ range d, (if bin x = i then (1:ℤ) else 0) :=
        Finset.sum_add_distrib
    _ ≤ _ := by have := sum_ind_le_one d (bin x); omega

lemma pos_cons_cons_same (d : ℕ) (x : Char) (xs ys : List Char) :
    pos bin d (x :: xs) (x :: ys) = pos bin d xs ys := by
  unfold pos; apply Finset.sum_congr rfl; intro i _; rw [enc_cons, enc_cons]; split_ifs <;> simp

lemma pos_cons_cons (d : ℕ) (x y : Char) (xs ys : List Char) :
    pos bin d (x :: xs) (y :: ys) ≤ pos bin d xs ys + 1 :=
  le_trans (pos_cons_left_le bin d y (x :: xs) ys) (pos_cons_left bin d x xs ys)

lemma enc_nonneg (s : List Char) (b : ℕ) : 0 ≤ enc bin s b := by unfold enc; positivity

lemma pos_nil_left (d : ℕ) (b : List Char) : pos bin d [] b = 0 := by
  unfold pos; apply Finset.sum_eq_zero; intro i _
  have := enc_nonneg bin b i; rw [enc_nil]; omega

lemma pos_nil_right (d : ℕ) (a : List Char) : pos bin d a [] ≤ a.length := by
  induction a with
  | nil => simp [pos_nil_left]
  | cons x xs ih =>
    have := pos_cons_left bin d x xs []
    simp only [List.length_cons]; push_cast; omega

lemma lev_nil_left (ys : List Char) : lev [] ys = ys.length := by simp [lev]
lemma lev_nil_right (xs : List Char) : lev xs [] = xs.length := by
  cases xs <;> simp [lev]

/-- both one-sided histogram gaps are bounded by the edit distance -/
theorem pos_le_lev (d : ℕ) : ∀ (n : ℕ) (a b : List Char), a.length + b.length = n →
    pos bin d a b ≤ lev a b ∧ pos bin d b a ≤ lev a b := by
  intro n
  induction n using Nat.strong_induction_on with
  | _ n ih =>
    intro a b hn
    match a, b with
    | [], ys =>
      rw [lev_nil_left]
      exact ⟨by rw [pos_nil_left]; positivity, pos_nil_right bin d ys⟩
    | x :: xs, [] =>
      rw [lev_nil_right]
      exact ⟨pos_nil_right bin d (x :: xs), by rw [pos_nil_left]; positivity⟩
    | x :: xs, y :: ys =>
      rw [lev]
      simp only [List.length_cons] at hn
      have h1 := ih (xs.length + (ys.length + 1)) (by omega) xs (y :: ys) (by simp)
      have h2 := ih ((xs.length + 1) + ys.length) (by omega) (x :: xs) ys (by simp)
      have h3 := ih (xs.length + ys.length) (by omega) xs ys rfl
      have a1 := pos_cons_left bin d x xs (y :: ys)
      have a2 := pos_cons_left_le bin d x (y :: ys) xs
      have b1 := pos_cons_left_le bin d y (x :: xs) ys
      have b2 := pos_cons_left bin d y ys (x :: xs)
      have c1 := pos_cons_cons bin d x y xs ys
      have c2 := pos_cons_cons bin d y x ys xs
      by_cases hxy : x = y
      · subst hxy
        have e1 := pos_cons_cons_same bin d x xs ys
        have e2 := pos_cons_cons_same bin d x ys xs
        simp only [if_true, Nat.add_zero]
        constructor <;> · push_cast; simp only [le_min_iff]; refine ⟨⟨?_, ?_⟩, ?_⟩ <;> omega
      · simp only [hxy, if_false]
        constructor <;> · push_cast; simp only [le_min_iff]; refine ⟨⟨?_, ?_⟩, ?_⟩ <;> omega

lemma sum_sq_le_sq_sum (d : ℕ) (f : ℕ → ℤ) (hf : ∀ i, 0 ≤ f i) :
    ∑ i ∈ range d, (f i) ^ 2 ≤ (∑ i ∈ range d, f i) ^ 2 := by
  induction d with
  | zero => simp
  | succ d ih =>
    rw [Finset.sum_range_succ, Finset.sum_range_succ]
    have hS : 0 ≤ ∑ i ∈ range d, f i := Finset.sum_nonneg (fun i _ => hf i)
    have := hf d
    nlinarith [mul_nonneg hS this]

/-- squared Euclidean distance between the histograms is at most `2 * lev^2`:
    the kdtree ball of radius `sqrt 2 * k` contains every sequence within `k` edits,
    for every assignment of characters to bins (hence for every `compression`). -/
theorem sqdist_enc_le (d : ℕ) (a b : List Char) :
    ∑ i ∈ range d, (enc bin a i - enc bin b i) ^ 2 ≤ 2 * (lev a b : ℤ) ^ 2 := by
  obtain ⟨hp, hq⟩ := pos_le_lev bin d _ a b rfl
  have hp0 := pos_nonneg bin d a b
  have hq0 := pos_nonneg bin d b a
  have key : ∑ i ∈ range d, (enc bin a i - enc bin b i) ^ 2
      = ∑ i ∈ range d, (max (enc bin a i - enc bin b i) 0) ^ 2
        + ∑ i ∈ range d, (max (enc bin b i - enc bin a i) 0) ^ 2 := by
    rw [← Finset.sum_add_distrib]; apply Finset.sum_congr rfl; intro i _
    rcases le_total (enc bin a i) (enc bin b i) with h | h
    · rw [max_eq_right (by omega), max_eq_left (by omega)]; ring
    · rw [max_eq_left (by omega), max_eq_right (by omega)]; ring
  have s1 := sum_sq_le_sq_sum d (fun i => max (enc bin a i - enc bin b i) 0) (fun i => le_max_right _ _)
  have s2 := sum_sq_le_sq_sum d (fun i => max (enc bin b i - enc bin a i) 0) (fun i => le_max_right _ _)
  unfold pos at hp hq hp0 hq0
  rw [key]
  have hl : (0:ℤ) ≤ (lev a b : ℤ) := by positivity
  nlinarith [s1, s2, hp, hq, hp0, hq0]
#print axioms sqdist_enc_le
#print axioms pos_le_lev
