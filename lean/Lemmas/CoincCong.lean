import Mathlib.Data.List.Basic
import Mathlib.Data.List.Perm.Basic
import Mathlib.Algebra.BigOperators.Group.Finset.Basic
import Mathlib.Algebra.BigOperators.Group.List.Basic
import Mathlib.Algebra.BigOperators.Fin
import Mathlib.Tactic

/-!
# Congruence and bound lemmas for the coincidence counts `coinc` and `cross`

`coinc` and `cross` are the definitions of `RoutineLemmas.lean` (L-count), copied here with the
element type generalised from `Char` to an arbitrary type with decidable equality (the bodies are
textually identical, so at `α := Char` they are the same functions; files stay self-contained).

* `coinc xs` = number of ordered pairs `(i, j)` of *distinct* positions `i ≠ j`
  (`i, j < xs.length`) with `xs[i] = xs[j]`.
* `cross xs ys` = number of pairs `(i, j)`, `i < xs.length`, `j < ys.length`, with `xs[i] = ys[j]`.

That the `count`-based definitions really count these position pairs is proved below
(`coinc_eq_card_pairs`, `cross_eq_card_pairs`); the value-indexed forms of `RoutineLemmas.lean`
are re-proved generically as `coinc_eq_sum`, `cross_eq_sum`.

Main results: `coinc_congr`, `cross_congr`, `coinc_le`, `cross_le`, `coinc_perm`, `cross_perm`.
-/

open Finset

section
variable {α : Type*} [DecidableEq α]

/-- Number of ordered pairs of distinct positions of `xs` holding equal entries
(see `coinc_eq_card_pairs`).  Same body as `coinc` in `RoutineLemmas.lean`. -/
def coinc (xs : List α) : ℕ := (xs.map (fun x => xs.count x - 1)).sum

/-- Number of pairs (position of `xs`, position of `ys`) holding equal entries
(see `cross_eq_card_pairs`).  Same body as `cross` in `RoutineLemmas.lean`. -/
def cross (xs ys : List α) : ℕ := (xs.map (fun x => ys.count x)).sum

/-- L-count (generic copy of `RoutineLemmas.coinc_eq_sum`). -/
theorem coinc_eq_sum (xs : List α) :
    coinc xs = ∑ v ∈ xs.toFinset, xs.count v * (xs.count v - 1) := by
  unfold coinc
  rw [Finset.sum_list_map_count]
  simp [smul_eq_mul]

/-- L-count (generic copy of `RoutineLemmas.cross_eq_sum`). -/
theorem cross_eq_sum (xs ys : List α) :
    cross xs ys = ∑ v ∈ xs.toFinset, xs.count v * ys.count v := by
  unfold cross
  rw [Finset.sum_list_map_count]
  simp [smul_eq_mul]

/-! ### Positional forms -/

omit [DecidableEq α] in
lemma sum_map_eq_sum_fin (f : α → ℕ) : ∀ (xs : List α),
    (xs.map f).sum = ∑ i : Fin xs.length, f xs[i] := by
  intro xs
  induction xs with
  | nil => simp
  | cons x xs ih =>
    simp only [List.map_cons, List.sum_cons, List.length_cons]
    rw [Fin.sum_univ_succ, ih]
    simp

lemma count_eq_sum_fin (a : α) : ∀ (l : List α),
    l.count a = ∑ j : Fin l.length, if l[j] = a then 1 else 0 := by
  intro l
  induction l with
  | nil => simp
  | cons x l ih =>
    simp only [List.length_cons]
    rw [Fin.sum_univ_succ, List.count_cons, ih]
    by_cases e : x = a <;> simp [e, add_comm]

/-- `cross` as a double sum of indicators over positions. -/
theorem cross_eq_sum_pos (xs ys : List α) :
    cross xs ys =
      ∑ i : Fin xs.length, ∑ j : Fin ys.length, if xs[i] = ys[j] then 1 else 0 := by
  unfold cross
  rw [sum_map_eq_sum_fin]
  refine Finset.sum_congr rfl fun i _ => ?_
  rw [count_eq_sum_fin]
  refine Finset.sum_congr rfl fun j _ => ?_
  simp [eq_comm]

/-- `coinc` as a double sum of indicators over positions. -/
theorem coinc_eq_sum_pos (xs : List α) :
    coinc xs =
      ∑ i : Fin xs.length, ∑ j : Fin xs.length, if i ≠ j ∧ xs[i] = xs[j] then 1 else 0 := by
  unfold coinc
  rw [sum_map_eq_sum_fin]
  refine Finset.sum_congr rfl fun i _ => ?_
  rw [count_eq_sum_fin]
  rw [← Finset.add_sum_erase Finset.univ _ (Finset.mem_univ i)]
  rw [← Finset.add_sum_erase Finset.univ (fun j => if i ≠ j ∧ xs[i] = xs[j] then 1 else 0)
    (Finset.mem_univ i)]
  simp only [ne_eq, not_true_eq_false, false_and, if_false, if_true, zero_add,
    Nat.add_sub_cancel_left]
  refine Finset.sum_congr rfl fun j hj => ?_
  have hne : ¬ i = j := fun e => (Finset.ne_of_mem_erase hj) e.symm
  simp [hne, eq_comm]

/-- `cross xs ys` is the number of position pairs `(i, j)` with `xs[i] = ys[j]`. -/
theorem cross_eq_card_pairs (xs ys : List α) :
    cross xs ys =
      ((Finset.univ : Finset (Fin xs.length × Fin ys.length)).filter
        (fun p => xs[p.1] = ys[p.2])).card := by
  rw [cross_eq_sum_pos, Finset.card_filter, Fintype.sum_prod_type]

/-- `coinc xs` is the number of ordered pairs of distinct positions `(i, j)`, `i ≠ j`,
with `xs[i] = xs[j]`. -/
theorem coinc_eq_card_pairs (xs : List α) :
    coinc xs =
      ((Finset.univ : Finset (Fin xs.length × Fin xs.length)).filter
        (fun p => p.1 ≠ p.2 ∧ xs[p.1] = xs[p.2])).card := by
  rw [coinc_eq_sum_pos, Finset.card_filter, Fintype.sum_prod_type]

/-! ### Bounds -/

theorem coinc_le (xs : List α) : coinc xs ≤ xs.length * (xs.length - 1) := by
  unfold coinc
  have h := List.sum_le_card_nsmul (xs.map (fun x => xs.count x - 1)) (xs.length - 1) (by
    intro y hy
    obtain ⟨x, _, rfl⟩ := List.mem_map.mp hy
    exact Nat.sub_le_sub_right List.count_le_length 1)
  simpa using h

theorem cross_le (xs ys : List α) : cross xs ys ≤ xs.length * ys.length := by
  unfold cross
  have h := List.sum_le_card_nsmul (xs.map (fun x => ys.count x)) ys.length (by
    intro y hy
    obtain ⟨x, _, rfl⟩ := List.mem_map.mp hy
    exact List.count_le_length)
  simpa using h

/-! ### Permutation invariance -/

theorem coinc_perm {xs ys : List α} (h : xs.Perm ys) : coinc xs = coinc ys := by
  unfold coinc
  have hf : (fun x => xs.count x - 1) = (fun x => ys.count x - 1) := by
    funext x; rw [h.count_eq]
  rw [hf]
  exact (h.map _).sum_eq

theorem cross_perm {xs xs' ys ys' : List α} (hx : xs.Perm xs') (hy : ys.Perm ys') :
    cross xs ys = cross xs' ys' := by
  unfold cross
  have hf : (fun x => ys.count x) = (fun x => ys'.count x) := by
    funext x; rw [hy.count_eq]
  rw [hf]
  exact (hx.map _).sum_eq

end

/-! ### Congruence: the counts depend only on the equality pattern of the positions -/

section
variable {α β : Type*} [DecidableEq α] [DecidableEq β]

/-- If two lists of the same length have the same equality pattern between positions, they have
the same number of coinciding position pairs. -/
theorem coinc_congr (xs : List α) (ys : List β) (hlen : xs.length = ys.length)
    (H : ∀ (i j : ℕ) (hi : i < xs.length) (hj : j < xs.length),
      (xs[i] = xs[j] ↔ ys[i]'(hlen ▸ hi) = ys[j]'(hlen ▸ hj))) :
    coinc xs = coinc ys := by
  rw [coinc_eq_sum_pos, coinc_eq_sum_pos]
  refine Fintype.sum_equiv (finCongr hlen) _ _ fun i => ?_
  refine Fintype.sum_equiv (finCongr hlen) _ _ fun j => ?_
  have h1 : (i ≠ j) ↔ (finCongr hlen i ≠ finCongr hlen j) := by
    simp
  have h2 := H i j i.2 j.2
  simp only [Fin.getElem_fin, finCongr_apply, Fin.val_cast] at h1 h2 ⊢
  by_cases a : i = j <;> by_cases b : xs[(i : ℕ)] = xs[(j : ℕ)] <;> simp_all

/-- If the cross equality pattern between `(xs, ys)` and `(xs', ys')` is the same, the cross
counts agree.  The primed pair may live over a different element type. -/
theorem cross_congr (xs ys : List α) (xs' ys' : List β)
    (hx : xs.length = xs'.length) (hy : ys.length = ys'.length)
    (H : ∀ (i j : ℕ) (hi : i < xs.length) (hj : j < ys.length),
      (xs[i] = ys[j] ↔ xs'[i]'(hx ▸ hi) = ys'[j]'(hy ▸ hj))) :
    cross xs ys = cross xs' ys' := by
  rw [cross_eq_sum_pos, cross_eq_sum_pos]
  refine Fintype.sum_equiv (finCongr hx) _ _ fun i => ?_
  refine Fintype.sum_equiv (finCongr hy) _ _ fun j => ?_
  have h2 := H i j i.2 j.2
  simp only [Fin.getElem_fin, finCongr_apply, Fin.val_cast] at h2 ⊢
  by_cases b : xs[(i : ℕ)] = ys[(j : ℕ)] <;> simp_all

end

#print axioms coinc_eq_sum
#print axioms cross_eq_sum
#print axioms coinc_eq_card_pairs
#print axioms cross_eq_card_pairs
#print axioms coinc_congr
#print axioms cross_congr
#print axioms coinc_le
#print axioms cross_le
#print axioms coinc_perm
#print axioms cross_perm
