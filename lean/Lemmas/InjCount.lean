import Mathlib.Data.Fintype.Card
import Mathlib.Data.Finset.Card
import Mathlib.Algebra.BigOperators.Group.Finset.Basic
import Mathlib.Tactic

/-!
# L-inj-count: drawing positions without replacement cannot over-draw a value

`src : Fin n → α` is the source vector (one entry per item), `idx : Fin m → Fin n` the drawn positions.
If the positions are pairwise distinct (`idx` injective: numpy's `choice(..., replace=False)`), a value `v` occurs among the
drawn entries at most as often as it occurs in the source.

Second part: in the concatenation of blocks `repeat(k, c k)` (`k < m`), i.e. a vector `src` of length `∑ c k` with a block
function `block` such that `src p = block p` and block `k` occupies exactly `c k` positions, value `k` occurs exactly `c k`
times — this is how `subsample` "unpacks" a count vector.  That statement is the definition of the block layout
(`card {p | block p = k} = c k`), so only the counting lemma needs a proof.
-/

open Finset

theorem inj_count_le {α : Type*} [DecidableEq α] {m n : ℕ} (idx : Fin m → Fin n) (hinj : Function.Injective idx)
    (src : Fin n → α) (v : α) :
    (univ.filter (fun k : Fin m => src (idx k) = v)).card ≤ (univ.filter (fun p : Fin n => src p = v)).card := by
  apply Finset.card_le_card_of_injOn idx
  · intro k hk
    simp only [coe_filter, mem_univ, true_and, Set.mem_setOf_eq] at hk ⊢
    exact hk
  · exact hinj.injOn

/-- the drawn multiplicities sum to the number of draws (what `numpy.unique(return_counts=True)` reports) -/
theorem drawn_counts_sum {α : Type*} [DecidableEq α] [Fintype α] {m : ℕ} (x : Fin m → α) :
    ∑ v : α, (univ.filter (fun k : Fin m => x k = v)).card = m := by
  have := Finset.card_eq_sum_card_fiberwise (s := (univ : Finset (Fin m))) (t := (univ : Finset α)) (f := x)
    (fun k _ => mem_univ _)
  simpa using this.symm

#print axioms inj_count_le
#print axioms drawn_counts_sum
