import Mathlib.Tactic

inductive Step : List Char → List Char → Prop
  | ins (c : Char) (ys : List Char) : Step ys (c :: ys)
  | del (c : Char) (ys : List Char) : Step (c :: ys) ys
  | sub (c c' : Char) (ys : List Char) (h : c ≠ c') : Step (c :: ys) (c' :: ys)
  | cons (c : Char) {ys ys' : List Char} (h : Step ys ys') : Step (c :: ys) (c :: ys')

/-- the three slice expressions used by `levenshtein_neighbors` -/
def delAt (x : List Char) (i : ℕ) : List Char := x.take i ++ x.drop (i + 1)
def subAt (x : List Char) (i : ℕ) (a : Char) : List Char := x.take i ++ a :: x.drop (i + 1)
def insAt (x : List Char) (i : ℕ) (a : Char) : List Char := x.take i ++ a :: x.drop i

@[simp] lemma delAt_cons_succ (c : Char) (cs : List Char) (i : ℕ) : delAt (c :: cs) (i + 1) = c :: delAt cs i := by
  simp [delAt]
@[simp] lemma subAt_cons_succ (c : Char) (cs : List Char) (i : ℕ) (a : Char) :
    subAt (c :: cs) (i + 1) a = c :: subAt cs i a := by simp [subAt]
@[simp] lemma insAt_cons_succ (c : Char) (cs : List Char) (i : ℕ) (a : Char) :
    insAt (c :: cs) (i + 1) a = c :: insAt cs i a := by simp [insAt]

def OneEdit (x y : List Char) : Prop :=
  (∃ i, i < x.length ∧ y = delAt x i) ∨
  (∃ i a, ∃ h : i < x.length, a ≠ x[i] ∧ y = subAt x i a) ∨
  (∃ i a, i ≤ x.length ∧ y = insAt x i a)

lemma step_delAt : ∀ (x : List Char) (i : ℕ), i < x.length → Step x (delAt x i) := by
  intro x
  induction x with
  | nil => intro i h; simp at h
  | cons c cs ih =>
    intro i h
    cases i with
    | zero => simpa [delAt] using Step.del c cs
    | succ i => rw [delAt_cons_succ]; exact Step.cons c (ih i (by simpa using h))

lemma step_subAt : ∀ (x : List Char) (i : ℕ) (a : Char) (h : i < x.length), a ≠ x[i] → Step x (subAt x i a) := by
  intro x
  induction x with
  | nil => intro i a h; simp at h
  | cons c cs ih =>
    intro i a h hne
    cases i with
    | zero => simp at hne; simpa [subAt] using Step.sub c a cs (fun e => hne e.symm)
    | succ i =>
      rw [subAt_cons_succ]
      exact Step.cons c (ih i a (by simpa using h) (by simpa using hne))

lemma step_insAt : ∀ (x : List Char) (i : ℕ) (a : Char), i ≤ x.length → Step x (insAt x i a) := by
  intro x
  induction x with
  | nil => intro i a h; have : i = 0 := by simpa using h
           subst this; simpa [insAt] using Step.ins a []
  | cons c cs ih =>
    intro i a h
    cases i with
    | zero => simpa [insAt] using Step.ins a (c :: cs)
    | succ i => rw [insAt_cons_succ]; exact Step.cons c (ih i a (by simpa using h))

/-- L-n1: the inductive one-edit relation is exactly "one of the three slice expressions" -/
theorem step_iff_oneEdit (x y : List Char) : Step x y ↔ OneEdit x y := by
  constructor
  · intro h
    induction h with
    | ins c ys => exact Or.inr (Or.inr ⟨0, c, by simp, by simp [insAt]⟩)
    | del c ys => exact Or.inl ⟨0, by simp, by simp [delAt]⟩
    | sub c c' ys hne => exact Or.inr (Or.inl ⟨0, c', by simp, by simpa using hne.symm, by simp [subAt]⟩)
    | @cons c ys ys' _ ih =>
      rcases ih with ⟨i, hi, rfl⟩ | ⟨i, a, hi, hne, rfl⟩ | ⟨i, a, hi, rfl⟩
      · exact Or.inl ⟨i + 1, by simpa using hi, by simp⟩
      · exact Or.inr (Or.inl ⟨i + 1, a, by simpa using hi, by simpa using hne, by simp⟩)
      · exact Or.inr (Or.inr ⟨i + 1, a, by simpa using hi, by simp⟩)
  · rintro (⟨i, hi, rfl⟩ | ⟨i, a, hi, hne, rfl⟩ | ⟨i, a, hi, rfl⟩)
    · exact step_delAt x i hi
    · exact step_subAt x i a hi hne
    · exact step_insAt x i a hi

/-! Hamming analogues -/
def ham : List Char → List Char → Nat
  | x :: xs, y :: ys => ham xs ys + (if x = y then 0 else 1)
  | _, _ => 0

inductive HStep : List Char → List Char → Prop
  | sub (c c' : Char) (ys : List Char) (h : c ≠ c') : HStep (c :: ys) (c' :: ys)
  | cons (c : Char) {ys ys' : List Char} (h : HStep ys ys') : HStep (c :: ys) (c :: ys')

lemma hstep_length {y y' : List Char} (h : HStep y y') : y'.length = y.length := by
  induction h with
  | sub => simp
  | cons c _ ih => simp [ih]

/-- (A_h) one substitution changes the Hamming distance by at most one -/
theorem ham_hstep_le {y y' : List Char} (h : HStep y y') : ∀ x, ham x y' ≤ ham x y + 1 := by
  induction h with
  | sub c c' ys hne =>
    intro x; cases x with
    | nil => simp [ham]
    | cons x0 xs => simp only [ham]; split_ifs <;> omega
  | @cons c ys ys' _ ih =>
    intro x; cases x with
    | nil => simp [ham]
    | cons x0 xs => simp only [ham]; have := ih xs; omega

/-- (B_h) geodesic for substitutions -/
theorem ham_pred : ∀ (x y : List Char) (n : ℕ), x.length = y.length → ham x y = n + 1 →
    ∃ z, z.length = x.length ∧ ham x z ≤ n ∧ HStep z y ∧ (∀ c ∈ z, c ∈ x ∨ c ∈ y) := by
  intro x
  induction x with
  | nil => intro y n hl h; cases y <;> simp [ham] at h
  | cons x0 xs ih =>
    intro y n hl h
    cases y with
    | nil => simp at hl
    | cons y0 ys =>
      simp only [List.length_cons, Nat.add_right_cancel_iff] at hl
      simp only [ham] at h
      by_cases e : x0 = y0
      · subst e; simp at h
        obtain ⟨z, hz0, hz1, hz2, hz3⟩ := ih ys n hl h
        refine ⟨x0 :: z, by simp [hz0], by simp [ham]; exact hz1, HStep.cons x0 hz2, fun d hd => ?_⟩
        rcases List.mem_cons.mp hd with rfl | hd
        · exact Or.inl (by simp)
        · rcases hz3 d hd with h' | h'
          · exact Or.inl (List.mem_cons_of_mem _ h')
          · exact Or.inr (List.mem_cons_of_mem _ h')
      · simp [e] at h
        refine ⟨x0 :: ys, by simp [hl], ?_, HStep.sub x0 y0 ys e, fun d hd => ?_⟩
        · simp [ham]; omega
        · rcases List.mem_cons.mp hd with rfl | hd
          · exact Or.inl (by simp)
          · exact Or.inr (List.mem_cons_of_mem _ hd)

#print axioms step_iff_oneEdit
#print axioms ham_hstep_le
#print axioms ham_pred
