import Mathlib.Tactic

/-!
# Basic facts about the Hamming count `ham`

`ham` is copied verbatim from `RoutineLemmas.lean` / `OneEditAndHamming.lean`
(the two definitions there are textually identical), so the lemmas below are about the
same function.  This file is self-contained.

Main results
* `ham_comm`         : `ham a b = ham b a` (holds for all lists, no length hypothesis needed,
                       because `ham` ignores the unmatched tail of the longer list)
* `ham_comm_of_length_eq` : the same statement with the (redundant) equal-length hypothesis
* `ham_self`         : `ham a a = 0`
* `ham_eq_zero_iff`  : for equal lengths, `ham a b = 0 ↔ a = b`
* `ham_le_length`    : `ham a b ≤ a.length`
* `ham_eq_countP_zip`: `ham a b` is the number of pairs of `a.zip b` with different components,
                       i.e. the number of mismatching positions
-/

/-- number of mismatching positions (only meaningful for equal lengths) -/
def ham : List Char → List Char → Nat
  | x :: xs, y :: ys => ham xs ys + (if x = y then 0 else 1)
  | _, _ => 0

lemma ham_nil_left (b : List Char) : ham [] b = 0 := by simp [ham]
lemma ham_nil_right (a : List Char) : ham a [] = 0 := by cases a <;> simp [ham]
lemma ham_cons_cons (x y : Char) (xs ys : List Char) :
    ham (x :: xs) (y :: ys) = ham xs ys + (if x = y then 0 else 1) := by
  simp [ham]

/-- `ham` is symmetric (unconditionally). -/
theorem ham_comm : ∀ (a b : List Char), ham a b = ham b a := by
  intro a
  induction a with
  | nil => intro b; rw [ham_nil_left, ham_nil_right]
  | cons x xs ih =>
    intro b
    cases b with
    | nil => rw [ham_nil_left, ham_nil_right]
    | cons y ys =>
      rw [ham_cons_cons, ham_cons_cons, ih ys]
      by_cases h : x = y
      · subst h; simp
      · have h' : ¬ y = x := fun e => h e.symm
        simp [h, h']

/-- `ham` is symmetric; form with the equal-length hypothesis as requested by the contract. -/
theorem ham_comm_of_length_eq (a b : List Char) (_h : a.length = b.length) : ham a b = ham b a :=
  ham_comm a b

theorem ham_self : ∀ (a : List Char), ham a a = 0 := by
  intro a
  induction a with
  | nil => simp [ham]
  | cons x xs ih => rw [ham_cons_cons, ih]; simp

/-- For equal-length lists the Hamming count vanishes exactly when the lists are equal. -/
theorem ham_eq_zero_iff : ∀ (a b : List Char), a.length = b.length → (ham a b = 0 ↔ a = b) := by
  intro a
  induction a with
  | nil =>
    intro b hl
    have : b = [] := List.length_eq_zero_iff.mp hl.symm
    subst this; simp [ham]
  | cons x xs ih =>
    intro b hl
    cases b with
    | nil => simp at hl
    | cons y ys =>
      simp only [List.length_cons, Nat.add_right_cancel_iff] at hl
      rw [ham_cons_cons]
      by_cases e : x = y
      · subst e
        simp [ih ys hl]
      · simp [e]

theorem ham_le_length : ∀ (a b : List Char), ham a b ≤ a.length := by
  intro a
  induction a with
  | nil => intro b; simp [ham]
  | cons x xs ih =>
    intro b
    cases b with
    | nil => simp [ham]
    | cons y ys =>
      rw [ham_cons_cons]
      have := ih ys
      simp only [List.length_cons]
      split_ifs <;> omega

/-- `ham a b` is the number of positions of the zipped list whose two components differ. -/
theorem ham_eq_countP_zip : ∀ (a b : List Char),
    ham a b = (a.zip b).countP (fun p => decide (p.1 ≠ p.2)) := by
  intro a
  induction a with
  | nil => intro b; simp [ham]
  | cons x xs ih =>
    intro b
    cases b with
    | nil => simp [ham]
    | cons y ys =>
      rw [ham_cons_cons, List.zip_cons_cons, List.countP_cons, ih ys]
      by_cases e : x = y <;> simp [e]

#print axioms ham_comm
#print axioms ham_comm_of_length_eq
#print axioms ham_self
#print axioms ham_eq_zero_iff
#print axioms ham_le_length
#print axioms ham_eq_countP_zip
