import Mathlib.Data.List.Sublists
import Mathlib.Tactic

/-- `s` with the strictly increasing positions `I` (all ≥ `off`) removed, reading from `off`.
    Same recursion as the SMT `define-fun-rec delvar`. -/
def delvar (s : List Char) : List Nat → Nat → List Char
  | [], off => s.drop off
  | i :: is, off => (s.drop off).take (i - off) ++ delvar s is (i + 1)

/-- index lists admissible from offset `off`: strictly increasing, within `[off, |s|)` -/
def Adm (s : List Char) : List Nat → Nat → Prop
  | [], _ => True
  | i :: is, off => off ≤ i ∧ i < s.length ∧ Adm s is (i + 1)

lemma delvar_sublist (s : List Char) : ∀ (I : List Nat) (off : Nat), Adm s I off →
    (delvar s I off).Sublist (s.drop off) ∧ (delvar s I off).length + I.length = s.length - off := by
  intro I
  induction I with
  | nil => intro off _; simp [delvar]
  | cons i is ih =>
    intro off h
    obtain ⟨h1, h2, h3⟩ := h
    obtain ⟨ihs, ihl⟩ := ih (i + 1) h3
    have split : s.drop off = (s.drop off).take (i - off) ++ (s.drop off).drop (i - off) := (List.take_append_drop _ _).symm
    have hd : (s.drop off).drop (i - off) = s.drop i := by rw [List.drop_drop]; congr 1; omega
    have hi : s.drop i = s[i] :: s.drop (i + 1) := List.drop_eq_getElem_cons h2
    have e : s.drop off = (s.drop off).take (i - off) ++ (s[i] :: s.drop (i + 1)) := by
      rw [← hi, ← hd]; exact split
    constructor
    · have h := List.Sublist.append (List.Sublist.refl ((s.drop off).take (i - off))) (ihs.cons s[i])
      rw [← e] at h
      simpa [delvar] using h
    · simp only [delvar, List.length_append, List.length_take, List.length_drop, List.length_cons]
      omega

lemma delvar_shift (s : List Char) (off : Nat) (hoff : off < s.length) :
    ∀ (I : List Nat), Adm s I (off + 1) → delvar s I off = s[off] :: delvar s I (off + 1) := by
  intro I h
  cases I with
  | nil => simp only [delvar]; exact List.drop_eq_getElem_cons hoff
  | cons i is =>
    obtain ⟨h1, h2, _⟩ := h
    simp only [delvar]
    rw [List.drop_eq_getElem_cons hoff]
    have : i - off = (i - (off + 1)) + 1 := by omega
    rw [this, List.take_succ_cons, List.cons_append]

lemma adm_weaken (s : List Char) : ∀ (I : List Nat) (off : Nat), Adm s I (off + 1) → Adm s I off := by
  intro I off h
  cases I with
  | nil => trivial
  | cons i is => exact ⟨by have := h.1; omega, h.2.1, h.2.2⟩

lemma sublist_delvar (s : List Char) : ∀ (u v : List Char) (off : Nat), s.drop off = u → v.Sublist u →
    ∃ I, Adm s I off ∧ delvar s I off = v := by
  intro u v off hu hv
  induction hv generalizing off with
  | slnil => exact ⟨[], trivial, by simp [delvar, hu]⟩
  | @cons v' u' a hs ih =>
    have hoff : off < s.length := by
      by_contra hc; rw [List.drop_eq_nil_of_le (by omega)] at hu; simp at hu
    have hi := List.drop_eq_getElem_cons hoff
    rw [hu] at hi; injection hi with _ hrest
    obtain ⟨I, hA, hD⟩ := ih (off + 1) hrest.symm
    refine ⟨off :: I, ⟨le_refl _, hoff, hA⟩, ?_⟩
    simp [delvar, hD]
  | @cons_cons v' u' a hs ih =>
    have hoff : off < s.length := by
      by_contra hc; rw [List.drop_eq_nil_of_le (by omega)] at hu; simp at hu
    have hi := List.drop_eq_getElem_cons hoff
    rw [hu] at hi; injection hi with hhead hrest
    obtain ⟨I, hA, hD⟩ := ih (off + 1) hrest.symm
    refine ⟨I, adm_weaken s I off hA, ?_⟩
    rw [delvar_shift s off hoff I hA, hD, hhead]

/-- L-comb: the deletion variants produced from admissible index tuples of length ≤ k are
    exactly the subsequences missing at most k characters. -/
theorem mem_delvariants_iff (s v : List Char) (k : Nat) :
    (∃ I, Adm s I 0 ∧ I.length ≤ k ∧ delvar s I 0 = v) ↔ (v.Sublist s ∧ s.length ≤ v.length + k) := by
  constructor
  · rintro ⟨I, hA, hk, rfl⟩
    obtain ⟨h1, h2⟩ := delvar_sublist s I 0 hA
    simp at h1 h2
    exact ⟨h1, by omega⟩
  · rintro ⟨hs, hl⟩
    obtain ⟨I, hA, hD⟩ := sublist_delvar s s v 0 (by simp) hs
    obtain ⟨_, h2⟩ := delvar_sublist s I 0 hA
    simp at h2
    exact ⟨I, hA, by rw [hD] at h2; omega, hD⟩
#print axioms mem_delvariants_iff
