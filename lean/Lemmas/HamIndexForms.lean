import Mathlib.Tactic

/-!
# Index forms of "Hamming distance exactly 1 / 2 / 3"

`ham` and `subAt` are copied verbatim from `OneEditAndHamming.lean` (and `ham` is textually
identical to the one in `HamBasic.lean` / `RoutineLemmas.lean`), so the theorems below are about
the same functions.  This file is self-contained.

Main results (all for lists of equal length)
* `ham_cons_succ_iff` : peeling lemma, `ham (x0 :: xs) (y0 :: ys) = n + 1` iff either the heads
                        agree and the tails are at distance `n + 1`, or the heads differ and the
                        tails are at distance `n`  (i.e. peel off the FIRST differing position)
* `ham_eq_one_iff`    : `ham x y = 1` iff `y` is `x` with one position replaced by a different letter
* `ham_eq_two_iff`    : `ham x y = 2` iff `y` is `x` with two positions `i < j` replaced by
                        different letters
* `ham_eq_three_iff`  : `ham x y = 3` iff `y` is `x` with three positions `i < j < k` replaced by
                        different letters
-/

/-- number of mismatching positions (only meaningful for equal lengths) -/
def ham : List Char → List Char → Nat
  | x :: xs, y :: ys => ham xs ys + (if x = y then 0 else 1)
  | _, _ => 0

def subAt (x : List Char) (i : ℕ) (a : Char) : List Char := x.take i ++ a :: x.drop (i + 1)

@[simp] lemma subAt_cons_succ (c : Char) (cs : List Char) (i : ℕ) (a : Char) :
    subAt (c :: cs) (i + 1) a = c :: subAt cs i a := by simp [subAt]

@[simp] lemma subAt_cons_zero (c : Char) (cs : List Char) (a : Char) :
    subAt (c :: cs) 0 a = a :: cs := by simp [subAt]

lemma ham_cons_cons (x y : Char) (xs ys : List Char) :
    ham (x :: xs) (y :: ys) = ham xs ys + (if x = y then 0 else 1) := by
  simp [ham]

theorem ham_self : ∀ (a : List Char), ham a a = 0 := by
  intro a
  induction a with
  | nil => simp [ham]
  | cons x xs ih => rw [ham_cons_cons, ih]; simp

/-- For equal-length lists the Hamming count vanishes exactly when the lists are equal. -/
theorem ham_eq_zero_iff : ∀ (a b : List Char), a.length = b.length → (ham a b = 0 ↔ a = b) := by
  intro a
  induction a with
  | nil =>
    intro b hl
    have : b = [] := List.length_eq_zero_iff.mp hl.symm
    subst this; simp [ham]
  | cons x xs ih =>
    intro b hl
    cases b with
    | nil => simp at hl
    | cons y ys =>
      simp only [List.length_cons, Nat.add_right_cancel_iff] at hl
      rw [ham_cons_cons]
      by_cases e : x = y
      · subst e
        simp [ih ys hl]
      · simp [e]

/-- Peeling lemma: look at the head position.  Iterating it peels off the first differing
position, which is what yields the strict ordering of the indices below. -/
theorem ham_cons_succ_iff (x0 y0 : Char) (xs ys : List Char) (n : ℕ) :
    ham (x0 :: xs) (y0 :: ys) = n + 1 ↔
      (x0 = y0 ∧ ham xs ys = n + 1) ∨ (x0 ≠ y0 ∧ ham xs ys = n) := by
  rw [ham_cons_cons]
  by_cases e : x0 = y0 <;> simp [e]

theorem ham_eq_one_iff_aux : ∀ (x y : List Char), x.length = y.length →
    (ham x y = 1 ↔ ∃ (i : ℕ) (a : Char), i < x.length ∧ a ≠ x.getD i default ∧ y = subAt x i a) := by
  intro x
  induction x with
  | nil =>
    intro y hl
    have : y = [] := List.length_eq_zero_iff.mp hl.symm
    subst this; simp [ham]
  | cons x0 xs ih =>
    intro y hl
    cases y with
    | nil => simp at hl
    | cons y0 ys =>
      simp only [List.length_cons, Nat.add_right_cancel_iff] at hl
      have peel : ham (x0 :: xs) (y0 :: ys) = 1 ↔
          (x0 = y0 ∧ ham xs ys = 1) ∨ (x0 ≠ y0 ∧ ham xs ys = 0) :=
        ham_cons_succ_iff x0 y0 xs ys 0
      rw [peel]
      constructor
      · rintro (⟨rfl, h1⟩ | ⟨hne, h0⟩)
        · obtain ⟨i, a, hi, ha, hy⟩ := (ih ys hl).mp h1
          exact ⟨i + 1, a, by simpa using hi, by simpa using ha, by simp [hy]⟩
        · have e := (ham_eq_zero_iff xs ys hl).mp h0
          exact ⟨0, y0, by simp, by simpa using (Ne.symm hne), by simp [e]⟩
      · rintro ⟨i, a, hi, ha, hy⟩
        cases i with
        | zero =>
          simp only [subAt_cons_zero, List.cons.injEq] at hy
          simp only [List.getD_cons_zero] at ha
          obtain ⟨e1, e2⟩ := hy
          right
          refine ⟨fun e => ha (by rw [← e1, e]), ?_⟩
          rw [e2]; exact ham_self _
        | succ i =>
          simp only [subAt_cons_succ, List.cons.injEq] at hy
          simp only [List.getD_cons_succ] at ha
          simp only [List.length_cons, Nat.add_lt_add_iff_right] at hi
          left
          exact ⟨hy.1.symm, (ih ys hl).mpr ⟨i, a, hi, ha, hy.2⟩⟩

theorem ham_eq_two_iff_aux : ∀ (x y : List Char), x.length = y.length →
    (ham x y = 2 ↔ ∃ (i j : ℕ) (a b : Char), i < j ∧ j < x.length ∧
      a ≠ x.getD i default ∧ b ≠ x.getD j default ∧ y = subAt (subAt x i a) j b) := by
  intro x
  induction x with
  | nil =>
    intro y hl
    have : y = [] := List.length_eq_zero_iff.mp hl.symm
    subst this; simp [ham]
  | cons x0 xs ih =>
    intro y hl
    cases y with
    | nil => simp at hl
    | cons y0 ys =>
      simp only [List.length_cons, Nat.add_right_cancel_iff] at hl
      have peel : ham (x0 :: xs) (y0 :: ys) = 2 ↔
          (x0 = y0 ∧ ham xs ys = 2) ∨ (x0 ≠ y0 ∧ ham xs ys = 1) :=
        ham_cons_succ_iff x0 y0 xs ys 1
      rw [peel]
      constructor
      · rintro (⟨rfl, h2⟩ | ⟨hne, h1⟩)
        · obtain ⟨i, j, a, b, hij, hj, ha, hb, hy⟩ := (ih ys hl).mp h2
          exact ⟨i + 1, j + 1, a, b, by omega, by simpa using hj, by simpa using ha,
            by simpa using hb, by simp [hy]⟩
        · obtain ⟨j, b, hj, hb, hy⟩ := (ham_eq_one_iff_aux xs ys hl).mp h1
          exact ⟨0, j + 1, y0, b, by omega, by simpa using hj, by simpa using (Ne.symm hne),
            by simpa using hb, by simp [hy]⟩
      · rintro ⟨i, j, a, b, hij, hj, ha, hb, hy⟩
        obtain ⟨j, rfl⟩ : ∃ j', j = j' + 1 := ⟨j - 1, by omega⟩
        simp only [List.getD_cons_succ] at hb
        simp only [List.length_cons, Nat.add_lt_add_iff_right] at hj
        cases i with
        | zero =>
          simp only [subAt_cons_zero, subAt_cons_succ, List.cons.injEq] at hy
          simp only [List.getD_cons_zero] at ha
          obtain ⟨e1, e2⟩ := hy
          right
          exact ⟨fun e => ha (by rw [← e1, e]),
            (ham_eq_one_iff_aux xs ys hl).mpr ⟨j, b, hj, hb, e2⟩⟩
        | succ i =>
          simp only [subAt_cons_succ, List.cons.injEq] at hy
          simp only [List.getD_cons_succ] at ha
          left
          exact ⟨hy.1.symm, (ih ys hl).mpr ⟨i, j, a, b, by omega, hj, ha, hb, hy.2⟩⟩

theorem ham_eq_three_iff_aux : ∀ (x y : List Char), x.length = y.length →
    (ham x y = 3 ↔ ∃ (i j k : ℕ) (a b c : Char), i < j ∧ j < k ∧ k < x.length ∧
      a ≠ x.getD i default ∧ b ≠ x.getD j default ∧ c ≠ x.getD k default ∧
      y = subAt (subAt (subAt x i a) j b) k c) := by
  intro x
  induction x with
  | nil =>
    intro y hl
    have : y = [] := List.length_eq_zero_iff.mp hl.symm
    subst this; simp [ham]
  | cons x0 xs ih =>
    intro y hl
    cases y with
    | nil => simp at hl
    | cons y0 ys =>
      simp only [List.length_cons, Nat.add_right_cancel_iff] at hl
      have peel : ham (x0 :: xs) (y0 :: ys) = 3 ↔
          (x0 = y0 ∧ ham xs ys = 3) ∨ (x0 ≠ y0 ∧ ham xs ys = 2) :=
        ham_cons_succ_iff x0 y0 xs ys 2
      rw [peel]
      constructor
      · rintro (⟨rfl, h3⟩ | ⟨hne, h2⟩)
        · obtain ⟨i, j, k, a, b, c, hij, hjk, hk, ha, hb, hc, hy⟩ := (ih ys hl).mp h3
          exact ⟨i + 1, j + 1, k + 1, a, b, c, by omega, by omega, by simpa using hk,
            by simpa using ha, by simpa using hb, by simpa using hc, by simp [hy]⟩
        · obtain ⟨j, k, b, c, hjk, hk, hb, hc, hy⟩ := (ham_eq_two_iff_aux xs ys hl).mp h2
          exact ⟨0, j + 1, k + 1, y0, b, c, by omega, by omega, by simpa using hk,
            by simpa using (Ne.symm hne), by simpa using hb, by simpa using hc, by simp [hy]⟩
      · rintro ⟨i, j, k, a, b, c, hij, hjk, hk, ha, hb, hc, hy⟩
        obtain ⟨j, rfl⟩ : ∃ j', j = j' + 1 := ⟨j - 1, by omega⟩
        obtain ⟨k, rfl⟩ : ∃ k', k = k' + 1 := ⟨k - 1, by omega⟩
        simp only [List.getD_cons_succ] at hb hc
        simp only [List.length_cons, Nat.add_lt_add_iff_right] at hk
        cases i with
        | zero =>
          simp only [subAt_cons_zero, subAt_cons_succ, List.cons.injEq] at hy
          simp only [List.getD_cons_zero] at ha
          obtain ⟨e1, e2⟩ := hy
          right
          exact ⟨fun e => ha (by rw [← e1, e]),
            (ham_eq_two_iff_aux xs ys hl).mpr ⟨j, k, b, c, by omega, hk, hb, hc, e2⟩⟩
        | succ i =>
          simp only [subAt_cons_succ, List.cons.injEq] at hy
          simp only [List.getD_cons_succ] at ha
          left
          exact ⟨hy.1.symm,
            (ih ys hl).mpr ⟨i, j, k, a, b, c, by omega, by omega, hk, ha, hb, hc, hy.2⟩⟩

/-- Hamming distance exactly 1: one position replaced by a different letter. -/
theorem ham_eq_one_iff (x y : List Char) (h : x.length = y.length) :
    ham x y = 1 ↔ ∃ (i : ℕ) (a : Char), i < x.length ∧ a ≠ x.getD i default ∧ y = subAt x i a :=
  ham_eq_one_iff_aux x y h

/-- Hamming distance exactly 2: two positions `i < j` replaced by different letters. -/
theorem ham_eq_two_iff (x y : List Char) (h : x.length = y.length) :
    ham x y = 2 ↔ ∃ (i j : ℕ) (a b : Char), i < j ∧ j < x.length ∧ a ≠ x.getD i default ∧ b ≠ x.getD j default ∧ y = subAt (subAt x i a) j b :=
  ham_eq_two_iff_aux x y h

/-- Hamming distance exactly 3: three positions `i < j < k` replaced by different letters. -/
theorem ham_eq_three_iff (x y : List Char) (h : x.length = y.length) :
    ham x y = 3 ↔ ∃ (i j k : ℕ) (a b c : Char), i < j ∧ j < k ∧ k < x.length ∧ a ≠ x.getD i default ∧ b ≠ x.getD j default ∧ c ≠ x.getD k default ∧ y = subAt (subAt (subAt x i a) j b) k c :=
  ham_eq_three_iff_aux x y h

#print axioms ham_cons_succ_iff
#print axioms ham_eq_one_iff
#print axioms ham_eq_two_iff
#print axioms ham_eq_three_iff
