import Mathlib.Tactic

def lev : List Char → List Char → Nat
  | [], ys => ys.length
  | xs, [] => xs.length
  | x :: xs, y :: ys =>
    min (min (lev xs (y :: ys) + 1) (lev (x :: xs) ys + 1)) (lev xs ys + if x = y then 0 else 1)
termination_by xs ys => xs.length + ys.length

lemma lev_nil_left (ys : List Char) : lev [] ys = ys.length := by simp [lev]
lemma lev_nil_right (xs : List Char) : lev xs [] = xs.length := by cases xs <;> simp [lev]

lemma lev_cons_cons (x y : Char) (xs ys : List Char) :
    lev (x :: xs) (y :: ys) =
      min (min (lev xs (y :: ys) + 1) (lev (x :: xs) ys + 1)) (lev xs ys + if x = y then 0 else 1) := by
  rw [lev]

/-- one single-character edit -/
inductive Step : List Char → List Char → Prop
  | ins (c : Char) (ys : List Char) : Step ys (c :: ys)
  | del (c : Char) (ys : List Char) : Step (c :: ys) ys
  | sub (c c' : Char) (ys : List Char) (h : c ≠ c') : Step (c :: ys) (c' :: ys)
  | cons (c : Char) {ys ys' : List Char} (h : Step ys ys') : Step (c :: ys) (c :: ys')

-- upper bounds read off the recursion
lemma lev_cons_left_le (x : Char) (xs y : List Char) : lev (x :: xs) y ≤ lev xs y + 1 := by
  cases y with
  | nil => simp [lev_nil_right]
  | cons y ys => rw [lev_cons_cons]; exact le_trans (min_le_left _ _) (min_le_left _ _)

lemma lev_cons_right_le (x : List Char) (c : Char) (ys : List Char) : lev x (c :: ys) ≤ lev x ys + 1 := by
  cases x with
  | nil => simp [lev_nil_left]
  | cons x xs => rw [lev_cons_cons]; exact le_trans (min_le_left _ _) (min_le_right _ _)

lemma lev_cons_cons_le (x y : Char) (xs ys : List Char) :
    lev (x :: xs) (y :: ys) ≤ lev xs ys + if x = y then 0 else 1 := by
  rw [lev_cons_cons]; exact min_le_right _ _

lemma lev_cons_cons_le_succ (x y : Char) (xs ys : List Char) :
    lev (x :: xs) (y :: ys) ≤ lev xs ys + 1 := by
  have := lev_cons_cons_le x y xs ys; split_ifs at this <;> omega

/-- (A) a single edit of the second argument changes `lev` by at most one -/
theorem lev_step_le {y y' : List Char} (h : Step y y') : ∀ x, lev x y' ≤ lev x y + 1 := by
  induction h with
  | ins c ys => intro x; exact lev_cons_right_le x c ys
  | del c ys =>
    intro x
    induction x with
    | nil => simp [lev_nil_left]; omega
    | cons x0 xs ih =>
      rw [lev_cons_cons]
      have h1 := lev_cons_left_le x0 xs ys
      simp only [min_def]; split_ifs <;> omega
  | sub c c' ys hne =>
    intro x
    induction x with
    | nil => simp [lev_nil_left]
    | cons x0 xs ih =>
      rw [lev_cons_cons x0 c]
      have h1 := lev_cons_left_le x0 xs (c' :: ys)
      have h2 := lev_cons_right_le (x0 :: xs) c' ys
      have h3 := lev_cons_cons_le_succ x0 c' xs ys
      simp only [min_def]; split_ifs <;> omega
  | @cons c ys ys' hs ihs =>
    intro x
    induction x with
    | nil => have := ihs []; simp [lev_nil_left] at this ⊢; omega
    | cons x0 xs ih =>
      rw [lev_cons_cons x0 c xs ys]
      have h1 := lev_cons_left_le x0 xs (c :: ys')
      have h2 := lev_cons_right_le (x0 :: xs) c ys'
      have h3 := lev_cons_cons_le x0 c xs ys'
      have i1 := ihs (x0 :: xs)
      have i2 := ihs xs
      simp only [min_def]; split_ifs at * <;> omega

lemma lev_self (x : List Char) : lev x x = 0 := by
  induction x with
  | nil => simp [lev]
  | cons c cs ih => have := lev_cons_cons_le c c cs cs; simp at this; omega

lemma lev_eq_zero : ∀ (a b : List Char), lev a b = 0 → a = b := by
  intro a
  induction a with
  | nil => intro b hb; rw [lev_nil_left] at hb; exact (List.length_eq_zero_iff.mp hb).symm
  | cons a0 as iha =>
    intro b hb
    cases b with
    | nil => rw [lev_nil_right] at hb; simp at hb
    | cons b0 bs =>
      rw [lev_cons_cons] at hb
      have h3 : lev as bs + (if a0 = b0 then 0 else 1) = 0 := by
        generalize lev as (b0 :: bs) = A at hb
        generalize lev (a0 :: as) bs = B at hb
        generalize lev as bs + (if a0 = b0 then 0 else 1) = C at hb ⊢
        rcases min_choice (min (A + 1) (B + 1)) C with h | h <;> rw [h] at hb
        · rcases min_choice (A + 1) (B + 1) with h' | h' <;> rw [h'] at hb <;> omega
        · exact hb
      by_cases e : a0 = b0
      · subst e; simp at h3; rw [iha bs h3]
      · simp [e] at h3

/-- (B) geodesic: a pair at distance n+1 has a predecessor at distance ≤ n one step away -/
theorem lev_pred : ∀ (m : ℕ) (x y : List Char), x.length + y.length = m → ∀ n, lev x y = n + 1 →
    ∃ z, lev x z ≤ n ∧ Step z y ∧ (∀ c ∈ z, c ∈ x ∨ c ∈ y) := by
  intro m
  induction m using Nat.strong_induction_on with
  | _ m ih =>
    intro x y hm n hn
    match x, y with
    | [], [] => simp [lev] at hn
    | [], c :: ys =>
      rw [lev_nil_left] at hn; simp at hn
      exact ⟨ys, by rw [lev_nil_left]; omega, Step.ins c ys, fun d hd => Or.inr (List.mem_cons_of_mem _ hd)⟩
    | x0 :: xs, [] =>
      rw [lev_nil_right] at hn; simp at hn
      refine ⟨[x0], ?_, Step.del x0 [], fun d hd => Or.inl (by simp at hd; simp [hd])⟩
      have := lev_cons_cons_le x0 x0 xs []; simp [lev_nil_right] at this; omega
    | x0 :: xs, y0 :: ys =>
      simp only [List.length_cons] at hm
      rw [lev_cons_cons] at hn
      -- which branch attains the minimum?
      have key : lev xs (y0 :: ys) = n ∨ lev (x0 :: xs) ys = n ∨ lev xs ys + (if x0 = y0 then 0 else 1) = n + 1 := by
        generalize lev xs (y0 :: ys) = A at hn ⊢
        generalize lev (x0 :: xs) ys = B at hn ⊢
        generalize lev xs ys + (if x0 = y0 then 0 else 1) = C at hn ⊢
        rcases min_choice (min (A + 1) (B + 1)) C with h | h <;> rw [h] at hn
        · rcases min_choice (A + 1) (B + 1) with h' | h' <;> rw [h'] at hn <;> omega
        · omega
      rcases key with h | h | h
      · -- deletion of x0
        rcases Nat.eq_zero_or_pos n with hz | hp
        · subst hz
          -- lev xs y = 0 : take z = x itself
          refine ⟨x0 :: xs, by rw [lev_self], ?_, fun d hd => Or.inl hd⟩
          have : xs = y0 :: ys := lev_eq_zero _ _ h
          rw [this]; exact Step.del x0 (y0 :: ys)
        · obtain ⟨z, hz1, hz2, hz3⟩ := ih (xs.length + (ys.length + 1)) (by omega) xs (y0 :: ys) (by simp) (n - 1) (by omega)
          refine ⟨z, ?_, hz2, fun d hd => ?_⟩
          · have := lev_cons_left_le x0 xs z; omega
          · rcases hz3 d hd with h' | h'
            · exact Or.inl (List.mem_cons_of_mem _ h')
            · exact Or.inr h'
      · -- insertion of y0
        exact ⟨ys, by omega, Step.ins y0 ys, fun d hd => Or.inr (List.mem_cons_of_mem _ hd)⟩
      · by_cases e : x0 = y0
        · subst e
          simp at h
          obtain ⟨z, hz1, hz2, hz3⟩ := ih (xs.length + ys.length) (by omega) xs ys rfl n h
          refine ⟨x0 :: z, ?_, Step.cons x0 hz2, fun d hd => ?_⟩
          · have := lev_cons_cons_le x0 x0 xs z; simp at this; omega
          · rcases List.mem_cons.mp hd with rfl | hd
            · exact Or.inl (by simp)
            · rcases hz3 d hd with h' | h'
              · exact Or.inl (List.mem_cons_of_mem _ h')
              · exact Or.inr (List.mem_cons_of_mem _ h')
        · simp [e] at h
          refine ⟨x0 :: ys, ?_, Step.sub x0 y0 ys e, fun d hd => ?_⟩
          · have := lev_cons_cons_le x0 x0 xs ys; simp at this; omega
          · rcases List.mem_cons.mp hd with rfl | hd
            · exact Or.inl (by simp)
            · exact Or.inr (List.mem_cons_of_mem _ hd)

#print axioms lev_step_le
#print axioms lev_pred

/-- corollary: distance exactly one is exactly one edit step -/
theorem lev_eq_one_iff_step (x y : List Char) : lev x y = 1 ↔ Step x y := by
  constructor
  · intro h
    obtain ⟨z, hz, hs, _⟩ := lev_pred _ x y rfl 0 (by omega)
    have : x = z := lev_eq_zero _ _ (by omega)
    rw [this]; exact hs
  · intro h
    have h1 := lev_step_le h x
    rw [lev_self] at h1
    have h0 : lev x y ≠ 0 := by
      intro h0
      have := lev_eq_zero _ _ h0
      subst this
      -- a step never relates a list to itself (length or one position differs)
      have : ∀ {a b : List Char}, Step a b → a ≠ b := by
        intro a b hab
        induction hab with
        | ins c ys => intro e; have := congrArg List.length e; simp at this
        | del c ys => intro e; have := congrArg List.length e; simp at this
        | sub c c' ys hne => intro e; injection e with e1 _; exact hne e1
        | cons c _ ih => intro e; injection e with _ e2; exact ih e2
      exact this h rfl
    omega
#print axioms lev_eq_one_iff_step
