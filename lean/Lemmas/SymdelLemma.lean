import Mathlib.Data.List.Sublists
import Mathlib.Tactic

def lev : List Char → List Char → Nat
  | [], ys => ys.length
  | xs, [] => xs.length
  | x :: xs, y :: ys =>
    min (min (lev xs (y :: ys) + 1) (lev (x :: xs) ys + 1)) (lev xs ys + if x = y then 0 else 1)
termination_by xs ys => xs.length + ys.length

theorem symdel_lemma : ∀ (n : Nat) (a b : List Char), a.length + b.length = n → ∀ k, lev a b ≤ k →
    ∃ c : List Char, c.Sublist a ∧ c.Sublist b ∧ a.length ≤ c.length + k ∧ b.length ≤ c.length + k := by
  intro n
  induction n using Nat.strong_induction_on with
  | _ n ih =>
    intro a b hn k hk
    match a, b with
    | [], ys =>
      refine ⟨[], List.Sublist.refl _, List.nil_sublist _, by simp, ?_⟩
      simp [lev] at hk; simpa using hk
    | x :: xs, [] =>
      refine ⟨[], List.nil_sublist _, List.Sublist.refl _, ?_, by simp⟩
      simp [lev] at hk; simpa using hk
    | x :: xs, y :: ys =>
      rw [lev] at hk
      simp only [List.length_cons] at hn
      have key : lev xs (y :: ys) + 1 ≤ k ∨ lev (x :: xs) ys + 1 ≤ k ∨
          lev xs ys + (if x = y then 0 else 1) ≤ k := by
        by_contra h
        push Not at h
        obtain ⟨h1, h2, h3⟩ := h
        have : k < min (min (lev xs (y :: ys) + 1) (lev (x :: xs) ys + 1)) (lev xs ys + if x = y then 0 else 1) := by
          simp only [lt_min_iff]; exact ⟨⟨h1, h2⟩, h3⟩
        omega
      rcases key with h | h | h
      · -- delete x
        obtain ⟨c, hca, hcb, la, lb⟩ := ih (xs.length + (ys.length + 1)) (by omega) xs (y :: ys) (by simp) (k - 1) (by omega)
        refine ⟨c, hca.cons _, hcb, ?_, ?_⟩ <;> simp only [List.length_cons] at * <;> omega
      · obtain ⟨c, hca, hcb, la, lb⟩ := ih ((xs.length + 1) + ys.length) (by omega) (x :: xs) ys (by simp) (k - 1) (by omega)
        refine ⟨c, hca, hcb.cons _, ?_, ?_⟩ <;> simp only [List.length_cons] at * <;> omega
      · by_cases hxy : x = y
        · subst hxy
          simp at h
          obtain ⟨c, hca, hcb, la, lb⟩ := ih (xs.length + ys.length) (by omega) xs ys rfl k h
          refine ⟨x :: c, hca.cons_cons _, hcb.cons_cons _, ?_, ?_⟩ <;> simp only [List.length_cons] <;> omega
        · simp [hxy] at h
          obtain ⟨c, hca, hcb, la, lb⟩ := ih (xs.length + ys.length) (by omega) xs ys rfl (k - 1) (by omega)
          refine ⟨c, hca.cons _, hcb.cons _, ?_, ?_⟩ <;> simp only [List.length_cons] <;> omega
#print axioms symdel_lemma
