#!/usr/bin/env python3
"""tools/seedtest.py <seed dir> [<more seed dirs>] : confirm a seeded defect (applies cleanly, suite unchanged, demo fails with it
and passes without it) in a scratch copy, then run the property's check against /repo with the patch applied
(git apply ... ; check ; git checkout -- .), and store it under /verif/seeded/<name>/ ."""
import json, os, shutil, subprocess, sys, tempfile, time
HERE = os.path.dirname(os.path.dirname(os.path.abspath(__file__)))


def sh(cmd, **kw):
    return subprocess.run(cmd, capture_output=True, text=True, **kw)


def suite(path):
    r = sh(["/venv/bin/python", "-m", "pytest", "-q", "-p", "no:cacheprovider", "--timeout=900", "--continue-on-collection-errors"], cwd=path)
    tail = [l for l in r.stdout.splitlines() if " passed" in l or " failed" in l]
    failed = sorted(l for l in r.stdout.splitlines() if l.startswith("FAILED") or l.startswith("ERROR"))
    return (tail[-1] if tail else r.stdout[-200:]), failed


for d in sys.argv[1:]:
    d = d.rstrip("/")
    name = os.path.basename(d).replace("seed_", "")
    meta = json.load(open(os.path.join(d, "meta.json")))
    prop = meta["property"]
    patch = os.path.join(d, "patch.diff")
    out = {"name": name, "property": prop}
    scratch = tempfile.mkdtemp(prefix="seedtest_", dir="/tmp")
    try:
        subprocess.check_call(["rsync", "-a", "--exclude", ".git", "/repo/", scratch + "/"])
        env = dict(os.environ, PYTHONPATH=scratch)
        r0 = sh(["/venv/bin/python", os.path.join(d, "demo.py")], env=env, cwd=scratch)
        out["demo_without"] = r0.returncode
        base_tail, base_failed = suite(scratch)
        ap = sh(["patch", "-p1", "-i", patch], cwd=scratch)
        out["applies"] = ap.returncode == 0
        r1 = sh(["/venv/bin/python", os.path.join(d, "demo.py")], env=env, cwd=scratch)
        out["demo_with"] = r1.returncode
        tail, failed = suite(scratch)
        out["suite_with"] = tail
        out["suite_same_failures"] = (failed == base_failed)
    finally:
        shutil.rmtree(scratch, ignore_errors=True)
    out["confirmed"] = bool(out["applies"] and out["demo_without"] == 0 and out["demo_with"] != 0 and out["suite_same_failures"]
                            and "71 passed" in out["suite_with"])
    # run the property's check against a patched copy of /repo (PYREPSEQ_REPO; same as git apply / check / git checkout on /repo,
    # but leaves /repo alone so that several of these can run side by side)
    chk = {}
    if out["confirmed"]:
        scratch = tempfile.mkdtemp(prefix="seedchk_", dir="/tmp")
        try:
            subprocess.check_call(["rsync", "-a", "--exclude", ".git", "/repo/", scratch + "/"])
            a = sh(["patch", "-p1", "-i", patch], cwd=scratch)
            if a.returncode == 0:
                t0 = time.time()
                r = sh([os.path.join(HERE, "bin", "check"), prop, "--no-evidence"], env=dict(os.environ, PYREPSEQ_REPO=scratch))
                chk = {"exit": r.returncode, "wall_s": round(time.time() - t0, 1),
                       "lines": [l for l in r.stdout.splitlines() if l.startswith(("VIOLATION", "  failed", "ERROR", "KNOWN"))][:8]}
            else:
                chk = {"error": "patch failed: " + a.stderr[:200]}
        finally:
            shutil.rmtree(scratch, ignore_errors=True)
    out["check"] = chk
    dest = os.path.join(HERE, "seeded", name)
    if out["confirmed"]:
        os.makedirs(dest, exist_ok=True)
        shutil.copy(patch, os.path.join(dest, "patch.diff"))
        shutil.copy(os.path.join(d, "demo.py"), os.path.join(dest, "demo.py"))
        meta["confirmed_by_me"] = {k: out[k] for k in ("applies", "demo_without", "demo_with", "suite_with", "suite_same_failures")}
        meta["check_result"] = chk
        meta["detected"] = chk.get("exit") == 1
        json.dump(meta, open(os.path.join(dest, "meta.json"), "w"), indent=1)
    print(json.dumps(out, indent=1))
