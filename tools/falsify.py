#!/usr/bin/env python3
"""tools/falsify.py <qualname> [budget] [seed]: run the concrete falsifier (replay harness) of one function's contract over its scope
against the current /repo tree.  Used to validate the concrete reading of the contracts (no violation may be found on the pinned tree)."""
import json, os, subprocess, sys
HERE = os.path.dirname(os.path.dirname(os.path.abspath(__file__)))
sys.path.insert(0, HERE)
import re
q = sys.argv[1]
budget = int(sys.argv[2]) if len(sys.argv) > 2 else 2000
seed = int(sys.argv[3]) if len(sys.argv) > 3 else 0
scope = None
for fn in os.listdir(os.path.join(HERE, "contracts")):
    if fn.endswith(".py"):
        m = re.search(r'@contract\("%s"[^)]*scope="([^"]+)"' % re.escape(q), open(os.path.join(HERE, "contracts", fn)).read())
        if m:
            scope = m.group(1)
req = {"qualname": q, "scope": scope, "seed": seed, "budget": budget}
p = subprocess.run(["/venv/bin/python", os.path.join(HERE, "replay", "harness.py"), "falsify"], input=json.dumps(req), capture_output=True,
                   text=True, cwd=HERE, env=dict(os.environ, PYREPSEQ_REPO=os.environ.get("PYREPSEQ_REPO", "/repo")))
try:
    out = json.loads(p.stdout)
    print(json.dumps({k: out.get(k) for k in ("found", "tried", "in_domain", "note", "error", "harness_errors")}, default=str)[:1500])
    if out.get("found"):
        print(json.dumps(out.get("args"))[:800]); print(json.dumps(out.get("report"), default=str)[:1200])
except Exception:
    print(p.stdout[-800:], p.stderr[-2500:])
