#!/usr/bin/env python3
"""Mutation self-test: applies catalogue mutants (notes/mutants_confirmed.json + seeded/*/patch.diff)
to a scratch copy of /repo and runs the corresponding check against it (PYREPSEQ_REPO).
usage: tools/selftest.py [ids or property ids ...]"""
import json, os, shutil, subprocess, sys, tempfile
HERE = os.path.dirname(os.path.dirname(os.path.abspath(__file__)))
PROP_OF = {}
for line in open(os.path.join(HERE, "CONTRACTS_DRAFT.md")):
    if line.startswith("| M") or line.startswith("| N"):
        cols = [c.strip() for c in line.strip().strip("|").split("|")]
        PROP_OF[cols[0]] = cols[3].split()
muts = json.load(open(os.path.join(HERE, "notes", "mutants_confirmed.json")))
for m in json.load(open(os.path.join(HERE, "notes", "mutants_extra.json"))):     # mutants written during the build phase
    muts.append(m)
    PROP_OF[m["id"]] = m["props"]
want = set(sys.argv[1:])
claimed = {c["property_id"] for c in json.load(open(os.path.join(HERE, "MANIFEST.json")))["checks"]}
rows = []
for m in muts:
    props = [p for p in PROP_OF.get(m["id"], []) if p.startswith("C")]
    if m["id"].startswith("N"):
        props = sorted(claimed) if not want else [p for p in want if p.startswith("C")]
    if want and not (m["id"] in want or set(props) & want):
        continue
    scratch = tempfile.mkdtemp(prefix="selftest_", dir="/tmp")
    try:
        subprocess.check_call(["rsync", "-a", "--exclude", ".git", "/repo/", scratch + "/"])
        path = os.path.join(scratch, m["file"])
        s = open(path).read()
        if m["old"] not in s:
            rows.append((m["id"], "-", "SKIP (old text not in current tree)"))
            continue
        open(path, "w").write(s.replace(m["old"], m["new"], 1))
        for p in props:
            if p not in claimed and p not in want and m["id"] not in want:
                rows.append((m["id"], p, "not claimed yet"))
                continue
            env = dict(os.environ, PYREPSEQ_REPO=scratch)
            r = subprocess.run([os.path.join(HERE, "bin", "check"), p, "--no-evidence"], capture_output=True, text=True, env=env)
            vio = [l for l in r.stdout.splitlines() if l.startswith("VIOLATION") or l.startswith("  failed") or l.startswith("ERROR")]
            exp = 1 if m["expect"] == "violation" else 0
            ok = (r.returncode == exp)
            rows.append((m["id"], p, f"exit={r.returncode} expected={exp} {'OK' if ok else 'MISMATCH'} " + " | ".join(vio)[:300]))
    finally:
        shutil.rmtree(scratch, ignore_errors=True)
for r in rows:
    print(*r)
