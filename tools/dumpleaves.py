#!/usr/bin/env python3-vt
"""tools/dumpleaves.py <qualname> <substring> -> decomposed leaves as /tmp/leaf_<n>.smt2"""
import sys, re; sys.path.insert(0,'/verif')
import z3
from pyvc import frontend, contracts, verify, solve, allext
repo=frontend.Repo(); reg=contracts.Registry(); reg.load_dir('/verif/contracts')
q, pat = sys.argv[1], sys.argv[2]
rep=verify.verify_function(repo,reg,q,only_variant=(int(sys.argv[3]) if len(sys.argv)>3 else None))
obs=[o for o in rep.obligations+verify.lemma_obligations(repo,reg,q) if pat in o.name]
n=0
for ob in obs:
    for hy, g in solve._decompose(ob.goal, list(ob.hyps)):
        s=z3.Solver()
        for h,_ in hy: s.add(h)
        s.add(z3.Not(g))
        txt=re.sub(r"\(\(_ ([A-Za-z_][A-Za-z_0-9]*) 0\)", r"(\1", s.to_smt2())
        open(f'/tmp/leaf_{n}.smt2','w').write("(set-logic ALL)\n"+txt)
        print(n, ob.name, len(hy)); n+=1
