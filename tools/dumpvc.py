#!/usr/bin/env python3-vt
"""tools/dumpvc.py <qualname> <substring of obligation name> [variant] -> writes /tmp/vc_<n>.smt2"""
import sys; sys.path.insert(0,'/verif')
import z3
from pyvc import frontend, contracts, verify, solve, allext
repo=frontend.Repo(); reg=contracts.Registry(); reg.load_dir('/verif/contracts')
q, pat = sys.argv[1], sys.argv[2]
var = int(sys.argv[3]) if len(sys.argv)>3 else None
rep=verify.verify_function(repo,reg,q,only_variant=var)
n=0
for ob in rep.obligations:
    if pat in ob.name:
        s=z3.Solver()
        for f in ob.formula(): s.add(f)
        open(f'/tmp/vc_{n}.smt2','w').write("(set-logic ALL)\n"+s.to_smt2())
        print(n, ob.name, len(ob.hyps)); n+=1
for ob in verify.lemma_obligations(repo,reg,q):
    if pat in ob.name and (var is None or f"[v{var}]" in ob.name):
        s=z3.Solver()
        for f in ob.formula(): s.add(f)
        open(f'/tmp/vc_{n}.smt2','w').write("(set-logic ALL)\n"+s.to_smt2())
        print(n, ob.name, len(ob.hyps)); n+=1
