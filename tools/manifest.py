#!/usr/bin/env python3
"""Regenerates MANIFEST.json from the per-property table below (kept valid at all times)."""
import json, os
HERE = os.path.dirname(os.path.dirname(os.path.abspath(__file__)))
props = [json.loads(l)["id"] for l in open(os.path.join(HERE, "properties.jsonl"))]

NOTE_COMMON = ("Trusted: the VC generator (/verif/pyvc), the side-car contracts as the formal reading of the property, z3/cvc5 "
               "unsat answers, the assumed library contracts listed in the evidence; int=Z, float=R idealisation.")

CLAIMED = {
    "C16": dict(
        text="Every path of chao1, var_chao1, chao2, var_chao2, jaccard_index, overlap, overlap_coefficient is executed symbolically "
             "from the real source (count vectors of any length as list or ndarray; collections as list/set/Series abstracted to "
             "element sets with missing values) and each closed form / NaN case / no-exception clause of the property is a "
             "post-condition discharged by z3 for all inputs.",
        note=NOTE_COMMON + " pandas Series(set) raising TypeError and dropna semantics are assumed contracts.",
        technique="contract-based deductive verification: VCs generated from the real AST, discharged by z3 (nlsat)",
        design="5/C16"),
    "C18": dict(
        text="isvalidaa / isvalidcdr3 are verified total over the tagged union of Python objects (bool result, exact characterisation for strings, False "
             "for missing values and numbers). standardize_dataframe is verified for all row counts over three enumerated column layouts x col_mapper "
             "x all option values: a new table, same rows and index, columns kept in order and renamed by col_mapper, every cell of the nine standard "
             "columns equal to the documented tidytcells standardiser applied to that cell alone with the documented options (missing stays "
             "missing; standardize=False: equal to the renamed input), other columns untouched, ValueError exactly when df / df_old are both or "
             "neither given; the caller's table is never written (frame obligation). multimerge is verified, for 2-4 tables, to apply pandas.merge "
             "left to right on the index or the named column with how= outer by default or as passed, and with per-table suffixes to key-indexed, "
             "suffixed tables.",
        note=NOTE_COMMON + " tidytcells standardisers and pandas.merge / set_index / add_suffix are uninterpreted deterministic functions (pandas.merge "
             "bound against its real signature, so a mis-bound argument is a TypeError): what they return is not decided.",
        technique="contract-based deductive verification: VCs from the real AST over a column-wise table model, z3 + cvc5",
        design="5/C18"),
    "C09": dict(
        text="TcrLevenshtein.calc_cdist_matrix is verified, for all six metric classes x table layouts x all positive weights and any number of rows, "
             "to return the (len(anchors), len(comparisons)) array whose cell [i, j] is the sum over the chains and loops in the class's scope of chain "
             "weight x loop weight x scorer(loop of anchor i, loop of comparison j), CDR3 from the table and CDR1 / CDR2 from the row's V allele ('' when "
             "the allele has none), ValueError exactly for inputs that are not TCR tables, caller's tables untouched (frame); calc_pdist_vector = the "
             "SciPy-condensed upper triangle of the self cdist; the constructors (base class and the five subclasses defining one) store the scorer = "
             "weighted Levenshtein with the given (insertion, deletion, substitution) weights and the chain / loop weights as given (others 1).",
        note=NOTE_COMMON + " rapidfuzz and tidytcells' reference data are assumed / uninterpreted; Enum members, class attributes, properties and super() "
             "are interpreted by the generator; the column-wise table model is positional (no index labels).",
        technique="contract-based deductive verification: VCs from the real AST (class hierarchy, cell-wise matrices over a column-wise table model), z3 + cvc5",
        design="5/C09"),
    "C12": dict(
        text="levenshtein_neighbors / hamming_neighbors: every yield is a one-edit / one-substitution variant (index form), every such variant over the "
             "alphabet is yielded (run-start witnesses, proved by induction lemmas) and none twice, for all strings and alphabets of distinct letters. "
             "Utilities, for an arbitrary neighbourhood callable abstracted to the set it yields: next_nearest_neighbors = everything reachable in "
             "1..maxdistance steps except x (maxdistance 1, 2, 3); isdist1 true iff some yielded neighbour is a reference; calculate_neighbor_numbers[k] "
             "= number of distinct yielded neighbours among the references (default: the given sequences); find_neighbor_pairs_index = exactly the "
             "(i, first position of a yielded neighbour) pairs, each once; _isdist2_hamming (and, thorough tier, _isdist3_hamming) true iff a variant "
             "with two (three) substitutions at increasing positions by other amino-acid letters is a reference; nndist_hamming = 0 for a reference, "
             "else the smallest such k <= 3 cut off at maxdist, 4 if none, NotImplementedError iff maxdist > 4.",
        note=NOTE_COMMON + " find_neighbor_pairs: loop invariant over an ordered model of sorted(<set of str>) - for a symmetric, irreflexive "
             "neighbourhood every unordered neighbour pair of distinct given sequences is listed exactly once; _isdist3_hamming is discharged "
             "in the thorough tier only (bounded stand-in in the quick tier). Index form <-> true Hamming / Levenshtein distance: Lean lemmas (hand-transcribed statements).",
        technique="contract-based deductive verification: VCs from the real AST (search-loop rule with nested witnesses, induction lemmas), cvc5 + z3, Lean lemmas",
        design="5/C12"),
    "C13": dict(
        text="pc_conditional is verified to return NaN when fewer than two rows remain in groups of at least two members and otherwise the "
             "w^2-weighted mean (uniform weights by default, given weights squared and normalised) of pc (pc_joint for a column list) over exactly "
             "those groups; pcDelta_grouped to return, per group, that group's own pcDelta with the caller's options, labelled by the left bin edges "
             "only for an edge vector; renyi2_entropy = -ln(pc | pc_joint | pc_conditional)/ln(base) (no division for base None), stdrenyi2_entropy = "
             "stdpc/(pc ln base) (joint forms for a column list), ValueError exactly for base <= 0 - for all tables, keys, weights and bases.",
        note=NOTE_COMMON + " TERM LEVEL over opaque tables (pandas groupby/filter/apply assumed; the per-group statistics are uninterpreted applications of "
             "pc / pcDelta / stdpc whose own contracts are discharged under C02 / C05 / C06). pc_grouped_cross and pcDelta_grouped_cross are covered by "
             "BOUNDED stand-ins only.",
        technique="contract-based deductive verification: VCs from the real AST over opaque table terms and the polynomial vector abstraction, z3 + cvc5; bounded stand-ins for the two cross tables",
        design="5/C13"),
    "C19": dict(
        text="PARTIAL (seven of the nine functions named by the property; similarity_clustermap / ClusterGridSplit and seqlogos_vj are not covered). seqs_to_consensus (align=False, equal-length gap-free sequences): loop invariant + post - one residue per position, each a "
             "most frequent residue of its column of logomaker's count matrix. seqs_to_regex (same domain): loop invariant against a recursive "
             "spec function - the result is, position by position, the single observed residue or the bracketed sorted set of observed residues. "
             "rankfrequency: exactly one Axes.step call whose x data are the non-missing values (frequencies when normalised) in descending order "
             "times scalex and whose y data are the 0-based ranks times scaley (divided by the count when normalize_y), log scales set only when "
             "asked, on the given or the current Axes. labels_to_colors_hls (any label list, min_count None or an integer): one colour per label, equal "
             "labels equal colours, black exactly for the labels occurring fewer than min_count times, distinct non-rare labels distinct colours "
             "(numpy.unique / mask / in-place shuffle / dict(zip) modelled with permutation and position witnesses); labels_to_colors_tableau: the same "
             "without the distinctness clause (tab20 colours are cycled). density_scatter in discrete mode "
             "(term level): one scatter call whose x / y data are the coordinates of the distinct (x, y) rows, each once, coloured by its multiplicity, "
             "densest last when sort is set. seqlogos (equal-length sequences): returns the axes drawn on and logomaker's count matrix of exactly the "
             "given sequences, which is the matrix handed to logomaker.Logo. The other functions named by the "
             "property are NOT under contract (see not_decided).",
        note=NOTE_COMMON + " logomaker's count matrix and matplotlib's drawing calls are assumed / recorded effects; regex semantics not mechanised.",
        technique="contract-based deductive verification: loop invariants over a recursive string spec (cvc5/z3), term-level effect contracts for the plot",
        design="5/C19"),
    "C15": dict(
        text="graph_clustering ('cc', 'fastgreedy', 'multilevel', 'leiden'; the method name reaches igraph through eval of an f-string, which the "
             "generator evaluates on each path) is verified, for every neighbour list including the EMPTY one and list / ndarray / Series node labels, "
             "to return the caller's node labels with igraph's membership of the graph on vertices 0..len(nodes)-1 with one edge per neighbour triplet "
             "(simplified first for the community methods), restricted to labels occurring more than once; no exception. hierarchical_clustering is "
             "verified to return SciPy's linkage of the given (or default, chosen as in pcDelta) metric's condensed pairwise distances of the "
             "(tuple-converted) input with the caller's or default options, and SciPy's fcluster of that linkage; default option dicts are not modified.",
        note=NOTE_COMMON + " TERM LEVEL: igraph, SciPy hierarchy and the pandas selection operations are opaque deterministic functions; the graph-theoretic "
             "meaning of membership (path-connectedness), 'communities never span components' and 'single linkage = threshold components' are assumed "
             "library contracts, not decided.",
        technique="contract-based deductive verification: VCs from the real AST over opaque library terms (operation/argument/order identity), z3 + cvc5",
        design="5/C15"),
    "C17": dict(
        text="subsample (numpy repeat/concatenate unpacking, choice without replacement, unique with counts: sorted unique category indices, positive "
             "counts summing to n, each at most the original count - via the Lean counting lemma L-inj-count -, ValueError exactly when n exceeds the "
             "total), downsample (identity when short enough or unbounded, otherwise exactly maxseqs elements at pairwise distinct positions / rows), "
             "powerlaw_sample (requested length, every value integer-valued and >= xmin for integer xmin >= 1 and alpha > 1), _discrete_loglikelihood "
             "(= -n ln zeta(alpha,xmin) - alpha sum ln x over the counts >= xmin) and powerlaw_mle_alpha (closed forms 'simple' and "
             "'continuitycorrection' over the counts >= cmin; 'exact' hands minus that log-likelihood with the documented default bounds to the "
             "bounded optimiser, whose assumed contract gives a maximiser within the bounds; ValueError exactly for an unknown method) are verified "
             "path by path for all count vectors, sizes and parameters.",
        note=NOTE_COMMON + " ln, zeta and real powers are uninterpreted functions with the stated monotonicity facts; sums of point-wise defined "
             "vectors are uninterpreted functions of the defining expression. NOT decided: uniformity of the random draws (assumed of numpy), global "
             "optimality of scipy's bounded search (assumed; objective convex).",
        technique="contract-based deductive verification: VCs from the real AST (assumed numpy/scipy contracts, Lean counting lemma), z3 + cvc5",
        design="5/C17"),
    "C02": dict(
        text="pc_n, pc (sequences, 1-3 column tables, legacy tuple form; one- and two-sample), pc_joint (1-4 columns, any column "
             "subset, both gap tokens), ensure_numpy and convert_tuple_to_dataframe_if_necessary are verified path by path against "
             "post-conditions stating result = (#ordered coinciding pairs)/(N(N-1)) resp. (#coinciding cross pairs)/(N1 N2), range "
             "[0,1], row serialisation injective when no cell contains the join character, and pc_n(multiplicities) = pc; for all "
             "row counts and cell contents. Counting facts (L-count, L-coinc-cong) and join injectivity (L-join) are imported lemmas.",
        note=NOTE_COMMON + " numpy.unique / intersect1d / pandas fillna, apply(axis=1) are assumed contracts; the number of table "
             "columns is enumerated 1..4 (the property's own range), everything else is symbolic.",
        technique="contract-based deductive verification: VCs from the real AST (polynomial vector abstraction, counting lemmas), z3 + cvc5",
        design="5/C02"),
    "C06": dict(
        text="varpc_n is proved equal, for all count vectors with N >= 4, to the U-statistic variance estimator (A p3 + B p2 - C p2^2)/(1-C); "
             "stdpc_n / stdpc to its square root on the multiplicities; and the contracts' closed forms are proved to have expectations "
             "sum p^2, sum p q and Var(pc) as rational identities in (N, s2, s3) for every N and every distribution at once.",
        note=NOTE_COMMON + " The multinomial factorial-moment identity and linearity of expectation are ASSUMED axioms about the sampling "
             "model (bounded exact validation N<=6..8, K=3 reported as a bounded stand-in).",
        technique="contract-based deductive verification + algebraic lemmas over the contracts' return expressions (z3 nlsat)",
        design="5/C06"),
    "C01": dict(
        text="_comb_gen (loop invariant tying the slice loop to the recursive spec function delvar; result = exactly the subsequences at most "
             "max_edits shorter, via the Lean lemma L-comb), SymdelDB.__init__ (nested invariants: the index maps each deletion variant to the "
             "strictly increasing list of exactly its positions), symdel (one collection: every reported triplet is an ordered pair of distinct "
             "positions with exact Levenshtein distance <= max_edits, every such pair is reported - witness from L-symdel - and once) and "
             "nearest_neighbor (delegation with argument binding) are verified for all strings, all list sizes, all max_edits, and list / "
             "ndarray / Series containers.",
        note=NOTE_COMMON + " rapidfuzz Levenshtein.distance = lev and itertools.combinations are assumed contracts; L-symdel, L-comb, "
             "L-lev0/L-sym are Lean-proved lemmas imported as axioms (statement transcription SMT<->Lean is by hand, see DESIGN).",
        technique="contract-based deductive verification: loop invariants + comprehension sites + imported Lean lemmas, cvc5/z3",
        design="5/C01"),
    "C03": dict(
        text="SymdelDB.__init__/lookup, symdel with a second collection (also when the very same object is passed twice), LookupDB.__init__/lookup, "
             "_generate_neighbors (round invariant: after round d the keys are exactly the strings within distance d, from the Lean lemmas "
             "L-step A/B) and the generators behind them are verified: the result is exactly {(q, r, d): d = dist(query[q], reference[r]) <= "
             "max_edits}, each pair once, q == r included; lookups have an empty frame (any mutation of self or module state is a failed "
             "frame obligation), so every lookup history answers like a fresh database.",
        note=NOTE_COMMON + " LookupDB (hash) results are for strings over the 20 amino-acid letters (the engine's own alphabet).",
        technique="contract-based deductive verification: invariants, comprehension sites with witness hints, frame obligations, Lean lemmas",
        design="5/C03"),
    "C04": dict(
        text="hash_based (through LookupDB) and kdtree (_histogram_encode loop invariant against the recursive bin-count function, KD-tree "
             "ball query, _to_triplets, _cal_levenshtein, _kdtree_leven) are each proved to return exactly the triplet set of the default "
             "search's specification (same spec bag as symdel), for all amino-acid sequence lists, all max_edits, every container kind; the "
             "pre-filter loses nothing by the Lean lemma L-enc (squared histogram distance <= 2 lev^2).",
        note=NOTE_COMMON + " KDTree.query_ball_point, rapidfuzz extract and Pool.map are assumed contracts; floats as reals (the radius "
             "sqrt(2)*k is exact); max_returns is None in the verified domain.",
        technique="contract-based deductive verification: VCs from the real AST + Lean lemma L-enc, cvc5/z3",
        design="5/C04"),
    "C07": dict(
        text="With custom_distance='hamming' symdel, SymdelDB.lookup, LookupDB.lookup / hash_based and kdtree (length buckets: _to_len_bucket "
             "invariant, positions mapped back) are proved to report exactly the pairs of equal length with at most max_edits mismatches, d = "
             "number of mismatches, in positions of the original input; unequal lengths give infinity in _hamming_replacement and are never reported.",
        note=NOTE_COMMON + " rapidfuzz Hamming.distance is assumed only for equal lengths (equal length is a call pre-condition the engine "
             "discharges at every call site).",
        technique="contract-based deductive verification + Lean lemmas L-hamdel, L-hstep, lev_le_ham", design="5/C07"),
    "C10": dict(
        text="_make_output (matrix cells: M[r,q] = d for every triplet, 0 elsewhere, shape, no entry accumulated twice as a call pre-condition "
             "proved at every caller), _check_common_input (every invalid argument class rejected with AssertionError, valid ones accepted: all "
             "1296 type combinations), ensure_numpy, and the engines' contracts for list / tuple / ndarray / Series-with-arbitrary-integer-labels "
             "containers (positions are ordinal positions) are verified.",
        note=NOTE_COMMON + " scipy coo_matrix / pandas label-vs-position semantics are assumed contracts; string index labels are covered "
             "by the falsifier scope only.",
        technique="contract-based deductive verification (type-variant enumeration x symbolic values)", design="5/C10"),
    "C11": dict(
        text="_to_triplets is proved to return the concatenation of the per-query results in both the serial and the Pool branch (Pool.map "
             "pre-condition chunksize >= 1 is an obligation; the write of _cal_params must precede Pool creation), kdtree's result is "
             "independent of n_cpu and of compression >= 1 because its post-condition is the fixed specification set.",
        note=NOTE_COMMON + " NOT decided: process schedules (reduced to the assumed Pool.map contract) and the max_returns clause "
             "(rapidfuzz extract(limit=...) / sorted()[:limit] are not modelled; max_returns is None in the verified domain).",
        technique="contract-based deductive verification with assumed multiprocessing contract", design="5/C11"),
    "C14": dict(
        text="For a callable custom distance every engine (symdel, SymdelDB.lookup, LookupDB.lookup / hash_based, _cal_custom_dist / kdtree) "
             "is proved to report a pair exactly when lev <= max_edits and custom <= max_custom_distance, valued by the custom distance (the "
             "callable is an uninterpreted symmetric function, so membership depends on the two distances only).",
        note=NOTE_COMMON + " NOT decided here: nearest_neighbor_tcrdist (pwseqdist is absent from the sandbox; see not_decided in the evidence).",
        technique="contract-based deductive verification with uninterpreted distance functions", design="5/C14"),
    "C08": dict(
        text="distance.pdist (nested loops with invariant k = condensed index and every earlier entry filled) and distance.cdist (every cell) "
             "are proved to follow the SciPy layout for any metric callable and to forward extra keyword arguments to every call; "
             "WeightedLevenshtein.__init__ is proved to build the scorer with weights in rapidfuzz's (insertion, deletion, substitution) order, "
             "calc_cdist_matrix to return M[i,j] = scorer(A[i] -> B[j]) by position with no narrowing dtype, calc_pdist_vector the condensed "
             "upper triangle at index m*i + j - (i+2)(i+1)/2; Levenshtein delegates with unit weights.",
        note=NOTE_COMMON + " That rapidfuzz computes the minimum-weight edit script (and its default dtype is wide enough) is an assumed "
             "contract of a C++ extension, as is scipy squareform.",
        technique="contract-based deductive verification: loop invariants (non-linear integer arithmetic) + assumed library contracts", design="5/C08"),
    "C05": dict(
        text="pcDelta is verified in all mode combinations (self / cross, given or default metric, given / default / zero bins, normalize, "
             "pseudocount, maxseqs; list, table and legacy tuple inputs): bins=0 returns pc of the same arguments before any down-sampling; "
             "otherwise the result is, as a term over the assumed library operations, exactly histogram(metric.calc_pdist_vector(s)) for one "
             "collection (condensed vector: one entry per unordered pair, by C08) or histogram(metric.calc_cdist_matrix(s, s2)) for two, h, "
             "h/sum(h) or (h+c)/(sum(h)+2c); s is the input or a sub-sample of exactly maxseqs elements at distinct positions (downsample); "
             "the default metric is chosen by the columns present; load_pcDelta_background's bins are checked on the shipped CSV (0..rows).",
        note=NOTE_COMMON + " numpy.histogram (bin convention), pandas sample / numpy choice (uniformity), Metric methods of arbitrary metric "
             "objects are assumed / opaque; which sub-sample is drawn is random and not decided.",
        technique="contract-based deductive verification: term-level post-conditions over assumed library contracts + ground check of shipped data",
        design="5/C05"),
    "C20": dict(
        text="Every function of the package (117) gets a frame obligation from an origin analysis of the real AST: each in-place store, "
             "augmented assignment, mutating method call, inplace=True or mutating library call must target an object created by the call "
             "(not a parameter, a default-argument object or module state); the one module-level write (nn._cal_params) is shown benign "
             "(written at the top of _to_triplets before any reader can run or a worker pool is created); no source of nondeterminism other "
             "than numpy's generator is imported. Functions under contract additionally carry ownership-based frame obligations in the VC generator.",
        note=NOTE_COMMON + " The fresh / aliasing / mutating classification of library calls is an assumed table (pyvc/frame.py); the step from "
             "'every frame is empty' to 'results do not depend on call history' is a stated meta-lemma, not mechanised; list ORDER across "
             "interpreters (hash randomisation) is not decided.",
        technique="contract-based frame conditions: origin / may-alias analysis over the real AST (no solver) + frame replays",
        design="5/C20"),
}
NOT_BUILT = "machinery for this property not built yet (build in progress; see DESIGN.md section 8)"

m = {
    "version": 1,
    "setup_cmd": "bin/setup",
    "hooks": {"guard": "PYREPSEQ_VERIF",
              "enable": "no source hooks: contracts are side-car files under /verif/contracts keyed by qualified function name; "
                        "/repo is only read (ast.parse) on every run, never instrumented",
              "baseline_off_cmd": "cd /repo && /venv/bin/python -m pytest -ra -q -p no:cacheprovider --timeout=900 --continue-on-collection-errors",
              "source_commits": [], "add_only": True},
    "engines": [{"name": "pyvc", "path": "pyvc/", "serves_properties": sorted(CLAIMED),
                 "kind_free_text": "symbolic executor / VC generator over the real Python AST + z3/cvc5 + Lean lemmas + replay harness"}],
    "checks": [],
    "notes": "See DESIGN.md. Fix commits in /repo are listed in known_findings.jsonl (status fixed).",
    "not_applicable": [],
}
for p in props:
    if p in CLAIMED:
        c = CLAIMED[p]
        m["checks"].append({
            "property_id": p,
            "quick_cmd": f"bin/check {p} --tier quick",
            "thorough_cmd": f"bin/check {p} --tier thorough",
            "evidence_file": f"evidence/{p}.json",
            "replay_cmd_template": f"bin/check {p} --replay {{path}}",
            "engine": "pyvc",
            "level_claimed": {"category": "proof", "text": c["text"], "design_ref": c["design"]},
            "level_note": c["note"],
            "technique": c["technique"],
        })
    else:
        m["not_applicable"].append({"property_id": p, "reason": NOT_BUILT})
json.dump(m, open(os.path.join(HERE, "MANIFEST.json"), "w"), indent=1)
print("claimed:", sorted(CLAIMED))
