#!/usr/bin/env python3
"""Regenerates MANIFEST.json from the per-property table below (kept valid at all times)."""
import json, os
HERE = os.path.dirname(os.path.dirname(os.path.abspath(__file__)))
props = [json.loads(l)["id"] for l in open(os.path.join(HERE, "properties.jsonl"))]

NOTE_COMMON = ("Trusted: the VC generator (/verif/pyvc), the side-car contracts as the formal reading of the property, z3/cvc5 "
               "unsat answers, the assumed library contracts listed in the evidence; int=Z, float=R idealisation.")

CLAIMED = {
    "C16": dict(
        text="Every path of chao1, var_chao1, chao2, var_chao2, jaccard_index, overlap, overlap_coefficient is executed symbolically "
             "from the real source (count vectors of any length as list or ndarray; collections as list/set/Series abstracted to "
             "element sets with missing values) and each closed form / NaN case / no-exception clause of the property is a "
             "post-condition discharged by z3 for all inputs.",
        note=NOTE_COMMON + " pandas Series(set) raising TypeError and dropna semantics are assumed contracts.",
        technique="contract-based deductive verification: VCs generated from the real AST, discharged by z3 (nlsat)",
        design="5/C16"),
}
NOT_BUILT = "machinery for this property not built yet (build in progress; see DESIGN.md section 8)"

m = {
    "version": 1,
    "setup_cmd": "bin/setup",
    "hooks": {"guard": "PYREPSEQ_VERIF",
              "enable": "no source hooks: contracts are side-car files under /verif/contracts keyed by qualified function name; "
                        "/repo is only read (ast.parse) on every run, never instrumented",
              "baseline_off_cmd": "cd /repo && /venv/bin/python -m pytest -ra -q -p no:cacheprovider --timeout=900 --continue-on-collection-errors",
              "source_commits": [], "add_only": True},
    "engines": [{"name": "pyvc", "path": "pyvc/", "serves_properties": sorted(CLAIMED),
                 "kind_free_text": "symbolic executor / VC generator over the real Python AST + z3/cvc5 + Lean lemmas + replay harness"}],
    "checks": [],
    "notes": "See DESIGN.md. Fix commits in /repo are listed in known_findings.jsonl (status fixed).",
    "not_applicable": [],
}
for p in props:
    if p in CLAIMED:
        c = CLAIMED[p]
        m["checks"].append({
            "property_id": p,
            "quick_cmd": f"bin/check {p} --tier quick",
            "thorough_cmd": f"bin/check {p} --tier thorough",
            "evidence_file": f"evidence/{p}.json",
            "replay_cmd_template": f"bin/check {p} --replay {{path}}",
            "engine": "pyvc",
            "level_claimed": {"category": "proof", "text": c["text"], "design_ref": c["design"]},
            "level_note": c["note"],
            "technique": c["technique"],
        })
    else:
        m["not_applicable"].append({"property_id": p, "reason": NOT_BUILT})
json.dump(m, open(os.path.join(HERE, "MANIFEST.json"), "w"), indent=1)
print("claimed:", sorted(CLAIMED))
