"""Replay / falsifier harness.  Runs under /venv/bin/python with the REAL pyrepseq taken from
$PYREPSEQ_REPO (default /repo).  It parses the same side-car contract files as the engine and
evaluates their clauses concretely (replay/specref.py) on the outcome of the real function.

  harness.py case     <json>    one input (a decoded solver model, or a stored replay)
  harness.py falsify  <json>    bounded search of the function's scope for a failing input
                                (only ever used to turn a failed obligation into a replayable input)
"""
import ast
import importlib
import json
import math
import os
import sys
import traceback
import warnings
from fractions import Fraction

HERE = os.path.dirname(os.path.abspath(__file__))
VERIF = os.path.dirname(HERE)
REPO = os.environ.get("PYREPSEQ_REPO", "/repo")
sys.path.insert(0, REPO)
sys.path.insert(0, VERIF)
warnings.filterwarnings("ignore")

from replay import specref  # noqa: E402


# ----------------------------------------------------------------------------- contracts (concrete reading)

class CContract:
    def __init__(self, qualname, fnode, path):
        self.qualname, self.fnode, self.path = qualname, fnode, path
        self.params = [a.arg for a in fnode.args.posonlyargs + fnode.args.args + fnode.args.kwonlyargs]
        self.requires, self.ensures, self.raises = [], [], []
        self.raises_none = False
        self.returns = None
        self.returns_checked = True
        self.may_modify = set()
        n_e = 0
        for st in fnode.body:
            if not (isinstance(st, ast.Expr) and isinstance(st.value, ast.Call)):
                continue
            call = st.value
            fn = call.func.id
            kw = {k.arg: k.value for k in call.keywords}
            name = ast.literal_eval(kw["name"]) if "name" in kw else None
            if fn == "requires":
                self.requires.append((name or f"pre#{len(self.requires)+1}", call.args[0]))
            elif fn == "ensures":
                n_e += 1
                self.ensures.append((name or f"post#{n_e}", call.args[0]))
            elif fn == "returns":
                n_e += 1
                self.returns = (name or "returns", call.args[0])
                self.returns_checked = "assume_only" not in kw
            elif fn == "modifies":
                self.may_modify |= {ast.literal_eval(a) for a in call.args}
            elif fn == "raises":
                a0 = call.args[0]
                if isinstance(a0, ast.Constant) and a0.value is None:
                    self.raises_none = True
                else:
                    self.raises.append((ast.literal_eval(a0), kw.get("when")))
                    if "may" in kw:
                        self.may_raise = getattr(self, "may_raise", set()) | {ast.literal_eval(a0)}


_CONTRACTS = None


def contracts():
    global _CONTRACTS
    if _CONTRACTS is None:
        _CONTRACTS = {}
        d = os.path.join(VERIF, "contracts")
        for fn in sorted(os.listdir(d)):
            if not fn.endswith(".py") or fn.startswith("_"):
                continue
            path = os.path.join(d, fn)
            tree = ast.parse(open(path).read(), filename=path)
            for node in tree.body:
                if isinstance(node, ast.FunctionDef):
                    for dec in node.decorator_list:
                        if isinstance(dec, ast.Call) and getattr(dec.func, "id", "") == "contract":
                            q = ast.literal_eval(dec.args[0])
                            _CONTRACTS[q] = CContract(q, node, path)
    return _CONTRACTS


def namespace():
    import numpy as np
    import pandas as pd
    ns = {k: v for k, v in vars(specref).items() if not k.startswith("_")}
    ns.update(np=np, pd=pd)
    try:
        import igraph
        import scipy.cluster.hierarchy as hc
        ns.update(igraph=igraph, hc=hc, os=os)
    except ImportError:
        pass
    # the repository's own functions may be named in term-level clauses (pc(g[on]), pcDelta(...)): the real ones are meant
    try:
        import pyrepseq.stats as _st, pyrepseq.distance as _di, pyrepseq.entropy as _en
        for _m in (_st, _di, _en):
            for _k, _v in vars(_m).items():
                if callable(_v) and not _k.startswith("_") and getattr(_v, "__module__", "").startswith("pyrepseq") and _k not in ns:
                    ns[_k] = _v
        ns.setdefault("stdpc_joint", _st.stdpc_joint)
    except ImportError:
        pass
    from replay import scopes
    ns.update(getattr(scopes, "SPEC_EXTRA", {}))

    def post(q, *args, **kw):
        c = contracts()[q]
        n2 = namespace()
        n2.update(dict(zip(c.params, args)))
        n2.update(kw)
        return ev(c.returns[1], n2)
    ns["post"] = post
    for name, fn in predicates(ns).items():
        if name in vars(specref) and callable(vars(specref)[name]):
            continue          # an explicit executable twin in replay/specref.py (same meaning, efficient enumeration) takes precedence
        ns[name] = fn
    return ns


_PRED_SRC = None


def predicates(ns):
    global _PRED_SRC
    if _PRED_SRC is None:
        _PRED_SRC = []
        d = os.path.join(VERIF, "contracts")
        for fn in sorted(os.listdir(d)):
            if not fn.endswith(".py") or fn.startswith("_"):
                continue
            tree = ast.parse(open(os.path.join(d, fn)).read())
            for node in tree.body:
                if isinstance(node, ast.FunctionDef) and any(isinstance(x, ast.Name) and x.id == "predicate" for x in node.decorator_list):
                    node.decorator_list = []
                    node = _LazyImplies().visit(node)
                    _PRED_SRC.append(ast.Module(body=[node], type_ignores=[]))
    out = {}
    for mod in _PRED_SRC:
        ast.fix_missing_locations(mod)
        exec(compile(mod, "<predicate>", "exec"), ns, out)
    twin = lambda k: k in vars(specref) and callable(vars(specref)[k])
    keep = {k: v for k, v in out.items() if not twin(k)}
    for f in out.values():
        f.__globals__.update(keep)
    return out


class _LazyImplies(ast.NodeTransformer):
    """implies(a, b) -> ((not a) or b): Python evaluates call arguments eagerly, the logical reading does not"""

    def visit_Call(self, node):
        self.generic_visit(node)
        if isinstance(node.func, ast.Name) and node.func.id == "implies" and len(node.args) == 2:
            return ast.BoolOp(op=ast.Or(), values=[ast.UnaryOp(op=ast.Not(), operand=node.args[0]), node.args[1]])
        return node


def ev(expr, ns):
    import copy
    e = ast.fix_missing_locations(_LazyImplies().visit(copy.deepcopy(expr)))
    return eval(compile(ast.Expression(e), "<contract>", "eval"), ns)


# ----------------------------------------------------------------------------- values from recipes

def build(rec):
    import numpy as np
    import pandas as pd
    t = rec["t"]
    if t == "int":
        return int(rec["v"])
    if t == "frac":
        return rec["n"] / rec["d"]
    if t == "float":
        return float(rec["v"])
    if t == "bool":
        return bool(rec["v"])
    if t == "str":
        return np.str_(rec["v"]) if rec.get("np") else rec["v"]
    if t == "none":
        return None
    if t == "inf":
        return float("inf")
    if t == "nan":
        return float("nan")
    if t == "const":
        return rec["v"]
    if t == "tuple":
        return tuple(build(x) for x in rec["items"])
    if t == "seq":
        items = [build(x) for x in rec["items"]]
        k = rec["kind"]
        if k == "list":
            return items
        if k == "tuple":
            return tuple(items)
        if k == "ndarray":
            return np.array(items)
        if k == "Series":
            return pd.Series(items, index=rec.get("index"), dtype=object if items and isinstance(items[0], str) else None)
        if k == "set":
            return set(items)
    if t == "dict":
        return {k: build(v) for k, v in rec["items"].items()}
    if t == "table":
        return pd.DataFrame({k: [None if (v == "" and rec.get("none_for_empty")) else v for v in vs] for k, vs in rec["columns"].items()})
    if t == "py":
        from replay import scopes
        return eval(rec["expr"], scopes.BUILD_NS)
    raise ValueError(f"cannot build {rec}")


def resolve(qualname):
    parts = qualname.split(".")
    for cut in range(len(parts) - 1, 0, -1):
        try:
            mod = importlib.import_module(".".join(parts[:cut]))
        except ImportError:
            continue
        obj = mod
        try:
            for p in parts[cut:]:
                obj = getattr(obj, p)
        except AttributeError:
            continue
        return obj
    raise ImportError(qualname)


def run_case(qualname, recipes, caller=None):
    """Build the arguments, run the real function, evaluate the contract.  Returns a report dict."""
    c = contracts()[qualname]
    plain = {k: v for k, v in recipes.items() if v.get("t") != "alias"}
    args = {k: build(v) for k, v in plain.items()}
    # contract clauses see the very objects passed to the function (exact() only converts numbers / numeric vectors), so that
    # identity clauses (same_object) can be evaluated; the frame check below compares against deep copies taken before the call
    spec_args = {k: specref.exact(args[k]) for k in plain}
    for k, v in recipes.items():
        if v.get("t") == "alias":           # the very same object passed for two parameters
            args[k] = args[v["of"]]
            spec_args[k] = spec_args[v["of"]]
    ns = namespace()
    ns.update(spec_args)
    ns["local"] = lambda name: args.get(name)
    rep = {"qualname": qualname, "violations": [], "in_domain": True, "outcome": None}
    try:
        for name, ex in c.requires:
            if not ev(ex, ns):
                rep["in_domain"] = False
                return rep
    except Exception as e:
        rep["in_domain"] = False
        rep["note"] = f"precondition not evaluable: {type(e).__name__}: {e}"
        return rep
    from replay import scopes
    call = scopes.CALLERS.get(qualname)
    import copy
    before = {}
    for k, v in args.items():
        try:
            before[k] = copy.deepcopy(v)
        except Exception:
            pass
    mod_before = _module_state()
    try:
        if call is not None:
            result = call(args)
        else:
            fn = resolve(qualname)
            call_args = dict(args)
            try:
                import inspect
                for pn, prm in inspect.signature(fn).parameters.items():
                    if prm.kind is inspect.Parameter.VAR_KEYWORD and isinstance(call_args.get(pn), dict):
                        call_args.update(call_args.pop(pn))       # a recipe for **kwargs is spread into keywords
            except (TypeError, ValueError):
                pass
            result = fn(**call_args)
        outcome = ("return", result)
    except BaseException as e:       # noqa: the contract decides which exceptions are allowed
        if isinstance(e, (KeyboardInterrupt, SystemExit)):
            raise
        outcome = ("raise", e)
    for name, (b, obj) in mod_before.items():
        if name in c.may_modify:
            continue
        try:
            cur = _module_state_value(name)
            if cur is not obj or not _unchanged(b, cur):
                rep["violations"].append(f"frame[module state {name}] (changed by the call)")
        except Exception:
            pass
    # frame: arguments are left as they were (unless the contract says `modifies`)
    for k, b in before.items():
        if k in c.may_modify or k == "self":
            continue
        if not _unchanged(b, args[k]):
            rep["violations"].append(f"frame[{k}] (argument modified by the call)")
    if outcome[0] == "raise":
        e = outcome[1]
        rep["outcome"] = f"raise {type(e).__name__}: {str(e)[:200]}"
        allowed = [(en, when) for en, when in c.raises if _exc_is(e, en)]
        if not allowed:
            rep["violations"].append(f"no-raise[{type(e).__name__}]")
        else:
            ok = False
            for en, when in allowed:
                if when is None or ev(when, ns):
                    ok = True
            if not ok:
                rep["violations"].append(f"raises[{type(e).__name__}]/when")
        return rep
    result = outcome[1]
    import types as _types
    if isinstance(result, _types.GeneratorType):
        try:
            result = list(result)
        except BaseException as e:
            rep["outcome"] = f"raise {type(e).__name__} while iterating the generator: {str(e)[:200]}"
            rep["violations"].append(f"no-raise[{type(e).__name__}]")
            return rep
    rep["outcome"] = f"return {repr(result)[:300]}"
    for en, when in c.raises:
        if when is not None and en not in getattr(c, "may_raise", ()) and ev(when, ns):
            rep["violations"].append(f"raises[{en}]/must-raise")
    ns["result"] = result
    if c.returns is not None and c.returns_checked:
        name, ex = c.returns
        try:
            exp = ev(ex, ns)
            if not _same(result, exp):
                rep["violations"].append(name)
                rep.setdefault("expected", {})[name] = repr(exp)[:300]
        except Exception as e:
            rep.setdefault("harness_errors", []).append(f"{name}: contract evaluation raised {type(e).__name__}: {e}")
    for name, ex in c.ensures:
        try:
            if not ev(ex, ns):
                rep["violations"].append(name)
        except Exception as e:
            # a clause the harness cannot evaluate is a harness limitation, never a violation
            rep.setdefault("harness_errors", []).append(f"{name}: contract evaluation raised {type(e).__name__}: {e}")
    return rep


_STATE_MODULES = ["pyrepseq.nn", "pyrepseq.distance", "pyrepseq.stats", "pyrepseq.io", "pyrepseq.util", "pyrepseq.entropy",
                  "pyrepseq.clustering", "pyrepseq.metric.levenshtein", "pyrepseq.metric.tcr_metric.tcr_levenshtein"]


def _module_state():
    """snapshot of the mutable module-level objects (dict / list / set) of the package and of default-argument objects"""
    import copy
    out = {}
    for mn in _STATE_MODULES:
        try:
            m = importlib.import_module(mn)
        except Exception:
            continue
        for k, v in vars(m).items():
            if isinstance(v, (dict, list, set)) and not k.startswith("__"):
                try:
                    out[f"{mn.split('.')[-1]}.{k}"] = (copy.deepcopy(v), v)
                except Exception:
                    pass
    return out


def _module_state_value(name):
    mod, k = name.split(".", 1)
    for mn in _STATE_MODULES:
        if mn.split(".")[-1] == mod:
            return getattr(importlib.import_module(mn), k)
    raise KeyError(name)


def _unchanged(a, b):
    import numpy as np
    import pandas as pd
    try:
        if isinstance(a, pd.DataFrame) or isinstance(a, pd.Series):
            return a.equals(b)
        if isinstance(a, np.ndarray):
            return a.shape == b.shape and bool(((a == b) | ((a != a) & (b != b))).all()) if a.dtype.kind == "f" else (a.shape == b.shape and bool((a == b).all()))
        if isinstance(a, (list, tuple, dict, set, str, int, float, type(None))):
            return _deep_eq(a, b)
    except Exception:
        return True
    return True


def _deep_eq(a, b):
    import numpy as np
    if type(a) != type(b):
        return False
    if isinstance(a, (list, tuple)):
        return len(a) == len(b) and all(_unchanged(x, y) for x, y in zip(a, b))
    if isinstance(a, dict):
        return a.keys() == b.keys() and all(_unchanged(a[k], b[k]) for k in a)
    if isinstance(a, float) and a != a:
        return b != b
    return a == b


def _exc_is(e, name):
    return any(k.__name__ == name for k in type(e).__mro__)


def _same(a, b):
    import numpy as np
    if isinstance(a, (float, np.floating)) or isinstance(b, (float, Fraction, np.floating)):
        return specref.close(a, b)
    import pandas as pd
    try:
        if isinstance(a, pd.DataFrame) or isinstance(b, pd.DataFrame):
            return isinstance(a, pd.DataFrame) and isinstance(b, pd.DataFrame) and a.shape == b.shape and \
                list(a.columns) == list(b.columns) and bool((a.values == b.values).all())
        if isinstance(a, np.ndarray) or isinstance(b, np.ndarray):
            return type(a) is type(b) and a.shape == b.shape and bool((a == b).all())
        r = a == b
        if isinstance(r, (np.ndarray, pd.Series)):
            return bool(r.all())
        return bool(r)
    except Exception:
        return False


# ----------------------------------------------------------------------------- commands

def cmd_case(req):
    return run_case(req["qualname"], req["args"])


def cmd_falsify(req):
    from replay import scopes
    import random
    q = req["qualname"]
    gen = scopes.SCOPES.get(req.get("scope") or q)
    if gen is None:
        return {"found": False, "tried": 0, "note": f"no falsifier scope for {q}"}
    rng = random.Random(req.get("seed", 0))
    budget = req.get("budget", 2000)
    want = req.get("clause")
    tried = 0
    fallback = None
    herr = []
    for recipes in gen(rng):
        tried += 1
        if tried > budget:
            break
        rep = run_case(q, recipes)
        if rep.get("harness_errors"):
            herr.extend(rep["harness_errors"][:1])
        if not rep["in_domain"]:
            continue
        if rep["violations"]:
            hit = {"found": True, "tried": tried, "args": recipes, "report": rep}
            if not want or any(want in v for v in rep["violations"]):
                return hit
            if fallback is None:
                fallback = hit
                fb_at = tried
            if tried - fb_at > 300:
                break
    if fallback is not None:
        fallback["note"] = f"input violates {fallback['report']['violations']} (no input violating exactly '{want}' found)"
        return fallback
    return {"found": False, "tried": tried, "harness_errors": (sorted(set(herr))[:5] + [f"{len(herr)} cases with evaluation errors"]) if herr else None}


def replay_main(qualname, recipes, obligation):
    """Entry point of generated replay scripts: exit 1 iff the real code violates the contract."""
    rep = run_case(qualname, recipes)
    print(json.dumps({"obligation": obligation, **rep}, default=str, indent=1))
    if rep["in_domain"] and rep["violations"]:
        print(f"REPLAY: {qualname} violates {rep['violations']} on {json.dumps(recipes)[:300]}")
        sys.exit(1)
    print("REPLAY: no violation on this input")
    sys.exit(0)


def cmd_radius(req):
    """Bounded stand-in (floating point is outside the real-arithmetic proof): evaluate the ball-radius expression of the real
    _kdtree_leven for max_edits = 1..N in IEEE doubles and check fl(r)^2 >= 2 k^2 exactly (a radius rounded down would lose the
    boundary pairs k substitutions of one letter by another)."""
    import inspect, textwrap
    import numpy as np
    from fractions import Fraction as Fr
    import pyrepseq.nn as nn
    src = textwrap.dedent(inspect.getsource(nn._kdtree_leven))
    tree = ast.parse(src)
    expr = None
    for n in ast.walk(tree):
        if isinstance(n, ast.Dict):
            for k, v in zip(n.keys, n.values):
                if isinstance(k, ast.Constant) and k.value == "r":
                    expr = v
    if expr is None:
        return {"ok": None, "note": "radius expression {'r': ...} not found in _kdtree_leven"}
    code = compile(ast.Expression(expr), "<radius>", "eval")
    bad = []
    N = int(req.get("N", 10000))
    for k in range(1, N + 1):
        r = eval(code, {"np": np, "max_edits": k, "n_cpu": 1, "math": math})
        # scipy compares squared distances in doubles: the boundary pair (k substitutions of one letter by another,
        # squared histogram distance exactly 2 k^2) is kept iff fl(r * r) >= 2 k^2
        if float(r) * float(r) < 2.0 * k * k:
            bad.append(k)
            if len(bad) >= 5:
                break
    out = {"ok": not bad, "checked": N, "expr": ast.unparse(expr), "bad": bad,
           "criterion": "fl(r*r) >= 2 k^2 in IEEE doubles (what the squared-distance comparison of the KD-tree sees)"}
    if bad:
        confirmed = None
        for k in bad:
            seqs = ["A" * k, "C" * k]
            res = nn.kdtree(seqs, max_edits=k)
            if len(res) != 2:
                confirmed = {"seqs": seqs, "max_edits": k, "kdtree": [tuple(int(x) for x in t) for t in res]}
                break
        out["witness"] = confirmed or {}
        out["witness_confirms"] = confirmed is not None
        if confirmed is None:
            out["ok"] = True
            out["note"] = f"criterion fails for max_edits in {bad} but the real kdtree still returns the boundary pairs there"
    return out


def cmd_frame(req):
    """Frame replay for a function that need not have a contract: call it on the inputs of its frame scope and compare
    snapshots of the arguments, of the function's default-argument objects and of the package's module-level state."""
    import copy
    import random
    from replay import scopes
    q = req["qualname"]
    gen = scopes.FRAME_SCOPES.get(q)
    if req.get("_only") is not None:
        gen = lambda rng: iter([req["_only"]])
    if gen is None:
        return {"found": False, "note": f"no frame scope for {q}"}
    fn = resolve(q)
    rng = random.Random(req.get("seed", 0))
    tried = 0
    for recipes in gen(rng):
        tried += 1
        if tried > req.get("budget", 20):
            break
        args = {k: build(v) for k, v in recipes.items()}
        before = {k: copy.deepcopy(v) for k, v in args.items()}
        dflt_before = copy.deepcopy(getattr(fn, "__defaults__", None))
        kwd_before = copy.deepcopy(getattr(fn, "__kwdefaults__", None))
        mod_before = _module_state()
        try:
            fn(**args)
            outcome = "returned"
        except BaseException as e:
            outcome = f"raised {type(e).__name__}: {str(e)[:120]}"
        viol = []
        for k, b in before.items():
            if not _unchanged(b, args[k]):
                viol.append(f"frame[argument {k}] modified")
        if not _deep_eq_any(dflt_before, getattr(fn, "__defaults__", None)) or not _deep_eq_any(kwd_before, getattr(fn, "__kwdefaults__", None)):
            viol.append("frame[default-argument object] modified")
        for name, (b, obj) in mod_before.items():
            try:
                cur = _module_state_value(name)
                if cur is not obj or not _unchanged(b, cur):
                    viol.append(f"frame[module state {name}] modified")
            except Exception:
                pass
        if viol:
            return {"found": True, "tried": tried, "args": recipes, "violations": viol, "outcome": outcome}
    return {"found": False, "tried": tried}


def _deep_eq_any(a, b):
    import numpy as np
    if a is None or b is None:
        return a is b
    if isinstance(a, (tuple, list)):
        return isinstance(b, (tuple, list)) and len(a) == len(b) and all(_deep_eq_any(x, y) for x, y in zip(a, b))
    if isinstance(a, dict):
        return isinstance(b, dict) and a.keys() == b.keys() and all(_deep_eq_any(a[k], b[k]) for k in a)
    if isinstance(a, np.ndarray):
        return isinstance(b, np.ndarray) and a.shape == b.shape and bool((a == b).all())
    try:
        return bool(a == b)
    except Exception:
        return True


def frame_replay_main(qualname, recipes):
    out = cmd_frame({"qualname": qualname, "budget": 1, "_only": recipes})
    print(json.dumps(out, default=str, indent=1))
    sys.exit(1 if out.get("found") else 0)


if __name__ == "__main__":
    cmd = sys.argv[1]
    req = json.load(open(sys.argv[2])) if len(sys.argv) > 2 else json.load(sys.stdin)
    try:
        out = {"case": cmd_case, "falsify": cmd_falsify, "radius": cmd_radius, "frame": cmd_frame}[cmd](req)
    except Exception:
        out = {"error": traceback.format_exc()}
    json.dump(out, sys.stdout, default=str)


