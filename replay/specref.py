"""Executable reference reading of the specification vocabulary (runs under /venv/bin/python, next
to the real pyrepseq).  Same names as pyvc/spec.py: a contract clause is evaluated here on
concrete values exactly as written in the side-car file.
"""
import itertools
import math
from fractions import Fraction
from functools import lru_cache


def implies(a, b):
    return (not a) or bool(b)


def iff(a, b):
    return bool(a) == bool(b)


def ite(c, a, b):
    return a if c else b


def _isnum(x):
    import numpy as np
    return isinstance(x, (int, float, Fraction, np.integer, np.floating)) and not isinstance(x, bool)


def isnan(x):
    try:
        return isinstance(x, float) and math.isnan(x) or (hasattr(x, "dtype") and x != x)
    except Exception:
        return False


def isinf(x):
    try:
        return float(x) in (float("inf"), float("-inf"))
    except Exception:
        return False


def is_none(x):
    return x is None


def isreal(x):
    return _isnum(x) and not isnan(x)


def close(a, b, rel=1e-9):
    """numeric equality up to floating-point rounding (contract side is exact rational)"""
    if isnan(a) or isnan(b):
        return isnan(a) and isnan(b)
    try:
        fa, fb = float(a), float(b)
    except (TypeError, ValueError):
        return a == b
    if math.isinf(fa) or math.isinf(fb):
        return fa == fb
    return abs(fa - fb) <= rel * max(1.0, abs(fa), abs(fb))


def vsum(v):
    return sum(v)


def forall_in(coll, pred):
    return all(pred(e) for e in coll)


def exists_in(coll, pred):
    return any(pred(e) for e in coll)


def no_duplicates(coll, key=None):
    seen = []
    for e in coll:
        k = key(e) if key else e
        if k in seen:
            return False
        seen.append(k)
    return True


@lru_cache(maxsize=None)
def lev(a, b):
    if not a:
        return len(b)
    if not b:
        return len(a)
    prev = list(range(len(b) + 1))
    for i, ca in enumerate(a, 1):
        cur = [i]
        for j, cb in enumerate(b, 1):
            cur.append(min(prev[j] + 1, cur[j - 1] + 1, prev[j - 1] + (ca != cb)))
        prev = cur
    return prev[-1]


def ham(a, b):
    assert len(a) == len(b)
    return sum(x != y for x, y in zip(a, b))


def exact(x):
    """ints / finite floats -> Fraction (so that contract arithmetic is exact)"""
    import numpy as np
    if isinstance(x, bool):
        return x
    if isinstance(x, (int, np.integer)):
        return Fraction(int(x))
    if isinstance(x, (float, np.floating)):
        if math.isnan(x) or math.isinf(x):
            return float(x)
        return Fraction(float(x))
    if isinstance(x, np.ndarray) and x.dtype.kind in "iuf":
        return ExactSeq([exact(v) for v in x.tolist()])
    if isinstance(x, list):
        return ExactSeq([exact(v) for v in x]) if all(_isnum(v) for v in x) else x
    if isinstance(x, tuple):
        return tuple(exact(v) for v in x)
    try:
        import pandas as _pd
        if type(x) is _pd.Series:
            return PosSeries(x)      # contract clauses address sequence elements by POSITION, whatever the index labels
    except ImportError:
        pass
    return x


class ExactSeq(list):
    """list of Fractions with numpy-like element-wise arithmetic (for contract expressions over vectors)"""

    def _bin(self, o, f):
        if isinstance(o, (list, tuple)):
            return ExactSeq([f(a, b) for a, b in zip(self, o)])
        return ExactSeq([f(a, o) for a in self])

    def __add__(self, o):
        return self._bin(o, lambda a, b: a + b)

    __radd__ = __add__

    def __sub__(self, o):
        return self._bin(o, lambda a, b: a - b)

    def __rsub__(self, o):
        return self._bin(o, lambda a, b: b - a)

    def __mul__(self, o):
        return self._bin(o, lambda a, b: a * b)

    __rmul__ = __mul__

    def __truediv__(self, o):
        return self._bin(o, lambda a, b: a / b)

    def __pow__(self, o):
        return ExactSeq([a ** o for a in self])


# ---- collections of hashable elements (C16)

def _isna(x):
    import pandas as pd
    try:
        return bool(pd.isna(x))
    except Exception:
        return False


def eset(A):
    import pandas as pd
    out = []
    for x in (A.tolist() if isinstance(A, pd.Series) else A):
        if not any((x is y) or (x == y) or (_isna(x) and _isna(y)) for y in out):
            out.append(x)
    return FrozenBag(out)


class FrozenBag(list):
    """set of possibly unhashable / NaN elements with set algebra (NaNs identified with each other)"""

    def _has(self, x):
        return any((x is y) or (x == y) or (_isna(x) and _isna(y)) for y in self)

    def __and__(self, o):
        return FrozenBag([x for x in self if o._has(x)])

    def __or__(self, o):
        return FrozenBag(list(self) + [x for x in o if not self._has(x)])

    def __sub__(self, o):
        return FrozenBag([x for x in self if not o._has(x)])


def dropna_set(S):
    return FrozenBag([x for x in S if not _isna(x)])


def card(S):
    return len(S)


def is_series(A):
    import pandas as pd
    return isinstance(A, pd.Series)


def coinc(xs):
    xs = list(xs)
    return sum(1 for i in range(len(xs)) for j in range(len(xs)) if i != j and xs[i] == xs[j])


def cross(xs, ys):
    return sum(1 for a in xs for b in ys if a == b)


def as_array(x):
    import numpy as np
    import pandas as pd
    return x.to_numpy() if isinstance(x, pd.Series) else np.asarray(x)


def is_pair_tuple(x):
    return isinstance(x, tuple) and len(x) == 2


def paired_frame(x):
    import pandas as pd
    return pd.DataFrame({"CDR3A": list(x[0]), "CDR3B": list(x[1])})


def _is_table(x):
    import pandas as pd
    return isinstance(x, pd.DataFrame)


def is_table(x):
    return _is_table(x)


def sample_keys(x):
    if _is_table(x):
        return [tuple(r) for r in x.fillna("").itertuples(index=False, name=None)]
    if isinstance(x, tuple) and len(x) == 2:
        return list(zip(*x))
    return list(x)


def joined_rows(x, sep, on=None):
    if isinstance(x, tuple) and len(x) == 2:
        return [sep.join(str(v) for v in r) for r in zip(*x)]
    if _is_table(x):
        if on is not None:
            x = x[list(on)]
        return [sep.join(str(v) for v in r) for r in x.fillna("").itertuples(index=False, name=None)]
    return list(x)


def rows(df, on=None):
    if on is not None:
        df = df[list(on)]
    return [tuple(r) for r in df.itertuples(index=False, name=None)]


def cells_ok(x, ch):
    if x is None:
        return True
    if isinstance(x, tuple) and len(x) == 2:
        return len(x[0]) == len(x[1]) and all(ch not in str(v) for col in x for v in col)
    if _is_table(x):
        return all(ch not in str(v) for r in x.fillna("").itertuples(index=False, name=None) for v in r)
    return True


def comparable(a, b):
    def width(x):
        if _is_table(x):
            return x.shape[1]
        if isinstance(x, tuple) and len(x) == 2:
            return 2
        return 0
    if a is None or b is None:
        return True
    if width(a) != width(b):
        return False
    if width(a) == 0:
        return type(list(a)[0]) == type(list(b)[0]) if len(a) and len(b) else True
    return True


def columns(df):
    return list(df.columns)


def all_in(xs, ys):
    return all(x in ys for x in xs)


def ucounts(xs):
    import numpy as np
    return ExactSeq([Fraction(int(c)) for c in np.unique(np.asarray(xs), return_counts=True)[1]])


def isbool(x):
    import numpy as np
    return isinstance(x, (bool, np.bool_))


def isstr(x):
    return isinstance(x, str)


def isnumber(x):
    return _isnum(x) or isinstance(x, float)


def all_chars_in(s, alpha):
    return all(c in alpha for c in s)


def is_list(x):
    return isinstance(x, list)


def same_elements(a, b):
    return list(a) == list(b)


def forall(*args):
    """forall(T1, ..., lambda ...): in the concrete reading quantified integer variables range over a
    window that covers every index the clause can touch (callers pass bounded predicates)"""
    *tys, lam = args
    import itertools as _it
    return all(lam(*vals) for vals in _it.product(*[_domain(t) for t in tys]))


TInt, TNat, TStr, TReal, TBool = "int", "nat", "str", "real", "bool"
_STRS = [""] + ["".join(t) for n in range(1, 5) for t in itertools.product("AC", repeat=n)] + \
    [w for w in ("".join(t) for n in range(1, 4) for t in itertools.product("ABC", repeat=n)) if "B" in w]


def _domain(t):
    if t == "str":
        return _STRS
    if t == "bool":
        return [False, True]
    return range(-1, 12)


def _dense(m):
    import scipy.sparse as sp
    return m.toarray() if sp.issparse(m) else m


def mat_at(m, r, c):
    d = _dense(m)
    r, c = int(r), int(c)
    if 0 <= r < d.shape[0] and 0 <= c < d.shape[1]:
        return d[r, c]
    return 0


def mat_shape(m):
    return tuple(_dense(m).shape)


def is_matrix(m, kind):
    import numpy as np
    import scipy.sparse as sp
    return sp.issparse(m) if kind == "coo_matrix" else isinstance(m, np.ndarray)


def exists(*args, hints=None):
    *tys, lam = args
    import itertools as _it
    return any(lam(*vals) for vals in _it.product(*[_domain(t) for t in tys]))


def member(coll, y, *hints, inner=None):
    return y in coll


def delete_at(x, i):
    i = int(i)
    return x[:i] + x[i + 1:] if 0 <= i < len(x) else None


def sub_at(x, i, a):
    i = int(i)
    return x[:i] + a + x[i + 1:] if 0 <= i < len(x) else None


def ins_at(x, i, a):
    i = int(i)
    return x[:i] + a + x[i:] if 0 <= i <= len(x) else None


def char_at(x, i):
    i = int(i)
    return x[i:i + 1] if 0 <= i else ""


def runstart(x, i):
    i = int(i)
    while 0 < i < len(x) and x[i] == x[i - 1]:
        i -= 1
    return i


def insstart(x, i, a):
    i = int(i)
    while 0 < i <= len(x) and a == x[i - 1:i]:
        i -= 1
    return i


def by_induction(lam):
    return all(lam(i) for i in range(0, 12))


def distinct_letters(a):
    return len(set(a)) == len(a)


# ---- deletion variants / edit distance (C01, C03, ...)

def subseq(v, s):
    it = iter(s)
    return all(c in it for c in v)


def in_del(v, s, k):
    return subseq(v, s) and len(s) - len(v) <= int(k) and len(v) <= len(s)


def del_set(s, k):
    k = int(k)
    out = {s}
    for e in range(1, min(k, len(s)) + 1):
        for idx in itertools.combinations(range(len(s)), e):
            out.add("".join(c for i, c in enumerate(s) if i not in idx))
    return out


def use_lemma(*names):
    return True


def del_count(s, v):
    return len(s) - len(v)


def del_index(s, v):
    return None


def common_del(a, b, k):
    return None


# ---- search results

class _Cells:
    """triplet view of a matrix result: iterating yields (q, r, d) for the stored non-zero cells"""

    def __init__(self, m):
        import numpy as np
        import scipy.sparse as sp
        d = _dense(m)
        self.d = d
        if sp.issparse(m):
            c = m.tocoo()
            # stored entries, explicit zeros (distance-0 neighbours) included
            self.items = [(int(q), int(r), v) for r, q, v in zip(c.row, c.col, c.data)]
        else:
            self.items = [(int(q), int(r), d[r, q]) for r in range(d.shape[0]) for q in range(d.shape[1]) if d[r, q] != 0]

    def __iter__(self):
        return iter(self.items)

    def __contains__(self, t):
        q, r, v = t
        return 0 <= r < self.d.shape[0] and 0 <= q < self.d.shape[1] and close(self.d[r, q], v)


def triplets_of(result):
    if isinstance(result, list):
        return [tuple(t) for t in result]
    return _Cells(result)


def output_kind(result):
    import scipy.sparse as sp
    if isinstance(result, list):
        return "triplets"
    return "coo_matrix" if sp.issparse(result) else "ndarray"


def output_shape(result):
    return None if isinstance(result, list) else tuple(_dense(result).shape)


def is_setlike(x):
    return True


def functional_on(coll, key):
    seen = {}
    for e in coll:
        k = key(e)
        if k in seen and seen[k] != e:
            return False
        seen[k] = e
    return True


def local(name):
    return None


def vd_pos(db, v, p):
    d = getattr(db, "variant_dict", None)
    if d is None:
        d = getattr(db, "seq_dict", None)
    try:
        return list(d[v]).index(int(p))
    except Exception:
        return -1


def common_del_h(a, b, k):
    return None


def neighbor_triplets(Q, R, pred, val, distinct=False):
    return [(q, r, val(a, b)) for q, a in enumerate(Q) for r, b in enumerate(R) if pred(a, b) and not (distinct and q == r)]


def search_output(trip, output_type, seqs, seqs2):
    return list(trip) if output_type == "triplets" else ("matrix", list(trip))


def bag_equal(a, b):
    if isinstance(a, _Cells) or isinstance(b, _Cells):
        cells, other = (a, b) if isinstance(a, _Cells) else (b, a)
        lo = list(other)
        return all(t in cells for t in lo) and all(any(x[:2] == y[:2] and close(x[2], y[2]) for y in lo) for x in cells)
    la, lb = list(a), list(b)
    return all(any(x[:2] == y[:2] and close(x[2], y[2]) for y in lb) for x in la) and \
        all(any(x[:2] == y[:2] and close(x[2], y[2]) for y in la) for x in lb)


def valid_search_args(seqs, max_edits, max_returns, n_cpu, cd, mcd, output_type, seqs2):
    import numpy as np

    def strs(x):
        try:
            return all(type(s) in (str, np.str_) for s in x)
        except TypeError:
            return False
    ok = len(seqs) > 0 and strs(seqs)
    ok = ok and type(max_edits) in (int, Fraction) and max_edits > 0 and not isinstance(max_edits, bool)
    ok = ok and (max_returns is None or (type(max_returns) in (int, Fraction) and max_returns > 0))
    ok = ok and type(n_cpu) in (int, Fraction) and n_cpu > 0
    if ok and cd is not None and not (isinstance(cd, str) and cd == "hamming"):
        try:
            first = next(iter(seqs))
            ok = callable(cd) and cd(first, first) == 0
        except Exception:
            ok = False
    ok = ok and type(mcd) in (int, float, Fraction) and mcd >= 0
    ok = ok and isinstance(output_type, str) and output_type in ("coo_matrix", "triplets", "ndarray")
    ok = ok and (seqs2 is None or strs(seqs2))
    return ok


def with_witness(*args):
    return args[-1]


def over_alphabet(s, alphabet):
    return all(c in alphabet for c in s)


def one_edit_set(x, alphabet):
    out = set()
    for i in range(len(x)):
        out.add(x[:i] + x[i + 1:])
        for a in alphabet:
            if a != x[i]:
                out.add(x[:i] + a + x[i + 1:])
    for i in range(len(x) + 1):
        for a in alphabet:
            out.add(x[:i] + a + x[i:])
    out.discard(x)
    return out


def one_sub_set(x, alphabet):
    return {x[:i] + a + x[i + 1:] for i in range(len(x)) for a in alphabet if a != x[i]}


def n1(s, alphabet, y):
    return y in one_edit_set(s, alphabet)


def n1h(s, alphabet, y):
    return y in one_sub_set(s, alphabet)


def lev_pred(x, y):
    return None


def ham_pred(x, y):
    return None


def bucket_pos(d, p):
    return -1


def enum_pos(lst, x):
    return -1


def cand_triplets(i, cand, seqs, pred, val):
    return [(i, j, val(seqs[i], seqs[j])) for j in cand if j != i and pred(seqs[i], seqs[j])]


def all_cand_triplets(y_indices, seqs, pred, val):
    return [(i, j, val(seqs[i], seqs[j])) for i, c in enumerate(y_indices) for j in c if j != i and pred(seqs[i], seqs[j])]


def hist_vec(s, c):
    return None


def cnt(s, t, b, comp):
    AAs = "ACDEFGHIKLMNPQRSTVWY"
    import math
    return sum(1 for p in range(int(t)) if math.floor(AAs.index(s[p]) / comp) == b)


# ---- C08
@lru_cache(maxsize=None)
def wlev(a, b, ins, dele, sub):
    """minimum total weight of insertions / deletions / substitutions turning a into b"""
    ins, dele, sub = int(ins), int(dele), int(sub)
    prev = [j * ins for j in range(len(b) + 1)]
    for i, ca in enumerate(a, 1):
        cur = [i * dele]
        for j, cb in enumerate(b, 1):
            cur.append(min(prev[j] + dele, cur[j - 1] + ins, prev[j - 1] + (0 if ca == cb else min(sub, ins + dele))))
        prev = cur
    return prev[-1]


def apply2(f, a, b):
    return f(a, b)


def cell(m, r, c):
    return m[int(r), int(c)]


def shape2(m):
    return tuple(m.shape)


def wlev_scorer(i, d, s):
    return lambda a, b: wlev(a, b, i, d, s)


def scorer_matrix(f, A, B):
    import numpy as np
    return np.array([[f(a, b) for b in B] for a in A]).reshape(len(A), len(B))


def condensed_scores(f, X):
    X = list(X)
    return [f(X[i], X[j]) for i in range(len(X)) for j in range(i + 1, len(X))]


def unit_weighted():
    return None


# ---- C05 (concrete readings)

def is_zero(b):
    import numpy as np
    return np.isscalar(b) and b == 0


class _Normed:
    def __init__(self, res, normalize, pc):
        self.res, self.normalize, self.pc = res, normalize, pc


def raw_hist(result, normalize, pseudocount):
    return _Normed(result, normalize, pseudocount)


def same_value(a, b):
    import numpy as np
    if isinstance(a, _Normed):
        h = np.asarray(b, dtype=float)
        if not a.normalize:
            exp = h
        elif not a.pc:
            exp = h / h.sum() if h.sum() else h * np.nan
        else:
            exp = (h + float(a.pc)) / (h.sum() + 2 * float(a.pc))
        r = np.asarray(a.res, dtype=float)
        return r.shape == exp.shape and bool(np.allclose(r, exp, rtol=1e-9, atol=1e-12, equal_nan=True))
    import pandas as pd
    if isinstance(a, pd.DataFrame) or isinstance(b, pd.DataFrame):
        return isinstance(a, pd.DataFrame) and isinstance(b, pd.DataFrame) and a.equals(b)
    try:
        return bool(np.all(np.asarray(a) == np.asarray(b)))
    except Exception:
        return a == b


def the_metric(metric, data):
    import pyrepseq as prs
    if metric is not None:
        return metric
    from pyrepseq.metric.tcr_metric import Cdr3Levenshtein, AlphaCdr3Levenshtein, BetaCdr3Levenshtein
    if _is_table(data):
        if "CDR3A" in data and "CDR3B" in data:
            return Cdr3Levenshtein()
        if "CDR3A" in data:
            return AlphaCdr3Levenshtein()
        if "CDR3B" in data:
            return BetaCdr3Levenshtein()
    return prs.metric.Levenshtein()


def same_rows(x, src):
    return True


def is_subsample_rows(x, src, m):
    return True


def is_subsample(x, src, m):
    import collections
    if _is_table(x):
        return len(x) == int(m) and all(i in src.index for i in x.index) and x.index.is_unique
    cx, cs = collections.Counter(list(x)), collections.Counter(list(src))
    return len(x) == int(m) and all(cx[k] <= cs[k] for k in cx)


def class_name(x):
    return type(x).__name__


def same_object(a, b):
    """identity; in the executable reading numbers / numeric vectors are converted to exact values, so equal content stands in for
    identity where the two sides are no longer the same Python object"""
    if a is b:
        return True
    import numpy as _np
    import pandas as _pd
    try:
        if isinstance(a, _pd.DataFrame) or isinstance(b, _pd.DataFrame):
            return isinstance(a, _pd.DataFrame) and isinstance(b, _pd.DataFrame) and a.equals(b)
        if isinstance(a, (list, tuple, _np.ndarray)) and isinstance(b, (list, tuple, _np.ndarray)):
            return len(a) == len(b) and all(x == y for x, y in zip(list(a), list(b)))
    except Exception:
        return False
    return False


def random_subsample(src, m):
    return None


def consecutive_from_zero(xs):
    return [int(x) for x in xs] == list(range(len(xs)))


def is_shipped_table(x, name):
    return _is_table(x)


def is_empty_result(r):
    import numpy as np
    return isinstance(r, np.ndarray) and r.shape == (0, 3)


def bag_is_empty(x):
    if x is None:
        raise ValueError("intermediate not available to the harness")
    return len(list(x)) == 0


def bag_subset(a, b):
    lb = list(b)
    return all(x in lb for x in a)


def one_edit_bag(x, alphabet):
    out = []
    for i in range(len(x)):
        out.append(x[:i] + x[i + 1:])
        out.extend(x[:i] + a + x[i + 1:] for a in alphabet if a != x[i])
    for i in range(len(x) + 1):
        out.extend(x[:i] + a + x[i:] for a in alphabet)
    return out


def one_sub_bag(x, alphabet):
    return [x[:i] + a + x[i + 1:] for i in range(len(x)) for a in alphabet if a != x[i]]


# ---- C17: power-law utilities
def filtered(c, cmin):
    import numpy as _np
    a = _np.asarray(c)
    return a[a >= cmin]


def ln(x):
    import numpy as _np
    if isinstance(x, Fraction):
        x = float(x)
    elif isinstance(x, list):
        x = _np.asarray([float(v) for v in x])
    with _np.errstate(all="ignore"):
        return _np.log(x)


def zeta(a, q):
    import scipy.special
    return scipy.special.zeta(a, q)


def is_integral(x):
    return float(x) == int(x)


# ---- C18: tables
def fold_left(f, xs):
    import functools
    return functools.reduce(f, list(xs))


def _cellstr(v):
    import pandas as pd
    return "" if (v is None or (isinstance(v, float) and v != v) or v is pd.NA) else v


def table_cell(t, c, i):
    return _cellstr(t[c].iloc[int(i)])


def column_names(t):
    return list(t.columns)


def same_index(a, b):
    return a.index.equals(b.index)


def tt_junction(x, strict):
    import tidytcells as tt
    import warnings
    with warnings.catch_warnings():
        warnings.simplefilter("ignore")
        return _cellstr(tt.junction.standardize(seq=x, strict=bool(strict), suppress_warnings=True))


def tt_tr(x, species, enforce, precision):
    import tidytcells as tt
    import warnings
    with warnings.catch_warnings():
        warnings.simplefilter("ignore")
        return _cellstr(tt.tr.standardize(gene=x, species=species, enforce_functional=bool(enforce), precision=precision, suppress_warnings=True))


def tt_mh(x, species, precision):
    import tidytcells as tt
    import warnings
    with warnings.catch_warnings():
        warnings.simplefilter("ignore")
        return _cellstr(tt.mh.standardize(gene=x, species=species, precision=precision, suppress_warnings=True))


def tt_aa_keep(x):
    import tidytcells as tt
    import warnings
    with warnings.catch_warnings():
        warnings.simplefilter("ignore")
        return _cellstr(tt.aa.standardize(seq=x, on_fail="keep", suppress_warnings=True))


# ---- C15: clustering
def first_two_columns(a):
    import numpy as np
    return np.asarray(a).reshape(-1, 3)[:, :2]


def simplified(g):
    g2 = g.copy()
    g2.simplify()
    return g2


def joinable(dfs, on, suffixes):
    import pandas as pd
    if suffixes is not None:
        return all(on == "index" or on in d.columns for d in dfs)
    seen = set()
    for d in dfs:
        cols = [c for c in d.columns if c != on]
        if on != "index" and on not in d.columns:
            return False
        if seen & set(cols):
            return False
        seen |= set(cols)
    return True


# ---- C12 utilities
def related(nb, x, y):
    return y in set(nb(x))


_AA20 = "ACDEFGHIKLMNPQRSTVWY"


def two_sub_hit(x, reference):
    """executable twin of the contract predicate: index form, enumerated directly"""
    n = len(x)
    for i in range(n):
        for j in range(i + 1, n):
            for a in _AA20:
                if a == x[i]:
                    continue
                for b in _AA20:
                    if b == x[j]:
                        continue
                    if x[:i] + a + x[i + 1:j] + b + x[j + 1:] in reference:
                        return True
    return False


def three_sub_hit(x, reference):
    n = len(x)
    refs = set(reference)
    import itertools as _it
    for i, j, k in _it.combinations(range(n), 3):
        for a, b, c in _it.product(_AA20, repeat=3):
            if a != x[i] and b != x[j] and c != x[k]:
                if x[:i] + a + x[i + 1:j] + b + x[j + 1:k] + c + x[k + 1:] in refs:
                    return True
    return False


# ---- C09
def v_loop(v, n):
    import tidytcells as tt
    d = tt.tr.get_aa_sequence(v)
    return d.get(f"CDR{int(n)}-IMGT", "")


# ---- C13: grouped statistics
def group_values(df, by, f):
    return df.groupby(by).apply(f)


def groups_where(df, by, f):
    return df.groupby(by).filter(f)


def is_int(x):
    import numpy as _np
    return isinstance(x, (int, Fraction)) and not isinstance(x, bool)


def _groups(df, by):
    return sorted(list(df.groupby(by)), key=lambda t: t[0])


def _num_close(a, b):
    import numpy as _np
    a, b = _np.asarray(a, dtype=float), _np.asarray(b, dtype=float)
    return a.shape == b.shape and bool(_np.allclose(a, b, rtol=1e-9, atol=1e-12, equal_nan=True))


def cross_table_ok(result, df, by, f_cross, f_diag):
    """result is the square table over the sorted group names with [g, h] = f_cross(group g, group h) for g != h (both orders) and
    f_diag(group g) on the diagonal (NaN when f_diag is None)"""
    import numpy as _np
    gs = _groups(df, by)
    names = [n for n, _ in gs]
    if list(result.index) != names or list(result.columns) != names:
        return False
    for i, (ng, dg) in enumerate(gs):
        for j, (nh, dh) in enumerate(gs):
            v = result.iloc[i, j]
            if i == j:
                if f_diag is None:
                    if not (isinstance(v, float) and v != v):
                        return False
                elif not _num_close(v, f_diag(dg)):
                    return False
            else:
                a, b = (dg, dh) if i < j else (dh, dg)
                if not _num_close(v, f_cross(a, b)):
                    return False
    return True


def condensed_table_ok(result, df, by, f_cross):
    import itertools as _it
    gs = _groups(df, by)
    pairs = list(_it.combinations(gs, 2))
    if len(result) != len(pairs):
        return False
    for r, ((ng, dg), (nh, dh)) in enumerate(pairs):
        if tuple(result.index[r]) != (ng, nh) or not _num_close(result.iloc[r].to_numpy(), _np_flat(f_cross(dg, dh))):
            return False
    return True


def _np_flat(v):
    import numpy as _np
    return _np.atleast_1d(_np.asarray(v, dtype=float))


# ---- C19: logomaker count matrix
def column_count(seqs, i, c):
    return sum(1 for s in seqs if 0 <= int(i) < len(s) and s[int(i)] == c)


def observed_residues(seqs, i):
    return "".join(sorted({s[int(i)] for s in seqs if s[int(i)] not in "-."}))


def regex_prefix(seqs, i):
    out = ""
    n = len(seqs)
    for k in range(int(i)):
        o = observed_residues(seqs, k)
        out += (f"[{o}]" if len(o) > 1 else o)
        if sum(1 for s in seqs if s[k] not in "-.") != n:
            out += "?"
    return out


def is_new_object(a, b):
    return a is not b


try:
    import pandas as _pd_mod

    class PosSeries(_pd_mod.Series):
        """the same Series, for the executable reading of contract clauses: an integer subscript is a POSITION"""

        @property
        def _constructor(self):
            return PosSeries

        def __getitem__(self, k):
            import numpy as _np
            if isinstance(k, (int, _np.integer, Fraction)) and not isinstance(k, bool):
                return self.iloc[int(k)]
            return super().__getitem__(k)
except ImportError:      # pragma: no cover
    PosSeries = None


def occurrences(labels, x):
    return sum(1 for y in labels if y == x)


def is_black(v):
    return list(v) == [0, 0, 0]


def created(cls):
    return None          # witness hint only: not part of the executable reading


def call_result(q, k=None):
    raise LookupError("call_result() is not available in the executable reading")


# ---- C19: seqlogos
class _AnyNewAxes:
    """stands for 'a newly created Axes' in the executable reading"""


def new_axes():
    return _AnyNewAxes()


def is_count_matrix_of(m, seqs):
    import logomaker as lm
    import numpy as _np
    ref = lm.alignment_to_matrix(list(seqs))
    if list(m.columns) != list(ref.columns) or m.shape != ref.shape:
        return False
    for i in range(m.shape[0]):
        for c in m.columns:
            if int(m.iloc[i][c]) != column_count(seqs, i, c):
                return False
    return True


def logo_drawn_on(m, ax):
    return len(ax.patches) > 0 or len(ax.get_children()) > 0       # (what the renderer drew is outside the contract)


_same_value_prev = same_value


def same_value(a, b):      # noqa: F811
    if isinstance(b, _AnyNewAxes):
        import matplotlib.axes
        return isinstance(a, matplotlib.axes.Axes)
    return _same_value_prev(a, b)
