"""Falsifier scopes: small-scope enumerations (then seeded random inputs) of each contract's input
domain, as replay recipes.  Used ONLY to turn a failed / undischarged obligation into a
replayable input on the real code; nothing a scope fails to find counts as evidence.
"""
import itertools

SCOPES = {}
CALLERS = {}          # qualname -> callable(args dict) for functions that are not plain module functions
BUILD_NS = {}
SPEC_EXTRA = {}


def scope(*names):
    def deco(f):
        for n in names:
            SCOPES[n] = f
        return f
    return deco


def I(v):
    return {"t": "int", "v": int(v)}


def S(v, np=False):
    return {"t": "str", "v": v, "np": np}


def seq(items, kind="list", index=None):
    r = {"t": "seq", "kind": kind, "items": list(items)}
    if kind == "Series":
        r["index"] = index
    return r


NONE = {"t": "none"}


def py(expr):
    return {"t": "py", "expr": expr}


@scope("count_vectors")
def count_vectors(rng):
    for kind in ("list", "ndarray"):
        for n in range(1, 5):
            for vals in itertools.product(range(0, 5), repeat=n):
                yield {"counts": seq([I(v) for v in vals], kind)}
    while True:
        n = rng.randint(1, 8)
        yield {"counts": seq([I(rng.randint(0, 40)) for _ in range(n)], rng.choice(["list", "ndarray"]))}


@scope("count_vectors_m")
def count_vectors_m(rng):
    for rec in count_vectors(rng):
        rec["m"] = I(rng.randint(1, 6))
        yield rec


NAN = {"t": "nan"}


@scope("collections")
def collections(rng):
    pool = [I(1), I(2), I(3), NAN]
    colls = []
    for n in range(0, 4):
        for items in itertools.combinations(pool, n):
            colls.append(list(items))
    for ka in ("list", "set", "Series"):
        for kb in ("list", "set", "Series"):
            for a in colls:
                for b in colls:
                    yield {"A": seq(a, ka), "B": seq(b, kb)}
