"""Falsifier scopes: small-scope enumerations (then seeded random inputs) of each contract's input
domain, as replay recipes.  Used ONLY to turn a failed / undischarged obligation into a
replayable input on the real code; nothing a scope fails to find counts as evidence.
"""
import itertools

SCOPES = {}
CALLERS = {}          # qualname -> callable(args dict) for functions that are not plain module functions
BUILD_NS = {}
SPEC_EXTRA = {}


def scope(*names):
    def deco(f):
        for n in names:
            SCOPES[n] = f
        return f
    return deco


def I(v):
    return {"t": "int", "v": int(v)}


def S(v, np=False):
    return {"t": "str", "v": v, "np": np}


def seq(items, kind="list", index=None):
    r = {"t": "seq", "kind": kind, "items": list(items)}
    if kind == "Series":
        r["index"] = index
    return r


NONE = {"t": "none"}


def py(expr):
    return {"t": "py", "expr": expr}


@scope("count_vectors")
def count_vectors(rng):
    for kind in ("list", "ndarray"):
        for n in range(1, 5):
            for vals in itertools.product(range(0, 5), repeat=n):
                yield {"counts": seq([I(v) for v in vals], kind)}
    while True:
        n = rng.randint(1, 8)
        yield {"counts": seq([I(rng.randint(0, 40)) for _ in range(n)], rng.choice(["list", "ndarray"]))}


@scope("count_vectors_m")
def count_vectors_m(rng):
    for rec in count_vectors(rng):
        rec["m"] = I(rng.randint(1, 6))
        yield rec


NAN = {"t": "nan"}


@scope("collections")
def collections(rng):
    pool = [I(1), I(2), I(3), NAN]
    colls = []
    for n in range(0, 4):
        for items in itertools.combinations(pool, n):
            colls.append(list(items))
    for ka in ("list", "set", "Series"):
        for kb in ("list", "set", "Series"):
            for a in colls:
                for b in colls:
                    yield {"A": seq(a, ka), "B": seq(b, kb)}


@scope("count_vectors_N2")
def count_vectors_N2(rng):
    for rec in count_vectors(rng):
        rec = {"n": rec["counts"]}
        yield rec


@scope("count_arrays_N4")
def count_arrays_N4(rng):
    for n in range(1, 5):
        for vals in itertools.product(range(0, 6), repeat=n):
            if sum(vals) >= 4:
                yield {"n": seq([I(v) for v in vals], "ndarray")}
    while True:
        yield {"n": seq([I(rng.randint(0, 30)) for _ in range(rng.randint(1, 8))], "ndarray")}


def _samples(rng, lo=2):
    strs = ["A", "B", "AB", "ABC"]
    for kind in ("list", "ndarray"):
        for n in range(lo, 4):
            for xs in itertools.product(strs, repeat=n):
                yield seq([S(x) for x in xs], kind)
    for n in range(lo, 5):
        for xs in itertools.product([1, 2, 3], repeat=n):
            yield seq([I(x) for x in xs], "list")


@scope("samples")
def samples(rng):
    firsts = list(_samples(rng))
    for a in firsts:
        yield {"array": a, "array2": NONE}
    seconds = list(_samples(rng, 1))
    cells = ["A", "B", "AB", ""]
    for _ in range(1500):
        a = rng.choice(firsts)
        b = rng.choice([s for s in seconds if (s["items"][0]["t"] == a["items"][0]["t"])])
        yield {"array": a, "array2": b}
        ncol = rng.randint(1, 3)
        t1 = table({f"c{k}": [rng.choice(cells) for _ in range(rng.randint(2, 4))] * 1 for k in range(ncol)})
        n1 = min(len(v) for v in t1["columns"].values())
        t1 = table({k: v[:n1] for k, v in t1["columns"].items()})
        yield {"array": t1, "array2": NONE}
        if ncol == 2:
            t2 = table({k: [rng.choice(cells) for _ in range(2)] for k in t1["columns"]})
            yield {"array": t1, "array2": t2}


@scope("containers")
def containers(rng):
    base = [["AA", "AB", "B"], ["A"], ["C", "C", "A", "B"]]
    for items in base:
        n = len(items)
        for kind in ("list", "tuple", "ndarray"):
            yield {"arr_like": seq([S(x) for x in items], kind)}
        for idx in (None, list(range(n))[::-1], [i + 10 for i in range(n)], [7 * i % 5 + 3 * i for i in range(n)]):
            yield {"arr_like": seq([S(x) for x in items], "Series", idx)}
    yield {"arr_like": seq([I(1), I(2)], "list")}
    yield {"arr_like": seq([I(1), I(2)], "ndarray")}


@scope("tuple_or_not")
def tuple_or_not(rng):
    yield {"seqs": NONE}
    yield {"seqs": seq([S("A"), S("B")], "list")}
    yield {"seqs": seq([S("A"), S("B")], "ndarray")}
    yield {"seqs": {"t": "tuple", "items": [seq([S("A"), S("B"), S("C")], "list"), seq([S("X"), S("Y"), S("Z")], "list")]}}
    yield {"seqs": py("pd.DataFrame({'CDR3A': ['A'], 'x': [1]})")}


def _build_ns():
    import numpy as np
    import pandas as pd
    BUILD_NS.update(np=np, pd=pd)


_build_ns()


def table(columns):
    return {"t": "table", "columns": columns}


@scope("tables_on")
def tables_on(rng):
    vals = ["A", "B", "AB", "", "A_B", "A.B"]
    for _ in range(3000):
        ncol = rng.randint(1, 4)
        names = ["a", "b", "c", "d"][:ncol]
        n = rng.randint(2, 5)
        df = table({c: [rng.choice(vals[:4]) for _ in range(n)] for c in names})
        on = rng.sample(names, rng.randint(1, ncol))
        rec = {"df": df, "on": {"t": "const", "v": on}, "gap_token": {"t": "const", "v": rng.choice(["_", "|"])}, "df_2": NONE}
        if rng.random() < 0.4:
            n2 = rng.randint(1, 4)
            rec["df_2"] = table({c: [rng.choice(vals[:4]) for _ in range(n2)] for c in ["a", "b", "c", "d"]})
        yield rec


@scope("samples4")
def samples4(rng):
    for a in _samples(rng, 4):
        yield {"array": a}


@scope("any_objects")
def any_objects(rng):
    exprs = ["''", "'C'", "'CAF'", "'CAW'", "'CASSF'", "'CAX'", "'AAF'", "'CA'", "'caf'", "None", "float('nan')", "1", "1.5", "True",
             "b''", "b'CAF'", "[]", "()", "set()", "{}", "['C','A','F']", "('C','F')", "{'C'}", "{'C': 1}", "{0: 'C', -1: 'F'}",
             "[['C']]", "[1, 2]", "['C', ['A']]", "np.nan", "np.str_('CAF')", "pd.NA", "object()", "iter('CAF')", "range(3)",
             "{'C': 1, 'F': 2}", "['CA', 'F']", "'C F'", "'CÄF'"]
    for e in exprs:
        yield {"string": py(e)}


def R(v):
    return {"t": "float", "v": float(v)}


def tup(*items):
    return {"t": "tuple", "items": list(items)}


@scope("triplet_lists")
def triplet_lists(rng):
    for _ in range(2000):
        n1 = rng.randint(1, 4)
        two = rng.random() < 0.6
        n2 = rng.randint(1, 4) if two else n1
        pairs = [(q, r) for q in range(n2) for r in range(n1)]
        rng.shuffle(pairs)
        pairs = pairs[:rng.randint(0, len(pairs))]
        trip = [tup(I(q), I(r), R(rng.choice([0, 1, 2, 0.5]))) for q, r in pairs]
        yield {"triplets": seq(trip, rng.choice(["list", "set"])),
               "output_type": {"t": "const", "v": rng.choice(["triplets", "coo_matrix", "ndarray"])},
               "seqs": seq([S("A")] * n1, "list"), "seqs2": seq([S("B")] * n2, "list") if two else NONE}


def _strings(alpha, maxlen):
    for n in range(0, maxlen + 1):
        for t in itertools.product(alpha, repeat=n):
            yield "".join(t)


@scope("strings_alphabets")
def strings_alphabets(rng):
    for alpha in ("A", "AB", "ABC"):
        for x in _strings(alpha, 4):
            yield {"x": S(x), "alphabet": S(alpha)}
    for x in _strings("AB", 3):
        yield {"x": S(x), "alphabet": S("ABCD")}


@scope("comb_gen")
def comb_gen(rng):
    for k in range(0, 4):
        for x in _strings("ABC", 4):
            yield {"seq": S(x), "max_edits": I(k)}


CUSTOM_FNS = ["None", "'hamming'", "(lambda a, b: 0.5 * (a != b))", "(lambda a, b: 10 * specref.lev(a, b))",
              "(lambda a, b: abs(len(a) - len(b)) + (a != b))"]


@scope("search_calls")
def search_calls(rng):
    pool = ["", "A", "AA", "AB", "ABC", "BCD", "AAB", "ABB", "B", "ABCD", "BCDE", "AAAA", "AAA", "AAC", "AAAC"]
    for _ in range(4000):
        n = rng.randint(1, 5)
        seqs = [rng.choice(pool) for _ in range(n)]
        two = rng.random() < 0.4
        rec = {"seqs": seq([S(x) for x in seqs], "list"), "max_edits": I(rng.choice([1, 1, 2, 3, 0])),
               "max_returns": NONE, "n_cpu": I(1), "custom_distance": py(rng.choice(CUSTOM_FNS)),
               "max_custom_distance": rng.choice([{"t": "inf"}, R(1), R(0.5), R(20)]),
               "output_type": {"t": "const", "v": rng.choice(["triplets", "triplets", "coo_matrix", "ndarray"])},
               "seqs2": seq([S(rng.choice(pool)) for _ in range(rng.randint(1, 4))], "list") if two else NONE,
               "progress": {"t": "const", "v": False}}
        if rng.random() < 0.15:
            rec["seqs2"] = {"t": "alias", "of": "seqs"}
        if rng.random() < 0.2:
            rec["seqs"] = seq(rec["seqs"]["items"], "Series", rng.sample(range(3, 3 + n), n))
        if rng.random() < 0.08:
            # an invalid collection mixing strings with numbers (must be rejected, whatever the container)
            bad = list(rec["seqs"]["items"]) + [rng.choice([I(123), R(1.5)])]
            rng.shuffle(bad)
            rec["seqs"] = seq(bad, rng.choice(["list", "tuple"]))
        yield rec


def _build_ns2():
    from replay import specref
    BUILD_NS.update(specref=specref)


_build_ns2()


AA_POOL = ["", "A", "C", "AA", "AC", "CA", "ACD", "CCD", "AAC", "AAAC", "AAA", "CCC", "CCD", "ACDE", "AAAA"]


@scope("lookupdb_lookup")
def lookupdb_lookup(rng):
    for _ in range(3000):
        ref = [rng.choice(AA_POOL) for _ in range(rng.randint(1, 4))]
        qs = [rng.choice(AA_POOL) for _ in range(rng.randint(1, 4))]
        pd = rng.random() < 0.4
        if pd:
            qs = ref
        yield {"self": py(f"prs.nn.LookupDB(np.array({ref!r}))"), "seqs2": seq([S(x) for x in qs], "ndarray"),
               "max_edits": I(rng.choice([1, 1, 2])), "pdist_mode": {"t": "const", "v": pd},
               "custom_distance": py(rng.choice(CUSTOM_FNS)), "max_custom_distance": rng.choice([{"t": "inf"}, R(1), R(20)]),
               "output_type": {"t": "const", "v": rng.choice(["triplets", "coo_matrix"])}, "progress": {"t": "const", "v": False}}


@scope("symdeldb_lookup")
def symdeldb_lookup(rng):
    for _ in range(3000):
        ref = [rng.choice(AA_POOL) for _ in range(rng.randint(1, 4))]
        qs = [rng.choice(AA_POOL) for _ in range(rng.randint(1, 4))]
        k = rng.choice([1, 1, 2])
        yield {"self": py(f"prs.nn.SymdelDB(np.array({ref!r}), {k})"), "seqs2": seq([S(x) for x in qs], rng.choice(["list", "ndarray"])),
               "custom_distance": py(rng.choice(CUSTOM_FNS)), "max_custom_distance": rng.choice([{"t": "inf"}, R(1), R(20)]),
               "output_type": {"t": "const", "v": rng.choice(["triplets", "coo_matrix"])}, "progress": {"t": "const", "v": False}}


@scope("generate_neighbors")
def generate_neighbors(rng):
    for q in ["", "A", "AC", "AAC"]:
        for k in (0, 1, 2):
            for h in (False, True):
                yield {"query": S(q), "max_edits": I(k), "is_hamming": {"t": "const", "v": h}}


def _build_ns3():
    import pyrepseq as prs
    BUILD_NS.update(prs=prs)


_build_ns3()


@scope("to_triplets")
def to_triplets(rng):
    for n in (2, 3, 1):
        for n_cpu in (1, 2, 4):
            for mode in ("None", "'hamming'", CUSTOM_FNS[2]):
                seqs = [rng.choice(["AAA", "AAC", "ACC", "CCC"]) for _ in range(n)]
                yi = [[j for j in range(n)] for _ in range(n)]
                yield {"seqs": seq([S(x) for x in seqs], "ndarray"), "y_indices": py(repr(yi)), "max_edits": I(1), "limit": NONE,
                       "n_cpu": I(n_cpu), "custom_distance": py(mode), "max_cust_dist": {"t": "inf"}}


def _aa_calls(rng, with_compression):
    for _ in range(400):
        n = rng.randint(1, 5)
        seqs = [rng.choice(AA_POOL) for _ in range(n)]
        rec = {"seqs": seq([S(x) for x in seqs], rng.choice(["list", "ndarray", "list"])), "max_edits": I(rng.choice([1, 1, 2])),
               "max_returns": NONE, "n_cpu": I(rng.choice([1, 1, 1, 2, 7])), "custom_distance": py(rng.choice(CUSTOM_FNS[:3] + CUSTOM_FNS[4:])),
               "max_custom_distance": rng.choice([{"t": "inf"}, R(1), R(20)]),
               "output_type": {"t": "const", "v": rng.choice(["triplets", "triplets", "coo_matrix"])}}
        if with_compression:
            rec["compression"] = rng.choice([I(1), I(1), I(3), R(2.5), I(25)])
        else:
            rec["progress"] = {"t": "const", "v": False}
        if rng.random() < 0.2:
            rec["seqs"] = seq(rec["seqs"]["items"], "Series", rng.sample(range(2, 2 + n), n))
        yield rec


@scope("search_calls_kdtree")
def search_calls_kdtree(rng):
    return _aa_calls(rng, True)


@scope("search_calls_aa")
def search_calls_aa(rng):
    return _aa_calls(rng, False)


@scope("kdtree_leven_calls")
def kdtree_leven_calls(rng):
    for rec in _aa_calls(rng, True):
        yield rec


_WPOOL = ["", "A", "AB", "BA", "ABC", "AAB", "B", "CAB", "ABCD"]


@scope("pdist_calls")
def pdist_calls(rng):
    metric = "(lambda a, b, w=0: specref.wlev(a, b, 1, 2, 1) + w * len(a))"
    for n in (0, 1, 2, 3, 4, 5):
        for _ in range(6):
            xs = [rng.choice(_WPOOL) for _ in range(n)]
            yield {"strings": seq([S(x) for x in xs], rng.choice(["list", "tuple"])), "metric": py(metric),
                   "dtype": py("np.float64"), "kwargs": {"t": "dict", "items": {"w": I(rng.randint(0, 3))}}}


@scope("cdist_calls")
def cdist_calls(rng):
    metric = "(lambda a, b, w=0: specref.wlev(a, b, 1, 2, 1) + w * len(a))"
    for _ in range(60):
        xs = [rng.choice(_WPOOL) for _ in range(rng.randint(0, 4))]
        ys = [rng.choice(_WPOOL) for _ in range(rng.randint(0, 4))]
        yield {"stringsA": seq([S(x) for x in xs], "list"), "stringsB": seq([S(x) for x in ys], "list"), "metric": py(metric),
               "dtype": py("np.float64"), "kwargs": {"t": "dict", "items": {"w": I(rng.randint(0, 3))}}}


@scope("wlev_init")
def wlev_init(rng):
    for w in [(1, 1, 1), (1, 2, 1), (2, 1, 1), (3, 1, 2), (1, 1, 3), (2, 5, 3)]:
        yield {"self": py("object.__new__(prs.metric.WeightedLevenshtein)"), "insertion_weight": I(w[0]), "deletion_weight": I(w[1]),
               "substitution_weight": I(w[2])}


def _wl(rng):
    w = rng.choice([(1, 1, 1), (1, 2, 1), (2, 1, 1), (3, 1, 2)])
    return py(f"prs.metric.WeightedLevenshtein({w[0]}, {w[1]}, {w[2]})")


@scope("wlev_cdist")
def wlev_cdist(rng):
    for _ in range(60):
        xs = [rng.choice(_WPOOL) for _ in range(rng.randint(1, 4))]
        ys = [rng.choice(_WPOOL) for _ in range(rng.randint(1, 4))]
        yield {"self": _wl(rng), "anchors": seq([S(x) for x in xs], "list"), "comparisons": seq([S(x) for x in ys], "list")}


@scope("wlev_pdist")
def wlev_pdist(rng):
    for _ in range(60):
        xs = [rng.choice(_WPOOL) for _ in range(rng.randint(2, 5))]
        yield {"self": _wl(rng), "instances": seq([S(x) for x in xs], "list")}


# ---- frame scopes: representative calls of functions checked for purity only (C20) ------------------------------
FRAME_SCOPES = {}


def frame_scope(name):
    def deco(f):
        FRAME_SCOPES[name] = f
        return f
    return deco


@frame_scope("pyrepseq.plotting.similarity_clustermap")
def _fs_clustermap(rng):
    BUILD_NS.setdefault("_mpl_agg", __import__("matplotlib").use("Agg"))
    yield {"df": py("pd.DataFrame({'cdr3a': ['CAVSF', 'CAVSW', 'CALSF', 'CAASF'], 'cdr3b': ['CASSF', 'CASSY', 'CASTF', 'CASSF']})")}


@scope("pcdelta_calls")
def pcdelta_calls(rng):
    pool = ["", "A", "AB", "BA", "ABC", "AAB", "B", "ABCD", "AB", "A"]
    for _ in range(400):
        xs = [rng.choice(pool) for _ in range(rng.randint(2, 6))]
        ys = [rng.choice(pool) for _ in range(rng.randint(1, 5))]
        bins = rng.choice([NONE, I(0), py("np.array([0, 1, 2, 4])"), py("np.array([0, 2, 3])")])
        rec = {"seqs": seq([S(x) for x in xs], "list"), "seqs2": rng.choice([NONE, seq([S(y) for y in ys], "list")]),
               "metric": rng.choice([NONE, py("prs.metric.Levenshtein()"), py("prs.metric.WeightedLevenshtein(1, 2, 1)")]),
               "bins": bins, "normalize": {"t": "const", "v": rng.choice([True, False])},
               "pseudocount": rng.choice([{"t": "const", "v": 0.0}, R(0.5), R(2)]), "maxseqs": NONE}
        if rng.random() < 0.2:
            rec["seqs"] = table({"CDR3A": xs, "CDR3B": list(reversed(xs))})
            rec["seqs2"] = NONE
            rec["metric"] = NONE
        yield rec


@scope("downsample_calls")
def downsample_calls(rng):
    for _ in range(200):
        xs = [rng.choice(["A", "B", "C", "AB"]) for _ in range(rng.randint(0, 6))]
        kind = rng.choice(["list", "ndarray", "table", "none"])
        s_ = NONE if kind == "none" else (table({"CDR3A": xs, "CDR3B": xs}) if kind == "table" else seq([S(x) for x in xs], kind))
        yield {"seqs": s_, "maxseqs": rng.choice([NONE, I(rng.randint(0, 7))])}


@scope("default_metric_calls")
def default_metric_calls(rng):
    yield {"input_data": seq([S("A")], "list")}
    for cols in (["CDR3A", "CDR3B"], ["CDR3A", "TRAV"], ["TRBV", "CDR3B"], ["Epitope"], ["CDR3B", "CDR3A", "x"]):
        yield {"input_data": table({c: ["CASSF"] for c in cols})}


@scope("load_background_calls")
def load_background_calls(rng):
    yield {"return_bins": {"t": "const", "v": True}}
    yield {"return_bins": {"t": "const", "v": False}}


@scope("tcrdist_calls")
def tcrdist_calls(rng):
    # no pair within max_edits: the TCRdist part (optional pwseqdist dependency, absent here) is never reached
    yield {"df": table({"CDR3A": ["CAVSDLEPNSSASKIIF", "CAGGGGGGGGGGGF"], "TRAV": ["TRAV12-2*01", "TRAV1-1*01"],
                        "CDR3B": ["CASSIRSSYEQYF", "CASWWWWWWWWWWWWF"], "TRBV": ["TRBV19*01", "TRBV2*01"]}),
           "chain": {"t": "const", "v": "beta"}, "max_edits": I(1), "edit_on_trimmed": {"t": "const", "v": True}, "max_tcrdist": R(20)}
    yield {"df": table({"CDR3A": ["CAVSDLEPNSSASKIIF"], "TRAV": ["TRAV12-2*01"], "CDR3B": ["CASSIRSSYEQYF"], "TRBV": ["TRBV19*01"]}),
           "chain": {"t": "const", "v": "alpha"}, "max_edits": I(2), "edit_on_trimmed": {"t": "const", "v": False}, "max_tcrdist": R(20)}


@scope("subsample_calls")
def subsample_calls(rng):
    for kind in ("list", "ndarray"):
        for vals in itertools.product(range(0, 4), repeat=3):
            for n in range(0, sum(vals) + 2):
                yield {"counts": seq([I(v) for v in vals], kind), "n": I(n)}
    while True:
        vals = [rng.randint(0, 9) for _ in range(rng.randint(1, 9))]
        yield {"counts": seq([I(v) for v in vals], rng.choice(["list", "ndarray"])), "n": I(rng.randint(0, sum(vals) + 1))}


@scope("powerlaw_sample_calls")
def powerlaw_sample_calls(rng):
    for size in (0, 1, 2, 7, 10):
        for xmin in (I(1), R(1.0), I(2), R(3.0), I(10)):
            for alpha in (1.01, 1.5, 2.0, 3.5, 9.0):
                yield {"size": I(size), "xmin": xmin, "alpha": R(alpha)}


@scope("loglik_calls")
def loglik_calls(rng):
    while True:
        xs = [rng.randint(1, 30) for _ in range(rng.randint(0, 9))]
        yield {"x": seq([R(float(v)) for v in xs], "ndarray"), "alpha": R(rng.choice([1.2, 1.5, 2.0, 2.7, 4.4])), "xmin": R(float(rng.randint(1, 4)))}


@scope("mle_calls")
def mle_calls(rng):
    while True:
        xs = [rng.randint(1, 40) for _ in range(rng.randint(1, 10))]
        cmin = rng.choice([I(1), R(1.0), I(2), R(3.0)])
        rec = {"c": seq([I(v) for v in xs], rng.choice(["list", "ndarray"])), "cmin": cmin,
               "method": {"t": "const", "v": rng.choice(["simple", "continuitycorrection", "exact", "exact", "other"])},
               "kwargs": {"t": "dict", "items": {}}}
        if rng.random() < 0.3:
            lo = rng.choice([1.1, 1.5, 2.0])
            rec["kwargs"] = {"t": "dict", "items": {"bounds": tup(R(lo), R(lo + rng.choice([0.5, 2.0, 3.0])))}}
        yield rec


def _tab(cols, none_for_empty=True):
    return {"t": "table", "columns": cols, "none_for_empty": none_for_empty}


@scope("multimerge_calls")
def multimerge_calls(rng):
    while True:
        k = rng.randint(2, 4)
        on = rng.choice(["key", "index", "key"])
        with_suffixes = rng.random() < 0.5
        tabs = []
        for t in range(k):
            keys = rng.sample(["a", "b", "c", "d", "e"], rng.randint(1, 4))
            # without per-table suffixes the value columns must be distinct (pandas refuses joins that would duplicate names)
            vname = "val" if with_suffixes else f"val{t}"
            d = {"key": keys, vname: [f"{x}{t}" for x in keys]}
            tabs.append(py(f"pd.DataFrame({d!r})" + (".set_index('key')" if on == "index" else "")))
        yield {"dfs": seq(tabs, "list"), "on": {"t": "const", "v": on},
               "suffixes": seq([S(f"s{t}") for t in range(k)], "list") if with_suffixes else NONE,
               "kwargs": {"t": "dict", "items": ({} if rng.random() < 0.6 else {"how": {"t": "const", "v": rng.choice(["inner", "outer", "left"])}})}}


@scope("standardize_calls")
def standardize_calls(rng):
    genes = ["TRBV13*01", "bv13*1", "TCRBV28S1*01", "unknown", "", "TRAV1-1", "av26.1*1", "TRBJ2-4*01", "aj43*1", "junk!"]
    cdr3 = ["CASSYLPGQGDHYSNQPQHF", "ASSF", "", "CASS", "notacdr3", "CAVPSGAGSYQLTF"]
    epi = ["FLKEKGGL", "", "not an epitope 1", "YMPYFFTLL"]
    mhc = ["HLA-A*02", "b8", "", "B2M", "HLA-DQA1*05", "junk"]
    pool = {"TRAV": genes, "TRAJ": genes, "TRBV": genes, "TRBJ": genes, "v": genes, "CDR3A": cdr3, "CDR3B": cdr3, "cdr3": cdr3,
            "Epitope": epi, "epi": epi, "MHCA": mhc, "MHCB": mhc, "extra": ["x", "", "TRBV13"], "note": ["n1", ""], "x": ["1", "2"]}
    layouts = [["TRAV", "CDR3A", "TRAJ", "extra", "TRBV", "CDR3B", "TRBJ", "Epitope", "MHCA", "MHCB"], ["v", "cdr3", "TRBJ", "note", "epi"],
               ["CDR3A", "Epitope", "MHCA"]]
    B = lambda v: {"t": "const", "v": v}
    while True:
        n = rng.randint(0, 4)
        lay = rng.choice(layouts)
        rec = {"df": _tab({c: [rng.choice(pool[c]) for _ in range(n)] for c in lay}),
               "col_mapper": rng.choice([NONE, {"t": "dict", "items": {"v": B("TRBV"), "cdr3": B("CDR3B"), "epi": B("Epitope")}}]),
               "standardize": B(rng.random() < 0.8), "species": B(rng.choice(["HomoSapiens", "MusMusculus"])),
               "tcr_enforce_functional": B(rng.random() < 0.5), "tcr_precision": B(rng.choice(["gene", "allele"])),
               "mhc_precision": B(rng.choice(["gene", "allele", "protein"])), "strict_cdr3_standardization": B(rng.random() < 0.5),
               "suppress_warnings": B(True), "df_old": NONE}
        if rng.random() < 0.1:
            rec["df_old"], rec["df"] = _tab({"CDR3B": [rng.choice(cdr3) for _ in range(n)], "x": ["1"] * n}), rng.choice([NONE, rec["df"]])
        yield rec


@scope("graph_clustering_calls")
def graph_clustering_calls(rng):
    pool = ["AAA", "AAC", "ACC", "CCC", "GGG", "GGA", "TTT", "AAA", "CCA", "TTA", "GTA"]
    import pyrepseq as prs
    for _ in range(300):
        n = rng.randint(1, 8)
        seqs = [rng.choice(pool) for _ in range(n)]
        trip = prs.nearest_neighbor(seqs, max_edits=rng.choice([1, 1, 2]))
        yield {"adjacency_matrix": seq([tup(I(a), I(b), R(d)) for a, b, d in trip], "list"),
               "nodes": seq([S(x) for x in seqs], rng.choice(["list", "ndarray"])),
               "clustering": {"t": "const", "v": rng.choice(["cc", "cc", "fastgreedy", "multilevel", "leiden"])},
               "kwargs": {"t": "dict", "items": {}}}


@scope("hierarchical_calls")
def hierarchical_calls(rng):
    pool = ["CASSF", "CASSL", "CAVSF", "CASSLF", "CATTF", "CASSF", "CAAAF", "CSARF"]
    B = lambda v: {"t": "const", "v": v}
    for _ in range(120):
        n = rng.randint(2, 7)
        xs = [rng.choice(pool) for _ in range(n)]
        kind = rng.choice(["list", "ndarray", "table", "table2", "tuple"])
        if kind == "table":
            s_ = table({"CDR3A": xs, "CDR3B": list(reversed(xs))})
        elif kind == "table2":
            s_ = table({"TRBV": ["TRBV19*01"] * n, "CDR3B": xs})
        elif kind == "tuple":
            s_ = tup(seq([S(x) for x in xs], "list"), seq([S(x) for x in reversed(xs)], "list"))
        else:
            s_ = seq([S(x) for x in xs], kind)
        yield {"seqs": s_, "metric": NONE,
               "linkage_kws": {"t": "dict", "items": rng.choice([{"method": B("average"), "optimal_ordering": B(True)}, {"method": B("single")}])},
               "cluster_kws": {"t": "dict", "items": rng.choice([{"t": B(6), "criterion": B("distance")}, {"t": B(2), "criterion": B("maxclust")}])}}


# ---- C12 utilities.  Neighbourhoods are the real generators restricted to the alphabet {A, C} (so that every reachable string lies in
# the finite string universe the concrete quantifiers range over: all strings over {A, C} of length <= 4)
NB = ["(lambda x: prs.distance.hamming_neighbors(x, alphabet='AC'))", "(lambda x: prs.distance.levenshtein_neighbors(x, alphabet='AC'))"]
_AC = [""] + ["".join(t) for n in range(1, 4) for t in itertools.product("AC", repeat=n)]


def _refs(rng, kind=None):
    xs = rng.sample(_AC, rng.randint(0, 6))
    return seq([S(x) for x in xs], kind or rng.choice(["set", "list"]))


@scope("isdist1_calls")
def isdist1_calls(rng):
    while True:
        yield {"x": S(rng.choice(_AC)), "reference": _refs(rng), "neighborhood": py(rng.choice(NB))}


@scope("neighbor_numbers_calls")
def neighbor_numbers_calls(rng):
    while True:
        xs = [rng.choice(_AC) for _ in range(rng.randint(0, 6))]
        yield {"seqs": seq([S(x) for x in xs], "list"), "reference": rng.choice([NONE, _refs(rng, "set")]), "neighborhood": py(rng.choice(NB))}


@scope("next_nearest_calls")
def next_nearest_calls(rng):
    for x in ["", "A", "C", "AC", "AA"]:
        for nb in NB:
            for d in (1, 2, 3):
                if len(x) + d <= 4:
                    yield {"x": S(x), "neighborhood": py(nb), "maxdistance": I(d)}


@scope("isdist_hamming_calls")
def isdist_hamming_calls(rng):
    while True:
        n = rng.randint(0, 4)
        x = "".join(rng.choice("AC") for _ in range(n))
        refs = ["".join(rng.choice("AC") for _ in range(n)) for _ in range(rng.randint(0, 4))] + rng.sample(_AC, 2)
        yield {"x": S(x), "reference": seq([S(r) for r in refs], rng.choice(["set", "list"]))}


@scope("nndist_calls")
def nndist_calls(rng):
    for rec in isdist_hamming_calls(rng):
        yield {"seq": rec["x"], "reference": rec["reference"], "maxdist": I(rng.choice([1, 2, 3, 4, 4, 5]))}


@scope("neighbor_pairs_calls")
def neighbor_pairs_calls(rng):
    while True:
        xs = [rng.choice(_AC) for _ in range(rng.randint(0, 7))]
        yield {"seqs": seq([S(x) for x in xs], "list"), "neighborhood": py(rng.choice(NB))}


@scope("neighbor_pairs_sets")
def neighbor_pairs_sets(rng):
    for k in range(0, 6):
        for comb in itertools.combinations(_AC, k):
            for nb in NB:
                yield {"seqs": seq([S(x) for x in comb], "list"), "neighborhood": py(nb)}
                if k > 1:
                    yield {"seqs": seq([S(x) for x in reversed(comb)], "list"), "neighborhood": py(nb)}
            if k >= 4 and rng.random() < 0.9:
                continue
    while True:
        xs = [rng.choice(["A", "B", "AB", "BA", "AA", "ABC", "CBA", "AAB"]) for _ in range(rng.randint(0, 7))]
        yield {"seqs": seq([S(x) for x in xs], "list"), "neighborhood": py(rng.choice(["prs.distance.hamming_neighbors", "prs.distance.levenshtein_neighbors"]))}


# ---- C09: the TcrLevenshtein family
_TCRLEV = ["AlphaCdr3Levenshtein", "BetaCdr3Levenshtein", "Cdr3Levenshtein", "AlphaCdrLevenshtein", "BetaCdrLevenshtein", "CdrLevenshtein"]
_TRAV = ["TRAV1-1*01", "TRAV12-2*01", "TRAV40*01", "TRAV26-1*01"]
_TRBV = ["TRBV19*01", "TRBV2*01", "TRBV7-2*01", "TRBV28*01"]
_CDR3 = ["CASSF", "CASSLF", "CAVSF", "", "CASSIRSSYEQYF", "CAF"]


def _tcr_metric(rng, cls=None):
    cls = cls or rng.choice(_TCRLEV)
    kw = {"insertion_weight": rng.choice([1, 1, 2]), "deletion_weight": rng.choice([1, 1, 3]), "substitution_weight": rng.choice([1, 2])}
    if cls in ("Cdr3Levenshtein", "CdrLevenshtein"):
        kw.update(alpha_weight=rng.choice([1, 2]), beta_weight=rng.choice([1, 3]))
    if cls.endswith("CdrLevenshtein"):
        kw.update(cdr1_weight=rng.choice([1, 2]), cdr2_weight=rng.choice([1, 3]), cdr3_weight=rng.choice([1, 2]))
    return py(f"prs.metric.tcr_metric.{cls}(**{kw!r})"), cls


def _tcr_table(rng, layout, n, index=True):
    cols = {"TRAV": _TRAV, "TRBV": _TRBV, "CDR3A": _CDR3, "CDR3B": _CDR3, "note": ["x", "y"], "x": ["1"]}
    d = {c: [rng.choice(cols[c]) for _ in range(n)] for c in layout}
    idx = rng.choice([None, list(range(5, 5 + n)), [7] * n]) if index else None
    return py(f"pd.DataFrame({d!r}" + (f", index={idx!r})" if idx is not None else ")"))


@scope("tcrlev_cdist")
def tcrlev_cdist(rng):
    layouts = [["TRAV", "CDR3A", "TRBV", "CDR3B"], ["TRBV", "CDR3B", "note"], ["CDR3A", "TRAV"]]
    for _ in range(400):
        m, cls = _tcr_metric(rng)
        la = rng.choice(layouts + [["x"]])
        rec = {"self": m, "anchors": _tcr_table(rng, la, rng.randint(0, 3)), "comparisons": _tcr_table(rng, rng.choice(layouts), rng.randint(0, 3))}
        if rng.random() < 0.05:
            rec["anchors"] = seq([S("CASSF")], "list")
        yield rec


@scope("tcrlev_pdist")
def tcrlev_pdist(rng):
    layouts = [["TRAV", "CDR3A", "TRBV", "CDR3B"], ["TRBV", "CDR3B", "note"], ["CDR3A", "TRAV"]]
    for _ in range(300):
        m, cls = _tcr_metric(rng)
        yield {"self": m, "instances": _tcr_table(rng, rng.choice(layouts), rng.randint(0, 4))}


# ---- C13
def _grouped_table(rng, extra_key=False, n=None):
    n = rng.randint(2, 9) if n is None else n
    seqs = ["CASSF", "CASSL", "CAVSF", "CASSF", "CATTF", "CASSLF", "CAAAF"]
    d = {"g": [rng.choice(["x", "y", "z"]) for _ in range(n)], "h": [rng.choice(["p", "q"]) for _ in range(n)],
         "a": [rng.choice(seqs) for _ in range(n)], "b": [rng.choice(seqs[:3]) for _ in range(n)]}
    return py(f"pd.DataFrame({d!r})")


@scope("pcdelta_grouped_calls")
def pcdelta_grouped_calls(rng):
    for _ in range(150):
        kw = rng.choice([{}, {"bins": I(0)}, {"bins": py("np.arange(0, 6)")}, {"bins": py("np.arange(0, 8)"), "pseudocount": R(0.5)}])
        yield {"df": _grouped_table(rng), "by": rng.choice([{"t": "const", "v": "g"}, {"t": "const", "v": ["g", "h"]}]),
               "seq_columns": {"t": "const", "v": "a"}, "kwargs": {"t": "dict", "items": kw}}


@scope("pc_conditional_calls")
def pc_conditional_calls(rng):
    for _ in range(300):
        rec = {"df": _grouped_table(rng), "by": rng.choice([{"t": "const", "v": "g"}, {"t": "const", "v": ["g"]}, {"t": "const", "v": ["g", "h"]}]),
               "on": rng.choice([{"t": "const", "v": "a"}, {"t": "const", "v": ["a", "b"]}]), "group_weights": NONE}
        yield rec


@scope("renyi2_calls")
def renyi2_calls(rng):
    for _ in range(200):
        yield {"df": _grouped_table(rng), "features": rng.choice([{"t": "const", "v": "a"}, {"t": "const", "v": ["a", "b"]}]),
               "by": rng.choice([NONE, {"t": "const", "v": "g"}, {"t": "const", "v": ["g"]}]),
               "base": rng.choice([NONE, R(2.0), R(10.0), R(0.5), R(-1.0), R(0.0)]), "kwargs": {"t": "dict", "items": {}}}


@scope("stdrenyi2_calls")
def stdrenyi2_calls(rng):
    for _ in range(200):
        yield {"df": _grouped_table(rng, n=rng.randint(4, 10)), "features": rng.choice([{"t": "const", "v": "a"}, {"t": "const", "v": ["a", "b"]}]),
               "base": rng.choice([NONE, R(2.0), R(10.0), R(-1.0)]), "kwargs": {"t": "dict", "items": {}}}


@scope("grouped_cross_calls")
def grouped_cross_calls(rng):
    for _ in range(300):
        yield {"df": _grouped_table(rng, n=rng.randint(3, 10)), "by": {"t": "const", "v": "g"},
               "on": rng.choice([{"t": "const", "v": "a"}, {"t": "const", "v": ["a", "b"]}])}


@scope("pcdelta_cross_calls")
def pcdelta_cross_calls(rng):
    for _ in range(300):
        yield {"df": _grouped_table(rng, n=rng.randint(4, 10)), "by": {"t": "const", "v": "g"}, "seq_columns": {"t": "const", "v": "a"},
               "condensed": {"t": "const", "v": rng.random() < 0.3}, "kwargs": {"t": "dict", "items": {"bins": I(0)}}}


# ---- C19
@scope("consensus_calls", "regex_calls")
def consensus_calls(rng):
    for _ in range(300):
        L = rng.randint(0, 5)
        n = rng.randint(1, 6)
        seqs = ["".join(rng.choice("ACD") for _ in range(L)) for _ in range(n)]
        yield {"seqs": seq([S(x) for x in seqs], "list"), "align": {"t": "const", "v": False}}


@scope("label_color_calls")
def label_color_calls(rng):
    for _ in range(300):
        n = rng.randint(0, 9)
        labels = [rng.choice(["a", "b", "c", "dd", "e"]) for _ in range(n)]
        yield {"labels": seq([S(x) for x in labels], "list"), "min_count": rng.choice([NONE, I(1), I(2), I(3), I(0)])}


@scope("seqlogos_calls")
def seqlogos_calls(rng):
    BUILD_NS.setdefault("_mpl_agg", __import__("matplotlib").use("Agg"))
    for _ in range(40):
        L = rng.randint(1, 5)
        n = rng.randint(1, 6)
        seqs = ["".join(rng.choice("ACDG") for _ in range(L)) for _ in range(n)]
        yield {"seqs": seq([S(x) for x in seqs], "list"), "ax": NONE, "kwargs": {"t": "dict", "items": {}}}
