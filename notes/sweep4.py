import warnings; warnings.filterwarnings("ignore")
import itertools, random, math, copy, inspect
import numpy as np, pandas as pd
import matplotlib; matplotlib.use("Agg")
import matplotlib.pyplot as plt
import pyrepseq as prs
from pyrepseq import plotting
from pyrepseq.metric import Levenshtein
from scipy.spatial.distance import squareform
import scipy.cluster.hierarchy as hc
bad={}
def note(k,*info):
    if k not in bad: bad[k]=info; print("FAIL",k,repr(info)[:500])
def T(name,f):
    try: return f()
    except Exception as e: note(name+" RAISED", type(e).__name__, str(e)[:200]); return None
rng=random.Random(7)
for _ in range(30):
    data=[rng.choice([1,2,3,5,8,float("nan")]) for _ in range(rng.randint(1,8))]
    clean=[x for x in data if not math.isnan(x)]
    if not clean: continue
    for nx_,ny in itertools.product([True,False],repeat=2):
        fig,ax=plt.subplots()
        r=T("rankfrequency",lambda: plotting.rankfrequency(data,ax=ax,normalize_x=nx_,normalize_y=ny,scalex=2.0,scaley=3.0))
        if r is not None:
            x,y=r[0].get_data(); s=sum(clean)
            ex=sorted([(v/s if nx_ else v)*2.0 for v in clean],reverse=True); ey=[3.0*i/(len(clean) if ny else 1) for i in range(len(clean))]
            if not np.allclose(x,ex) or not np.allclose(y,ey): note("rankfrequency data",data,nx_,ny,list(x),ex)
        plt.close(fig)
for _ in range(50):
    labels=[rng.choice(["a","b","c","d",1,2]) for _ in range(rng.randint(1,9))]
    labels=[str(l) for l in labels] if rng.random()<.5 else [l for l in labels if isinstance(l,str)] or ["a"]
    mc=rng.choice([None,1,2,3])
    for f in (plotting.labels_to_colors_hls,plotting.labels_to_colors_tableau):
        r=T(f.__name__,lambda: f(labels,min_count=mc))
        if r is None: continue
        if len(r)!=len(labels): note(f.__name__+" len")
        col={}
        for l,c in zip(labels,r):
            c=tuple(c)
            if l in col and col[l]!=c: note(f.__name__+" equal labels differ")
            col[l]=c
            if mc is not None and labels.count(l)<mc and c!=(0,0,0): note(f.__name__+" rare not black",labels,mc)
            if (mc is None or labels.count(l)>=mc) and c==(0,0,0): note(f.__name__+" frequent black")
        if f is plotting.labels_to_colors_hls:
            vals=[c for l,c in col.items() if (mc is None or labels.count(l)>=mc)]
            if len(set(vals))!=len(vals): note("hls distinct labels share colour",labels)
    ilab=np.array([rng.randint(1,4) for _ in range(6)])
    r=T("hls int labels",lambda: plotting.labels_to_colors_hls(ilab,min_count=2))
for _ in range(30):
    n=rng.randint(1,10); x=[rng.randint(0,2) for _ in range(n)]; y=[rng.randint(0,2) for _ in range(n)]
    fig,ax=plt.subplots()
    r=T("density_scatter",lambda: plotting.density_scatter(x,y,ax=ax,discrete=True))
    if r is not None:
        pc_=ax.collections[0]; off=[tuple(map(int,o)) for o in pc_.get_offsets()]; z=list(pc_.get_array())
        from collections import Counter
        cnt=Counter(zip(x,y))
        if sorted(off)!=sorted(cnt) or len(off)!=len(set(off)) or any(cnt[o]!=zz for o,zz in zip(off,z)): note("density_scatter",x,y,off,z)
    plt.close(fig)
for _ in range(20):
    L=rng.randint(1,5); seqs=["".join(rng.choice("ACDE") for _ in range(L)) for _ in range(rng.randint(1,6))]
    fig,ax=plt.subplots()
    r=T("seqlogos",lambda: plotting.seqlogos(seqs,ax=ax))
    if r is not None:
        cm=r[1]
        for p in range(L):
            for c in cm.columns:
                if cm.loc[p,c]!=sum(s[p]==c for s in seqs): note("seqlogos counts",seqs)
        if any(sum(s[p]==c for s in seqs)>0 and c not in cm.columns for s in seqs for p in range(L) for c in "ACDE"): note("seqlogos missing col")
    plt.close(fig)
c3=["CAVF","CAAF","CAVVF","CASSF","CAF","CASSLGF","CASSLGFF","CAAAF"]
for trial in range(6):
    n=rng.randint(3,7)
    df=pd.DataFrame(dict(cdr3a=[rng.choice(c3) for _ in range(n)],cdr3b=[rng.choice(c3) for _ in range(n)],meta=[rng.choice("xy") for _ in range(n)]))
    if trial%2: df=df.set_axis(rng.sample(range(50),n))
    kw=[dict(),dict(alpha_column=None),dict(beta_column=None),dict(meta_columns=["meta"])][trial%4]
    dfc=df.copy(deep=True)
    r=T("clustermap "+str(kw)+(" idx" if trial%2 else ""),lambda: plotting.similarity_clustermap(df,**kw))
    if r is not None:
        cg,link,cl=r
        da=Levenshtein().calc_pdist_vector(df["cdr3a"]); db=Levenshtein().calc_pdist_vector(df["cdr3b"])
        if kw.get("alpha_column",1) is None: d=db; lo=up=db
        elif kw.get("beta_column",1) is None: d=da; lo=up=da
        else: d=da+db; lo,up=da,db
        l2=hc.linkage(d,method="average",optimal_ordering=True); c2=hc.fcluster(l2,t=6,criterion="distance")
        if not np.array_equal(link,l2) or not np.array_equal(cl,c2): note("clustermap linkage/cluster")
        order=hc.leaves_list(l2); 
        exp=np.tril(squareform(lo)[np.ix_(order,order)])+np.triu(squareform(up)[np.ix_(order,order)])
        if not np.array_equal(np.asarray(cg.data2d),exp): note("clustermap data2d",kw)
        if list(cg.dendrogram_row.reordered_ind)!=list(order): note("clustermap order")
    if not df.equals(dfc): note("clustermap mutated df")
    plt.close("all")
print("plotting done"); print("FAILURES:",list(bad))
