import warnings; warnings.filterwarnings("ignore")
import itertools, random, sys
import numpy as np
import pyrepseq as prs
from pyrepseq import nn, distance
from functools import lru_cache
@lru_cache(None)
def lev(a,b):
    if not a: return len(b)
    if not b: return len(a)
    return min(lev(a[1:],b)+1, lev(a,b[1:])+1, lev(a[1:],b[1:])+(a[0]!=b[0]))
def ham(a,b): return sum(x!=y for x,y in zip(a,b)) if len(a)==len(b) else float("inf")
def allstr(alpha, maxlen):
    for L in range(maxlen+1):
        for t in itertools.product(alpha, repeat=L): yield "".join(t)
bad = {}
def note(k, *info):
    if k not in bad: bad[k]=info; print("FAIL", k, info)
# C12 generators
for alpha in ["A","AC","ACD"]:
    U = list(allstr(alpha, 5))
    for x in U:
        ys = list(distance.levenshtein_neighbors(x, alpha))
        if len(ys)!=len(set(ys)): note("levnb dup", x, alpha)
        exp = {y for y in allstr(alpha, len(x)+1) if lev(x,y)==1}
        if set(ys)!=exp: note("levnb set", x, alpha, set(ys)^exp)
        hs = list(distance.hamming_neighbors(x, alpha))
        if len(hs)!=len(set(hs)) or set(hs)!={y for y in U if len(y)==len(x) and ham(x,y)==1}: note("hamnb", x, alpha)
    for x in list(allstr(alpha,3)):
        for md in (1,2,3):
            nb = lambda s: distance.levenshtein_neighbors(s, alpha)
            got = distance.next_nearest_neighbors(x, nb, maxdistance=md)
            exp = {y for y in allstr(alpha, len(x)+md) if 0<lev(x,y)<=md}
            if got!=exp: note("nnn", x, alpha, md)
print("C12 gens done")
# C01/C03/C04/C07 exhaustive: all strings up to len 3 over AC (15 strings) in one call + random subsets with dups
for alpha, ml in [("AC",3),("ACD",2)]:
    U = list(allstr(alpha, ml))
    rng = random.Random(1)
    cases = [U] + [[rng.choice(U) for _ in range(rng.randint(1,7))] for _ in range(150)]
    for seqs in cases:
        n=len(seqs)
        for k in (1,2,3):
            exp = sorted((i,j,lev(seqs[i],seqs[j])) for i in range(n) for j in range(n) if i!=j and lev(seqs[i],seqs[j])<=k)
            for name,f in [("symdel",prs.symdel),("nn",prs.nearest_neighbor),("hash",prs.hash_based),("kdtree",prs.kdtree)]:
                if name=="hash" and k==3 and len(seqs)>8: continue
                try: got = sorted((int(a),int(b),int(c)) for a,b,c in f(seqs, max_edits=k))
                except Exception as e: note(f"{name} lev raise", seqs, k, repr(e)); continue
                if got!=exp: note(f"{name} lev", seqs, k, got[:5], exp[:5])
            exph = sorted((i,j,ham(seqs[i],seqs[j])) for i in range(n) for j in range(n) if i!=j and ham(seqs[i],seqs[j])<=k)
            for name,f in [("symdel",prs.symdel),("hash",prs.hash_based),("kdtree",prs.kdtree)]:
                if name=="hash" and k==3 and len(seqs)>8: continue
                try: got = sorted((int(a),int(b),int(c)) for a,b,c in f(seqs, max_edits=k, custom_distance="hamming"))
                except Exception as e: note(f"{name} ham raise", seqs, k, repr(e)); continue
                if got!=exph: note(f"{name} ham", seqs[:8], k, got[:5], exph[:5])
        # two-collection
        q = [rng.choice(U) for _ in range(rng.randint(1,4))]
        for k in (1,2):
            exp = sorted((a,b,lev(q[a],seqs[b])) for a in range(len(q)) for b in range(n) if lev(q[a],seqs[b])<=k)
            got = sorted((int(a),int(b),int(c)) for a,b,c in prs.symdel(seqs, max_edits=k, seqs2=q))
            if got!=exp: note("symdel seqs2", seqs, q, k)
            got = sorted((int(a),int(b),int(c)) for a,b,c in nn.SymdelDB(seqs,k).lookup(q))
            if got!=exp: note("SymdelDB.lookup", seqs, q, k)
            got = sorted((int(a),int(b),int(c)) for a,b,c in nn.LookupDB(seqs).lookup(q, max_edits=k))
            if got!=exp: note("LookupDB.lookup", seqs, q, k, got[:4], exp[:4])
print("search done")
# utilities
U = list(allstr("AC",3))
rng = random.Random(2)
for _ in range(200):
    S = rng.sample(U, rng.randint(1,8))
    for nbname, nbf, d in [("ham", lambda s: distance.hamming_neighbors(s,"AC"), ham), ("lev", lambda s: distance.levenshtein_neighbors(s,"AC"), lev)]:
        got = distance.find_neighbor_pairs(S, nbf)
        exp = {frozenset((a,b)) for a in S for b in S if a!=b and d(a,b)==1}
        if len(got)!=len(exp) or {frozenset(p) for p in got}!=exp: note("find_neighbor_pairs", nbname, S)
        got = distance.find_neighbor_pairs_index(S, nbf)
        exp = sorted((i,j) for i in range(len(S)) for j in range(len(S)) if d(S[i],S[j])==1)
        if sorted(got)!=exp: note("find_neighbor_pairs_index", nbname, S)
        got = distance.calculate_neighbor_numbers(S, neighborhood=nbf)
        if list(got)!=[sum(1 for b in set(S) if d(a,b)==1) for a in S]: note("calc_neighbor_numbers", nbname, S)
        x = rng.choice(U)
        if distance.isdist1(x, set(S), nbf) != any(d(x,b)==1 for b in S): note("isdist1", nbname, x, S)
aa="ACDE"
U4 = list(allstr("AC",4))
for _ in range(300):
    L = rng.randint(1,4); ref = {"".join(rng.choice("ACD") for _ in range(L)) for _ in range(rng.randint(1,4))}
    x = "".join(rng.choice("ACD") for _ in range(L))
    for md in (1,2,3,4):
        got = distance.nndist_hamming(x, ref, maxdist=md); exp = min(min(ham(x,r) for r in ref), md)
        if got!=exp: note("nndist_hamming", x, ref, md, got, exp)
print("utils done"); print("FAILURES:", list(bad))
