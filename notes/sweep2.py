import warnings; warnings.filterwarnings("ignore")
import itertools, random, math, re
from fractions import Fraction as Fr
import numpy as np, pandas as pd
import matplotlib; matplotlib.use("Agg")
import matplotlib.pyplot as plt
import pyrepseq as prs
from pyrepseq import plotting
from functools import lru_cache
@lru_cache(None)
def lev(a,b):
    if not a: return len(b)
    if not b: return len(a)
    return min(lev(a[1:],b)+1, lev(a,b[1:])+1, lev(a[1:],b[1:])+(a[0]!=b[0]))
bad={}
def note(k,*info):
    if k not in bad: bad[k]=info; print("FAIL",k,repr(info)[:500])
def close(a,b): 
    a=float(a); b=float(b)
    return (math.isnan(a) and math.isnan(b)) or abs(a-b)<=1e-9*max(1,abs(a),abs(b))
def T(name,f):
    try: return f()
    except Exception as e: note(name+" RAISED", type(e).__name__, str(e)[:150]); return None
rng=random.Random(3)
def coinc(xs): return sum(1 for i in range(len(xs)) for j in range(len(xs)) if i!=j and xs[i]==xs[j])
def cross(xs,ys): return sum(1 for a in xs for b in ys if a==b)
# pc family
for _ in range(300):
    N=rng.randint(2,7); xs=[rng.choice("abc") for _ in range(N)]; ys=[rng.choice("abcd") for _ in range(rng.randint(1,5))]
    r=T("pc",lambda: prs.pc(xs)); 
    if r is not None and not close(r, Fr(coinc(xs),N*(N-1))): note("pc value",xs,r)
    r=T("pc2",lambda: prs.pc(xs,ys))
    if r is not None and not close(r, Fr(cross(xs,ys),N*len(ys))): note("pc2 value",xs,ys,r)
    cnt=[xs.count(v) for v in set(xs)]
    r=T("pc_n",lambda: prs.pc_n(cnt))
    if r is not None and not close(r, Fr(coinc(xs),N*(N-1))): note("pc_n",cnt,r)
    nums=[rng.choice([1,2,3.5]) for _ in range(N)]
    r=T("pc nums",lambda: prs.pc(nums))
    if r is not None and not close(r, Fr(coinc(nums),N*(N-1))): note("pc nums",nums,r)
    # tables
    ncol=rng.randint(1,4)
    rows=[tuple(rng.choice(["A","AB","B",None,"C"]) if c%2==0 else rng.choice([1,2,12]) for c in range(ncol)) for _ in range(N)]
    df=pd.DataFrame(rows, columns=[f"c{c}" for c in range(ncol)])
    canon=[tuple("" if v is None else v for v in row) for row in rows]
    r=T("pc df",lambda: prs.pc(df))
    if r is not None and not close(r, Fr(coinc(canon),N*(N-1))): note("pc df",rows,r,Fr(coinc(canon),N*(N-1)))
    rows2=[tuple(rng.choice(["A","AB","B","C"]) for c in range(ncol)) for _ in range(N)]
    df2=pd.DataFrame(rows2, columns=[f"c{c}" for c in range(ncol)])
    on=list(df2.columns)
    r=T("pc_joint",lambda: prs.pc_joint(df2,on))
    if r is not None and not close(r, Fr(coinc(rows2),N*(N-1))): note("pc_joint",rows2,r)
    r=T("pc_joint 2",lambda: prs.pc_joint(df2,on,df2.iloc[:2]))
    if r is not None and not close(r, Fr(cross(rows2,rows2[:2]),N*2)): note("pc_joint2",rows2,r)
    r=T("pc tuple",lambda: prs.pc((xs, list(reversed(xs)))))
    pr=list(zip(xs,reversed(xs)))
    if r is not None and not close(r, Fr(coinc(pr),N*(N-1))): note("pc tuple",xs,r)
print("pc done")
# pcDelta
U=["","A","C","AA","AC","CA","CC","AAC","ACC","CCA","AACC"]
for _ in range(200):
    N=rng.randint(2,7); xs=[rng.choice(U) for _ in range(N)]; ys=[rng.choice(U) for _ in range(rng.randint(1,5))]
    bins=sorted(rng.sample(range(0,7),rng.randint(2,5)))
    d1=[lev(xs[i],xs[j]) for i in range(N) for j in range(i+1,N)]
    d2=[lev(a,b) for a in xs for b in ys]
    for (args,dd,nm) in [((xs,),d1,"self"),((xs,ys),d2,"cross")]:
        eh=np.histogram(dd,bins=bins)[0]
        # own histogram to not trust numpy: half-open, last closed
        own=[sum(1 for d in dd if (bins[t]<=d<bins[t+1]) or (t==len(bins)-2 and d==bins[-1])) for t in range(len(bins)-1)]
        r=T("pcDelta raw "+nm,lambda: prs.pcDelta(*args,bins=bins,normalize=False))
        if r is not None and list(r)!=own: note("pcDelta raw "+nm,args,bins,list(r),own)
        tot=sum(own)
        if tot>0:
            r=T("pcDelta norm "+nm,lambda: prs.pcDelta(*args,bins=bins))
            if r is not None and not all(close(a,Fr(b,tot)) for a,b in zip(r,own)): note("pcDelta norm "+nm,args,bins)
            c=rng.choice([0.5,1,2.0])
            r=T("pcDelta pseudo "+nm,lambda: prs.pcDelta(*args,bins=bins,pseudocount=c))
            if r is not None and not all(close(a,(b+c)/(tot+2*c)) for a,b in zip(r,own)): note("pcDelta pseudo "+nm,args,bins,c,list(r))
        r=T("pcDelta bins0 "+nm,lambda: prs.pcDelta(*args,bins=0))
        if r is not None and not close(r, prs.pc(*args)): note("pcDelta bins0 "+nm,args)
    r=T("pcDelta default bins",lambda: prs.pcDelta(xs,normalize=False))
    if r is not None and (len(r)!=24 or r[0]!=coinc(xs)//2): note("pcDelta default bins zero-bin",xs,list(r)[:3],coinc(xs)//2)
    m=rng.randint(0,8)
    r=T("downsample",lambda: prs.downsample(xs,m))
    if r is not None:
        if N<=m: 
            if r is not xs: note("downsample identity",xs,m)
        else:
            from collections import Counter
            if len(r)!=m or (Counter(r)-Counter(xs)): note("downsample subset",xs,m,list(r))
    r=T("pcDelta maxseqs",lambda: prs.pcDelta(xs,bins=[0,1,100],normalize=False,maxseqs=max(2,m)))
    mm=min(N,max(2,m))
    if r is not None and sum(r)!=mm*(mm-1)//2: note("pcDelta maxseqs count",xs,m,list(r))
# TCR tables default metric
tdf=pd.DataFrame(dict(CDR3A=["CAVF","CAAF","CAVVF","CAVF"],CDR3B=["CASF","CASSF","CAF","CASF"]))
for cols,fn in [(["CDR3A","CDR3B"],lambda r,s: lev(r[0],s[0])+lev(r[1],s[1])),(["CDR3A"],lambda r,s: lev(r[0],s[0])),(["CDR3B"],lambda r,s: lev(r[0],s[0]))]:
    sub=tdf[cols]; rows=[tuple(x) for x in sub.values]
    dd=[fn(rows[i],rows[j]) for i in range(4) for j in range(i+1,4)]
    r=T("pcDelta tcr",lambda: prs.pcDelta(sub,bins=np.arange(10),normalize=False))
    if r is not None and list(r)!=list(np.histogram(dd,bins=np.arange(10))[0]): note("pcDelta tcr default",cols,list(r))
    sub2=sub.set_axis([7,3,9,1])
    r2=T("pcDelta tcr idx",lambda: prs.pcDelta(sub2,bins=np.arange(10),normalize=False))
    if r2 is not None and list(r2)!=list(r): note("pcDelta tcr index",cols)
r=T("pcDelta tuple",lambda: prs.pcDelta((list(tdf.CDR3A),list(tdf.CDR3B)),bins=np.arange(10),normalize=False))
print("pcDelta tuple", None if r is None else list(r))
print("pcDelta done")
# grouped / conditional / entropy
for _ in range(150):
    N=rng.randint(3,9)
    df=pd.DataFrame(dict(g=[rng.choice([3,1,2]) for _ in range(N)],h=[rng.choice("xy") for _ in range(N)],s=[rng.choice(["A","C","AA"]) for _ in range(N)],t=[rng.choice(["u","v"]) for _ in range(N)]))
    df=df.set_axis(rng.sample(range(100),N))
    for by in ["g",["g"],["g","h"]]:
        keyf=(lambda r: r["g"]) if by in ("g",["g"]) else (lambda r:(r["g"],r["h"]))
        groups={}
        for _,r in df.iterrows(): groups.setdefault(keyf(r),[]).append(r)
        big={k:v for k,v in groups.items() if len(v)>1}
        for on,val in [("s",lambda r:r["s"]),(["s","t"],lambda r:(r["s"],r["t"]))]:
            exp=float("nan") if sum(len(v) for v in big.values())<2 else sum(Fr(coinc([val(r) for r in v]),len(v)*(len(v)-1)) for v in big.values())/len(big)
            r=T("pc_conditional",lambda: prs.pc_conditional(df,by,on))
            if r is not None and not close(r,exp): note("pc_conditional",by,on,df.to_dict("list"),r,exp)
            if big:
                ks=sorted(big); w=[rng.randint(1,4) for _ in ks]
                expw=sum(Fr(wi*wi,sum(x*x for x in w))*Fr(coinc([val(r) for r in big[k]]),len(big[k])*(len(big[k])-1)) for wi,k in zip(w,ks))
                r=T("pc_conditional w",lambda: prs.pc_conditional(df,by,on,group_weights=w))
                if r is not None and not close(r,expw): note("pc_conditional weights",by,on,df.to_dict("list"),w,r,float(expw))
            if len(groups)>=2:
                r=T("pc_grouped_cross",lambda: prs.pc_grouped_cross(df,by,on))
                if r is not None:
                    ks=sorted(groups)
                    for a in range(len(ks)):
                        for b in range(len(ks)):
                            e=float("nan") if a==b else Fr(cross([val(x) for x in groups[ks[a]]],[val(x) for x in groups[ks[b]]]),len(groups[ks[a]])*len(groups[ks[b]]))
                            if not close(r.values[a,b],e): note("pc_grouped_cross",by,on,df.to_dict("list"))
    # entropy
    for base in [2.0,math.e,10,None]:
        r=T("renyi2",lambda: prs.renyi2_entropy(df,"s",base=base)); p=prs.pc(df["s"])
        if r is not None and p>0 and not close(r,-math.log(p)/(math.log(base) if base else 1)): note("renyi2",base)
        r=T("renyi2 joint",lambda: prs.renyi2_entropy(df,["s","t"],base=base)); p=prs.pc_joint(df,["s","t"])
        if r is not None and p>0 and not close(r,-math.log(p)/(math.log(base) if base else 1)): note("renyi2 joint",base)
        r=T("renyi2 by",lambda: prs.renyi2_entropy(df,"s",by="g",base=base)); p=prs.pc_conditional(df,"g","s")
        if r is not None and p>0 and not close(r,-math.log(p)/(math.log(base) if base else 1)): note("renyi2 by",base)
        if N>=4:
            r=T("stdrenyi2",lambda: prs.stdrenyi2_entropy(df,"s",base=base)); p=prs.pc(df["s"])
            if r is not None and p>0:
                e=prs.stdpc(df["s"])/p/(math.log(base) if base else 1)
                if not close(r,e): note("stdrenyi2",base)
            r=T("stdrenyi2 joint",lambda: prs.stdrenyi2_entropy(df,["s","t"],base=base))
    # pcDelta grouped with edge bins
    bins=np.arange(4)
    r=T("pcDelta_grouped",lambda: prs.pcDelta_grouped(df.groupby("g").filter(lambda x:len(x)>1),"g","s",bins=bins,normalize=False))
    dfg=df.groupby("g").filter(lambda x:len(x)>1)
    if r is not None and len(dfg):
        for k,sub in dfg.groupby("g"):
            if list(r.loc[k])!=list(prs.pcDelta(sub["s"],bins=bins,normalize=False)): note("pcDelta_grouped row",k)
    if df.g.nunique()>=2:
        r=T("pcDelta_grouped_cross cond",lambda: prs.pcDelta_grouped_cross(df,"g","s",condensed=True,bins=bins,normalize=False))
        if r is not None:
            gs=dict(list(df.groupby("g")))
            for (a,b),row in r.iterrows():
                if list(row)!=list(prs.pcDelta(gs[a]["s"],gs[b]["s"],bins=bins,normalize=False)): note("pcDelta_grouped_cross cond row",a,b)
print("grouped done")
# varpc_n unbiasedness spot check (exact enumeration, N=4..6, K=2..3)
def multinomial_enum(N,K):
    if K==1: yield (N,); return
    for a in range(N+1):
        for rest in multinomial_enum(N-a,K-1): yield (a,)+rest
def mcoef(n): 
    r=math.factorial(sum(n))
    for x in n: r//=math.factorial(x)
    return r
for N,K in [(4,2),(5,3),(6,2),(7,3)]:
    p=[Fr(1,7),Fr(2,7),Fr(4,7)][:K]; s=sum(p); p=[x/s for x in p]
    Epc=0;Epc2=0;Evar=0
    for n in multinomial_enum(N,K):
        pr=mcoef(n)*math.prod(pi**ni for pi,ni in zip(p,n))
        arr=np.array(n)
        pcv=Fr(sum(x*(x-1) for x in n),N*(N-1))
        Epc+=pr*pcv;Epc2+=pr*pcv*pcv
        Evar+=float(pr)*float(prs.varpc_n(arr))
    tv=float(Epc2-Epc*Epc)
    if not close(float(Epc),float(sum(x*x for x in p))): note("pc unbiased",N,K)
    if abs(Evar-tv)>1e-9: note("varpc unbiased",N,K,Evar,tv)
print("unbiased done")
# chao etc
for f1,f2 in itertools.product(range(0,6),range(0,5)):
    for extra in ([],[3]):
        for mk in (list,np.array):
            c=mk([f1,f2]+extra); S=f1+f2+sum(extra)
            r=T("chao1",lambda: prs.chao1(c)); e=S+(Fr(f1*f1,2*f2) if f2 else Fr(f1*(f1-1),2))
            if r is not None and not close(r,e): note("chao1",list(c),r)
            r=T("chao2",lambda: prs.chao2(c,3)); e=S+Fr(f1*f1,2*f2) if f2 else float("nan")
            if r is not None and not close(r,e): note("chao2",list(c),r)
            r=T("var_chao1",lambda: prs.var_chao1(c))
            e=float("nan") if f2==0 else f2*(Fr(f1,f2)**2/2+Fr(f1,f2)**3+Fr(f1,f2)**4/4)
            if r is not None and not close(r,e): note("var_chao1",list(c),r,float(e))
            r=T("var_chao2",lambda: prs.var_chao2(c,3))
            if r is not None and not close(r,e): note("var_chao2",list(c),r)
    for mk in (list,np.array):
        c=mk([f1]); r=T("chao1 len1",lambda: prs.chao1(c))
        if r is not None and not close(r,f1+Fr(f1*(f1-1),2)): note("chao1 len1",f1,r)
        r=T("var_chao1 len1",lambda: prs.var_chao1(c))
        r=T("var_chao2 len1",lambda: prs.var_chao2(c,2))
        r=T("chao2 len1",lambda: prs.chao2(c,2))
for _ in range(100):
    A=[rng.choice([1,2,3,None,"a"]) for _ in range(rng.randint(1,5))]; B=[rng.choice([2,3,4,"a",None]) for _ in range(rng.randint(1,5))]
    sa={x for x in A if x is not None}; sb={x for x in B if x is not None}
    for mk in (list,tuple,pd.Series):
        r=T("overlap",lambda: prs.overlap(mk(A),mk(B)))
        if r is not None and r!=len(sa&sb): note("overlap",A,B,r)
        r=T("overlap_coefficient",lambda: prs.overlap_coefficient(mk(A),mk(B)))
        e=float("nan") if not sa or not sb else Fr(len(sa&sb),min(len(sa),len(sb)))
        if r is not None and not close(r,e): note("overlap_coefficient",A,B,r)
    if sa|sb:
        r=T("jaccard series",lambda: prs.jaccard_index(pd.Series(A),pd.Series(B)))
        if r is not None and not close(r,Fr(len(sa&sb),len(sa|sb))): note("jaccard series",A,B,r)
        A2=[x for x in A if x is not None] or [1]; B2=[x for x in B if x is not None] or [1]
        r=T("jaccard list",lambda: prs.jaccard_index(A2,set(B2)))
        if r is not None and not close(r,Fr(len(set(A2)&set(B2)),len(set(A2)|set(B2)))): note("jaccard list",A2,B2,r)
print("estimators done")
# subsample / powerlaw
for _ in range(200):
    c=[rng.randint(0,4) for _ in range(rng.randint(1,5))]; tot=sum(c); n=rng.randint(0,tot+1)
    np.random.seed(rng.randint(0,10**6))
    try:
        idx,cnt=prs.subsample(c,n)
        if n>tot: note("subsample accepted n>total",c,n)
        elif sum(cnt)!=n or list(idx)!=sorted(set(idx)) or any(k<=0 for k in cnt) or any(cnt[t]>c[idx[t]] for t in range(len(idx))): note("subsample",c,n,list(idx),list(cnt))
    except ValueError as e:
        if n<=tot: note("subsample raised",c,n,str(e)[:80])
    except Exception as e: note("subsample other",c,n,repr(e)[:100])
for xmin in (1,2,5):
    for alpha in (1.5,2.0,3.7):
        r=prs.powerlaw_sample(size=500,xmin=xmin,alpha=alpha)
        if len(r)!=500 or (r<xmin).any() or (r!=np.floor(r)).any(): note("powerlaw_sample",xmin,alpha)
c=np.array([1,1,2,3,5,8,1,2,13,4]); 
for cmin in (1,2):
    cc=c[c>=cmin]
    if not close(prs.powerlaw_mle_alpha(c,cmin,method="simple"),1+len(cc)/np.sum(np.log(cc/cmin))): note("mle simple")
    if not close(prs.powerlaw_mle_alpha(c,cmin,method="continuitycorrection"),1+len(cc)/np.sum(np.log(cc/(cmin-0.5)))): note("mle cc")
    a=T("mle exact",lambda: prs.powerlaw_mle_alpha(c,cmin,method="exact"))
    print("mle exact",cmin,a)
T("mle bad",lambda: (_ for _ in ()).throw(AssertionError("no raise")) if not isinstance(prs.powerlaw_mle_alpha, object) else None)
try: prs.powerlaw_mle_alpha(c,method="zzz"); note("mle bad method accepted")
except ValueError: pass
print("resampling done"); print("FAILURES:",list(bad))
