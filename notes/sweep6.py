import warnings; warnings.filterwarnings("ignore")
import numpy as np, random, itertools
import pyrepseq as prs
from rapidfuzz.distance.Levenshtein import distance as lev
bad={}
def note(k,*info):
    if k not in bad: bad[k]=info; print("FAIL",k,repr(info)[:400])
rng=random.Random(11)
AA="ACDEFGHIKLMNPQRSTVWY"
def mut(s):
    s=list(s); op=rng.choice("sid")
    p=rng.randrange(len(s)+1)
    if op=="s" and s: s[min(p,len(s)-1)]=rng.choice(AA)
    elif op=="i": s.insert(p,rng.choice(AA))
    elif s: del s[min(p,len(s)-1)]
    return "".join(s)
for trial in range(25):
    base=["".join(rng.choice(AA) for _ in range(rng.randint(0,8))) for _ in range(3)]
    seqs=[]
    for _ in range(rng.randint(1,12)):
        s=rng.choice(base)
        for _ in range(rng.randint(0,3)): s=mut(s)
        seqs.append(s)
    n=len(seqs)
    for k in (1,2,3):
        ref=sorted(prs.kdtree(seqs,max_edits=k))
        exp=sorted((i,j,lev(seqs[i],seqs[j])) for i in range(n) for j in range(n) if i!=j and lev(seqs[i],seqs[j])<=k)
        if [tuple(map(int,t)) for t in ref]!=exp: note("kdtree base",seqs,k)
        for ncpu in (2,3,5,16):
            if ncpu>n: continue
            for comp in (1,2,7,20,25):
                got=sorted(prs.kdtree(seqs,max_edits=k,n_cpu=ncpu,compression=comp))
                if got!=ref: note("kdtree config",seqs,k,ncpu,comp)
        cd=lambda a,b: abs(len(a)-len(b))+0.5*lev(a,b)
        refc=sorted(prs.kdtree(seqs,max_edits=k,custom_distance=cd,max_custom_distance=2.0))
        expc=sorted((i,j,cd(seqs[i],seqs[j])) for i in range(n) for j in range(n) if i!=j and lev(seqs[i],seqs[j])<=k and cd(seqs[i],seqs[j])<=2.0)
        if refc!=expc: note("kdtree custom",seqs,k)
        if n>=2:
            got=sorted(prs.kdtree(seqs,max_edits=k,custom_distance=cd,max_custom_distance=2.0,n_cpu=2,compression=3))
            if got!=refc: note("kdtree custom parallel",seqs,k)
        for m in (1,2):
            got=prs.kdtree(seqs,max_edits=k,max_returns=m,n_cpu=min(2,n))
            for i in range(n):
                mine=[t for t in got if t[0]==i]; true=[t for t in exp if t[0]==i]
                if len(mine)!=min(m,len(true)) or any(tuple(map(int,t)) not in true for t in mine): note("max_returns count/true",seqs,k,m,i)
                elif mine and any(t[2]<max(x[2] for x in mine) and tuple(t) not in [tuple(map(int,x)) for x in mine] for t in true): note("max_returns closer omitted",seqs,k,m,i)
print("FAILURES:",list(bad))
