import warnings; warnings.filterwarnings("ignore")
import itertools, random, math, re, copy
import numpy as np, pandas as pd
import matplotlib; matplotlib.use("Agg")
import matplotlib.pyplot as plt
import pyrepseq as prs
from pyrepseq import plotting
from pyrepseq.metric import Levenshtein, WeightedLevenshtein
from pyrepseq.metric.tcr_metric import *
from scipy.spatial.distance import squareform
import scipy.cluster.hierarchy as hc
from functools import lru_cache
bad={}
def note(k,*info):
    if k not in bad: bad[k]=info; print("FAIL",k,repr(info)[:500])
def T(name,f):
    try: return f()
    except Exception as e: note(name+" RAISED", type(e).__name__, str(e)[:150]); return None
rng=random.Random(5)
def wlev(a,b,wi,wd,ws):
    D=[[0]*(len(b)+1) for _ in range(len(a)+1)]
    for i in range(1,len(a)+1): D[i][0]=i*wd
    for j in range(1,len(b)+1): D[0][j]=j*wi
    for i in range(1,len(a)+1):
        for j in range(1,len(b)+1):
            D[i][j]=min(D[i-1][j]+wd,D[i][j-1]+wi,D[i-1][j-1]+(0 if a[i-1]==b[j-1] else ws))
    return D[-1][-1]
U=["","A","C","AA","AC","CA","CCA","ACCA","CACAC","AAAAAA"]
for _ in range(150):
    A=[rng.choice(U) for _ in range(rng.randint(1,5))]; B=[rng.choice(U) for _ in range(rng.randint(1,5))]
    wi,wd,ws=[rng.randint(1,4) for _ in range(3)]
    for mk in (list,np.array,lambda x: pd.Series(x,index=rng.sample(range(50),len(x)))):
        M=T("WLev cdist",lambda: WeightedLevenshtein(wi,wd,ws).calc_cdist_matrix(mk(A),mk(B)))
        if M is not None and [[int(v) for v in row] for row in M]!=[[wlev(a,b,wi,wd,ws) for b in B] for a in A]: note("WLev cdist",A,B,(wi,wd,ws))
        X=mk(A)
        v=T("WLev pdist",lambda: WeightedLevenshtein(wi,wd,ws).calc_pdist_vector(X))
        if v is not None and [int(x) for x in v]!=[wlev(A[i],A[j],wi,wd,ws) for i in range(len(A)) for j in range(i+1,len(A))]: note("WLev pdist",A,(wi,wd,ws),list(v))
    M=T("Lev",lambda: Levenshtein().calc_cdist_matrix(A,B))
    if M is not None and M.tolist()!=[[wlev(a,b,1,1,1) for b in B] for a in A]: note("Lev cdist",A,B)
    v=T("prs.pdist",lambda: prs.pdist(A)); 
    if v is not None and list(v)!=[wlev(A[i],A[j],1,1,1) for i in range(len(A)) for j in range(i+1,len(A))]: note("prs.pdist",A)
    v=T("prs.pdist kw",lambda: prs.pdist(A,metric=lambda a,b,w=1:w*abs(len(a)-len(b)),w=3,dtype=int))
    if v is not None and list(v)!=[3*abs(len(A[i])-len(A[j])) for i in range(len(A)) for j in range(i+1,len(A))]: note("prs.pdist kw",A)
    M=T("prs.cdist",lambda: prs.cdist(A,B,metric=lambda a,b,w=1:w*(len(a)-len(b)),w=2,dtype=int))
    if M is not None and M.tolist()!=[[2*(len(a)-len(b)) for b in B] for a in A]: note("prs.cdist",A,B)
print("string metrics done")
# TCR metrics
import tidytcells as tt
travs=["TRAV1-1*01","TRAV1-2*01","TRAV12-1*01","TRAV38-1*01"]; trbvs=["TRBV2*01","TRBV3-1*01","TRBV20-1*01","TRBV6-1*01"]
def cdr(v,loop):
    d=tt.tr.get_aa_sequence(v); return d.get(loop,"")
c3=["CAVF","CAAF","CAVVF","CASSF","CAF","CASSLGF"]
for _ in range(40):
    def mkdf(n): 
        return pd.DataFrame(dict(TRAV=[rng.choice(travs) for _ in range(n)],CDR3A=[rng.choice(c3) for _ in range(n)],TRAJ=["TRAJ1*01"]*n,TRBV=[rng.choice(trbvs) for _ in range(n)],CDR3B=[rng.choice(c3) for _ in range(n)],TRBJ=["TRBJ1-1*01"]*n)).set_axis(rng.sample(range(99),n))
    X=mkdf(rng.randint(1,4)); Y=mkdf(rng.randint(1,4))
    w=dict(insertion_weight=rng.randint(1,3),deletion_weight=rng.randint(1,3),substitution_weight=rng.randint(1,3))
    aw,bw,w1,w2,w3=[rng.randint(1,4) for _ in range(5)]
    def loops(r,chain,allc):
        v=r["TRAV"] if chain=="A" else r["TRBV"]
        out=[(r["CDR3"+chain],3)]
        if allc: out+= [(cdr(v,"CDR1-IMGT"),1),(cdr(v,"CDR2-IMGT"),2)]
        return out
    def expect(chains,allc,aw=1,bw=1,lw={1:1,2:1,3:1}):
        return [[sum((aw if ch=="A" else bw)*lw[l]*wlev(sa,sb,w["insertion_weight"],w["deletion_weight"],w["substitution_weight"]) for ch in chains for (sa,l),(sb,_) in zip(loops(rx,ch,allc),loops(ry,ch,allc))) for _,ry in Y.iterrows()] for _,rx in X.iterrows()]
    specs=[(AlphaCdr3Levenshtein(**w),"A",False,{}),(BetaCdr3Levenshtein(**w),"B",False,{}),(Cdr3Levenshtein(**w,alpha_weight=aw,beta_weight=bw),"AB",False,dict(aw=aw,bw=bw)),
           (AlphaCdrLevenshtein(**w,cdr1_weight=w1,cdr2_weight=w2,cdr3_weight=w3),"A",True,dict(lw={1:w1,2:w2,3:w3})),(BetaCdrLevenshtein(**w,cdr1_weight=w1,cdr2_weight=w2,cdr3_weight=w3),"B",True,dict(lw={1:w1,2:w2,3:w3}))]
    Xc,Yc=X.copy(),Y.copy()
    for m,ch,allc,kw in specs:
        M=T("tcr "+m.name,lambda: m.calc_cdist_matrix(X,Y))
        if M is not None and [[int(v) for v in r] for r in M]!=expect(ch,allc,**kw): note("tcr "+m.name,w,kw)
        v=T("tcr pdist "+m.name,lambda: m.calc_pdist_vector(X))
    if not X.equals(Xc) or not Y.equals(Yc): note("tcr mutated input")
m=T("CdrLev ctor",lambda: CdrLevenshtein(alpha_weight=2))
print("CdrLevenshtein(alpha_weight=2):", m)
for badin in [[1,2],pd.DataFrame(dict(x=[1])),None,"abc"]:
    try: Cdr3Levenshtein().calc_cdist_matrix(badin,badin); note("tcr accepted non-table",badin)
    except ValueError: pass
    except Exception as e: note("tcr non-table wrong exc",type(e).__name__)
    try: Cdr3Levenshtein().calc_pdist_vector(badin); note("tcr pdist accepted non-table",badin)
    except ValueError: pass
    except Exception as e: note("tcr pdist non-table wrong exc",type(e).__name__)
print("tcr metrics done")
# clustering

class _G:
    def __init__(s): s.n=set(); s.e=[]
    def add_nodes_from(s,it): s.n|=set(it)
    def add_edges_from(s,it): s.e+=list(it)
class nx:
    Graph=_G
    @staticmethod
    def connected_components(G):
        p={v:v for v in G.n}
        def f(x):
            while p[x]!=x: p[x]=p[p[x]]; x=p[x]
            return x
        for a,b in G.e: p[f(a)]=f(b)
        out={}
        for v in G.n: out.setdefault(f(v),set()).add(v)
        return list(out.values())
S=["","A","C","AA","AC","CA","CC","AAC","ACC","CCA","AACC","GGGG","GGGT"]
for _ in range(100):
    seqs=[rng.choice(S) for _ in range(rng.randint(2,9))]
    for k in (1,2):
        nbrs=prs.symdel(seqs,max_edits=k)
        if not nbrs: continue
        nodes=pd.Series(seqs,index=rng.sample(range(99),len(seqs))) if rng.random()<.5 else seqs
        cdf=T("graph_clustering",lambda: prs.graph_clustering(nbrs,nodes))
        G=nx.Graph(); G.add_nodes_from(range(len(seqs))); G.add_edges_from((a,b) for a,b,_ in nbrs)
        comps=[c for c in nx.connected_components(G) if len(c)>1]
        if cdf is not None:
            got={}
            for pos,(lab,cl) in enumerate(zip(cdf["node"],cdf["cluster"])): got.setdefault(cl,[]).append(lab)
            exp=sorted(sorted(seqs[i] for i in c) for c in comps)
            if sorted(sorted(v) for v in got.values())!=exp: note("graph_clustering cc",seqs,k)
            if isinstance(nodes,pd.Series) and not set(cdf.index)<=set(nodes.index): note("graph_clustering index")
        for meth in ("multilevel","fastgreedy","leiden"):
            cdf=T("graph_clustering "+meth,lambda: prs.graph_clustering(nbrs,seqs,clustering=meth))
            if cdf is not None:
                comp_of={i:ci for ci,c in enumerate(nx.connected_components(G)) for i in c}
                for cl,sub in cdf.groupby("cluster"):
                    if len({comp_of[i] for i in sub.index})>1: note("community merges components",meth,seqs)
        # hierarchical single linkage == components
        if len(seqs)>=2:
            r=T("hier",lambda: prs.hierarchical_clustering(seqs,linkage_kws=dict(method="single"),cluster_kws=dict(t=k,criterion="distance")))
            if r is not None:
                link,cl=r
                part=sorted(sorted(np.where(cl==c)[0].tolist()) for c in set(cl))
                if part!=sorted(sorted(c) for c in nx.connected_components(G)): note("single linkage != components",seqs,k)
            r=T("hier default",lambda: prs.hierarchical_clustering(seqs))
            if r is not None:
                d=Levenshtein().calc_pdist_vector(seqs); l2=hc.linkage(d,method="average",optimal_ordering=True)
                if not np.array_equal(r[0],l2) or not np.array_equal(r[1],hc.fcluster(l2,t=6,criterion="distance")): note("hier default != scipy")
print("clustering done")
# io
objs=["","ACD","acd","CASSF","CASS","AXC","C","CF","CW","CC","FC",None,float("nan"),5,5.0,b"CF",b"",[],["C","F"],("C","A","F"),{"C"},{"C":1},set(),object(),True,np.nan,pd.NA,np.str_("CAF"),range(3)]
AA=set("ACDEFGHIKLMNPQRSTVWY")
for o in objs:
    for f in (prs.isvalidaa,prs.isvalidcdr3):
        try:
            r=f(o)
            if not isinstance(r,(bool,np.bool_)): note(f.__name__+" nonbool",repr(o),repr(r))
            if isinstance(o,str):
                e=all(c in AA for c in o)
                if f is prs.isvalidcdr3: e=e and len(o)>0 and o[0]=="C" and o[-1] in "FWC"
                if bool(r)!=e: note(f.__name__+" value",o,r)
            elif o is None or isinstance(o,(int,float)) and not isinstance(o,bool):
                if r: note(f.__name__+" true on missing/number",repr(o))
        except Exception as e: note(f.__name__+" raised on "+repr(o)[:30],type(e).__name__)
df=pd.DataFrame(dict(TRAV=["av26.1*1","TRAV20*01",None,"junk"],CDR3A=["CIVRAPGRADMRF","CAVPSGAGSYQLTF",np.nan,"xx"],TRBV=["bv13*1","TRBV28*01","TRBV7-2*01",None],CDR3B=["CASSYLPGQGDHYSNQPQHF","ASSLG",None,"CASSF"],Epitope=["FLKEKGGL","not an epitope",None,"GILG"],MHCA=["b8","HLA-A*02",None,"zzz"],extra=[1,2,3,4])).set_axis([9,3,7,1])
dfc=df.copy(deep=True)
r=T("std False",lambda: prs.standardize_dataframe(df,standardize=False))
if r is not None and (not r.equals(df) or r is df): note("std False not equal copy")
r=T("std True",lambda: prs.standardize_dataframe(df,suppress_warnings=True))
if not df.equals(dfc): note("standardize mutated input")
if r is not None:
    if list(r.index)!=list(df.index) or list(r.columns)!=list(df.columns) or not r["extra"].equals(df["extra"]): note("std shape/index/extra")
    # cell locality: standardize each row alone and compare
    for pos in range(len(df)):
        one=prs.standardize_dataframe(df.iloc[[pos]],suppress_warnings=True)
        a=r.iloc[[pos]].astype(object).where(r.iloc[[pos]].notna(),None); b=one.astype(object).where(one.notna(),None)
        if not a.equals(b): note("std not row-local",pos)
    print(r.to_string())
r=T("std mapper",lambda: prs.standardize_dataframe(df.rename(columns=dict(TRAV="foo")),col_mapper=dict(foo="TRAV"),standardize=False))
if r is not None and not r.equals(df): note("std col_mapper")
a=pd.DataFrame(dict(k=[1,2,3],x=[10,20,30])); b=pd.DataFrame(dict(k=[2,3,4],y=[1,2,3])); c=pd.DataFrame(dict(k=[3,4,5],z=[7,8,9]))
r=T("multimerge col",lambda: prs.multimerge([a,b,c],"k")); print(r)
r=T("multimerge suffix",lambda: prs.multimerge([a,b,c],"k",suffixes=["a","b","c"])); print(r)
r=T("multimerge index",lambda: prs.multimerge([a.set_index("k"),b.set_index("k")],"index",how="inner")); print(r)
print("io done")
# util
for _ in range(100):
    L=rng.randint(1,5); seqs=["".join(rng.choice("ACD") for _ in range(L)) for _ in range(rng.randint(1,6))]
    rx=T("regex",lambda: prs.seqs_to_regex(seqs,align=False))
    if rx is not None:
        for s in seqs:
            if not re.fullmatch(rx,s): note("regex no match",seqs,rx)
        allowed=[{s[p] for s in seqs} for p in range(L)]
        for t in itertools.product("ACD",repeat=L):
            t="".join(t); e=all(t[p] in allowed[p] for p in range(L))
            if bool(re.fullmatch(rx,t))!=e: note("regex language",seqs,rx,t)
    cs=T("consensus",lambda: prs.seqs_to_consensus(seqs,align=False))
    if cs is not None:
        if len(cs)!=L or any(sum(s[p]==cs[p] for s in seqs)!=max(sum(s[p]==c for s in seqs) for c in "ACD") for p in range(L)): note("consensus",seqs,cs)
print("util done"); print("FAILURES:",list(bad))
