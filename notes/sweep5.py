import warnings; warnings.filterwarnings("ignore")
import numpy as np, pandas as pd, itertools, random
import pyrepseq as prs
from pyrepseq import nn
bad={}
def note(k,*info):
    if k not in bad: bad[k]=info; print("FAIL",k,repr(info)[:400])
seqs=["AAA","AAC","CCC","AAA","AA"]
engines=[("symdel",prs.symdel),("nn",prs.nearest_neighbor),("hash",prs.hash_based),("kdtree",prs.kdtree)]
invalid=[("empty",dict(seqs=[])),("nonstr",dict(seqs=["AAA",5])),("nonstr None",dict(seqs=["AAA",None])),("notiter",dict(seqs=5)),("k0",dict(max_edits=0)),("kneg",dict(max_edits=-1)),("kfloat",dict(max_edits=1.0)),("kstr",dict(max_edits="1")),("kbool",dict(max_edits=True)),
         ("ncpu0",dict(n_cpu=0)),("ncpu float",dict(n_cpu=1.5)),("otype",dict(output_type="dense")),("maxret0",dict(max_returns=0)),("maxcust neg",dict(max_custom_distance=-1)),("custom not callable",dict(custom_distance="levenshtein"))]
for en,f in engines:
    for name,kw in invalid:
        args=dict(seqs=seqs); args.update(kw)
        try:
            r=f(**args); note(f"{en} accepted {name}",repr(r)[:80])
        except AssertionError: pass
        except Exception as e: print(f"  {en} {name}: {type(e).__name__} {str(e)[:60]}")
    if en in ("symdel","nn"):
        for name,s2 in [("seqs2 nonstr",["AAA",3]),("seqs2 int",7)]:
            try: f(seqs,seqs2=s2); note(f"{en} accepted {name}")
            except AssertionError: pass
            except Exception as e: print(f"  {en} {name}: {type(e).__name__}")
# matrices vs triplets, containers
rng=random.Random(1)
U=["","A","C","AA","AC","CA","CC","AAC"]
for _ in range(60):
    s=[rng.choice(U) for _ in range(rng.randint(1,6))]; q=[rng.choice(U) for _ in range(rng.randint(1,4))]
    for en,f in engines:
        for mode in (None,"hamming"):
            if en=="kdtree" and mode=="hamming": continue  # known D4
            kw=dict(max_edits=2,custom_distance=mode)
            t=f(s,**kw)
            for ot in ("coo_matrix","ndarray"):
                M=f(s,output_type=ot,**kw); M=M.toarray() if ot=="coo_matrix" else M
                E=np.zeros((len(s),len(s)))
                for a,b,d in t: E[b,a]+=d
                if M.shape!=E.shape or not np.array_equal(M,E) or len({(a,b) for a,b,_ in t})!=len(t): note(f"{en} matrix {ot}",s,mode)
            for cname,c in [("tuple",tuple(s)),("ndarray",np.array(s)),("series",pd.Series(s))]:
                if en in("hash","kdtree") and cname=="tuple": pass
                try:
                    t2=f(c,**kw)
                    if sorted(map(tuple,t2))!=sorted(map(tuple,t)): note(f"{en} container {cname}",s,mode)
                except Exception as e: note(f"{en} container {cname} raised",type(e).__name__,str(e)[:80],s)
    t=prs.symdel(s,seqs2=q,max_edits=2)
    M=prs.symdel(s,seqs2=q,max_edits=2,output_type="ndarray")
    E=np.zeros((len(s),len(q)))
    for a,b,d in t: E[b,a]+=d
    if M.shape!=E.shape or not np.array_equal(M,E): note("symdel seqs2 matrix",s,q)
print("FAILURES:",list(bad))
