# C18 -- standardize_dataframe and multimerge (pyrepseq/io.py).  Tables have concretely named columns (three column layouts are
# enumerated: all nine standard columns plus an extra one; misnamed columns to be renamed; a partial table), any number of rows,
# string cells with '' standing for a missing cell.  tidytcells' standardisers are uninterpreted functions of (cell, options).

@predicate
def src_table(df, df_old):
    return df if df is not None else df_old


@predicate
def newname(c, col_mapper):
    return col_mapper[c] if (col_mapper is not None and c in col_mapper) else c


@predicate
def std_cell(col, x, species, enforce, tprec, mprec, strict):
    # documented cell-wise cleaning: missing stays missing; CDR3s by tt.junction, V/J genes by tt.tr, MHC genes by tt.mh,
    # epitopes by tt.aa (kept on failure); any other column untouched
    return ("" if x == "" else
            tt_junction(x, strict) if (col == "CDR3A" or col == "CDR3B") else
            tt_tr(x, species, enforce, tprec) if (col == "TRAV" or col == "TRAJ" or col == "TRBV" or col == "TRBJ") else
            tt_mh(x, species, mprec) if (col == "MHCA" or col == "MHCB") else
            tt_aa_keep(x) if col == "Epitope" else x)


@contract("pyrepseq.io.standardize_dataframe", props=["C18"], scope="standardize_calls")
def standardize_dataframe(df: OneOf(NoneType,
                                    TableT(["TRAV", "CDR3A", "TRAJ", "extra", "TRBV", "CDR3B", "TRBJ", "Epitope", "MHCA", "MHCB"]),
                                    TableT(["v", "cdr3", "TRBJ", "note", "epi"]),
                                    TableT(["CDR3A", "Epitope", "MHCA"])),
                          col_mapper: OneOf(NoneType, Const({"v": "TRBV", "cdr3": "CDR3B", "epi": "Epitope"})),
                          standardize: Bool, species: Str, tcr_enforce_functional: Bool, tcr_precision: Str, mhc_precision: Str,
                          strict_cdr3_standardization: Bool, suppress_warnings: Bool,
                          df_old: OneOf(NoneType, TableT(["CDR3B", "x"]))):
    raises("ValueError", when=(df is None) == (df_old is None))
    ensures(is_new_object(result, src_table(df, df_old)), name="post[a new table]")
    ensures(len(result) == len(src_table(df, df_old)) and same_index(result, src_table(df, df_old)), name="post[rows and index kept]")
    ensures(column_names(result) == [newname(c, col_mapper) for c in column_names(src_table(df, df_old))],
            name="post[columns kept in order, renamed by col_mapper]")
    ensures(all([forall(TInt, lambda i: implies(
        0 <= i and i < len(result),
        table_cell(result, newname(c, col_mapper), i) == (
            std_cell(newname(c, col_mapper), table_cell(src_table(df, df_old), c, i), species, tcr_enforce_functional, tcr_precision,
                     mhc_precision, strict_cdr3_standardization) if standardize else table_cell(src_table(df, df_old), c, i))))
        for c in column_names(src_table(df, df_old))]), name="post[every cell cleaned independently; other columns untouched]")
    canary(all([forall(TInt, lambda i: implies(0 <= i and i < len(result),
                                               table_cell(result, newname(c, col_mapper), i) == table_cell(src_table(df, df_old), c, i)))
                for c in column_names(src_table(df, df_old))]), name="never standardises")


# ---- multimerge: term level -- WHICH pandas join is applied to WHAT in WHICH order (pandas.merge itself is an assumed, opaque
# deterministic function of (left, right, how, on, left_index, right_index), bound like Python binds its real signature)

@predicate
def join_how(kwargs):
    return kwargs["how"] if "how" in kwargs else "outer"


@predicate
def keyed(df, on, suffix):
    # per-table suffixes: the key column becomes the index (so that it is not suffixed), every other column gets _<suffix>
    return (df if on == "index" else df.set_index(on)).add_suffix("_" + suffix)


@contract("pyrepseq.io.multimerge", props=["C18"], scope="multimerge_calls")
def multimerge(dfs: OneOf(ListT(Obj("DataFrame"), Obj("DataFrame")), ListT(Obj("DataFrame"), Obj("DataFrame"), Obj("DataFrame")),
                          ListT(Obj("DataFrame"), Obj("DataFrame"), Obj("DataFrame"), Obj("DataFrame"))),
               on: OneOf(Const("index"), Str),
               suffixes: OneOf(NoneType, ListT(Str, Str), ListT(Str, Str, Str), ListT(Str, Str, Str, Str)),
               kwargs: OneOf(KwargsT(), KwargsT(how=Str))):
    requires(suffixes is None or len(suffixes) == len(dfs))
    # pandas refuses a join that would create duplicate column names: without per-table suffixes the tables' other columns are
    # pairwise distinct, and the key is a column of every table (or, for on="index", their index)
    requires(joinable(dfs, on, suffixes))
    raises(None)
    # the left-to-right join of all tables on the key: the index, or the named column
    ensures(implies(suffixes is None and on == "index",
                    same_value(result, fold_left(lambda l, r: pd.merge(l, r, left_index=True, right_index=True, how=join_how(kwargs)), dfs))),
            name="post[join on the index]")
    ensures(implies(suffixes is None and on != "index",
                    same_value(result, fold_left(lambda l, r: pd.merge(l, r, on=on, how=join_how(kwargs)), dfs))),
            name="post[join on the named column]")
    ensures(implies(suffixes is not None,
                    same_value(result, fold_left(lambda l, r: pd.merge(l, r, left_index=True, right_index=True, how=join_how(kwargs)),
                                                 [keyed(d, on, s) for d, s in zip(dfs, suffixes)]))),
            name="post[per-table suffixes, joined on the key]")
