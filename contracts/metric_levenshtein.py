# C08 -- string metric classes (pyrepseq/metric/levenshtein.py)

@contract("pyrepseq.metric.levenshtein.WeightedLevenshtein.__init__", props=["C08"], scope="wlev_init")
def WeightedLevenshtein__init__(self: Inst("WeightedLevenshtein"), insertion_weight: Pos, deletion_weight: Pos, substitution_weight: Pos):
    raises(None)
    # the scorer is the weighted edit distance with the weights in rapidfuzz's (insertion, deletion, substitution) order
    ensures(forall(TStr, TStr, lambda a, b: apply2(self._scorer, a, b) == wlev(a, b, insertion_weight, deletion_weight, substitution_weight)),
            name="post[scorer = weighted Levenshtein]")
    sets("_scorer", wlev_scorer(insertion_weight, deletion_weight, substitution_weight), assume_only=True)


@contract("pyrepseq.metric.levenshtein.WeightedLevenshtein.calc_cdist_matrix", props=["C08", "C05"], scope="wlev_cdist")
def WeightedLevenshtein_calc_cdist_matrix(self: Inst("WeightedLevenshtein", _scorer=FnT(Str, Str, returns=Int)),
                                          anchors: OneOf(Seq(Str, "list"), Seq(Str, "ndarray"), SeriesT(Str, "int")),
                                          comparisons: OneOf(Seq(Str, "list"), SeriesT(Str, "int"))):
    raises(None)
    ensures(shape2(result) == (len(anchors), len(comparisons)), name="post[shape]")
    ensures(forall(TInt, TInt, lambda i, j: implies(0 <= i and i < len(anchors) and 0 <= j and j < len(comparisons),
                                                    cell(result, i, j) == apply2(self._scorer, anchors[i], comparisons[j]))),
            name="post[M[i,j] = scorer(anchor i -> comparison j)]")
    returns(scorer_matrix(self._scorer, anchors, comparisons), assume_only=True)


@contract("pyrepseq.metric.levenshtein.WeightedLevenshtein.calc_pdist_vector", props=["C08", "C05", "C15"], scope="wlev_pdist")
def WeightedLevenshtein_calc_pdist_vector(self: Inst("WeightedLevenshtein", _scorer=FnT(Str, Str, returns=Int)),
                                          instances: OneOf(Seq(Str, "list"), Seq(Str, "ndarray"), SeriesT(Str, "int"))):
    raises(None)
    ensures(len(result) == (len(instances) * (len(instances) - 1)) // 2, name="post[length]")
    ensures(forall(TInt, TInt, lambda i, j: implies(
        0 <= i and i < j and j < len(instances),
        result[condidx(len(instances), i, j)] == apply2(self._scorer, instances[i], instances[j]))),
            name="post[condensed: distance from X[i] to X[j] at the SciPy index]")
    returns(condensed_scores(self._scorer, instances), assume_only=True)


@contract("pyrepseq.metric.levenshtein.Levenshtein.__init__", props=["C08"], scope="lev_init")
def Levenshtein__init__(self: Inst("Levenshtein")):
    raises(None)
    ensures(forall(TStr, TStr, lambda a, b: apply2(self._weighted_levenshtein._scorer, a, b) == lev(a, b)),
            name="post[unit weights = Levenshtein distance]")
    sets("_weighted_levenshtein", unit_weighted(), assume_only=True)


@contract("pyrepseq.metric.levenshtein.Levenshtein.calc_cdist_matrix", props=["C08", "C05"], scope="lev_cdist")
def Levenshtein_calc_cdist_matrix(self: Inst("Levenshtein", _weighted_levenshtein=Inst("WeightedLevenshtein", _scorer=FnT(Str, Str, returns=Int))),
                                  anchors: OneOf(Seq(Str, "list"), SeriesT(Str, "int")), comparisons: OneOf(Seq(Str, "list"), SeriesT(Str, "int"))):
    raises(None)
    delegates("pyrepseq.metric.levenshtein.WeightedLevenshtein.calc_cdist_matrix", self=self._weighted_levenshtein,
              anchors=anchors, comparisons=comparisons)


@contract("pyrepseq.metric.levenshtein.Levenshtein.calc_pdist_vector", props=["C08", "C05", "C15"], scope="lev_pdist")
def Levenshtein_calc_pdist_vector(self: Inst("Levenshtein", _weighted_levenshtein=Inst("WeightedLevenshtein", _scorer=FnT(Str, Str, returns=Int))),
                                  instances: OneOf(Seq(Str, "list"), SeriesT(Str, "int"))):
    raises(None)
    delegates("pyrepseq.metric.levenshtein.WeightedLevenshtein.calc_pdist_vector", self=self._weighted_levenshtein, instances=instances)
