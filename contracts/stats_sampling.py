# C17 -- resampling and power-law utilities (pyrepseq/stats.py); downsample is in distance_pcdelta.py.
# Post-conditions are taken from the property statement.  What no contract can decide: that every individual item is
# EQUALLY LIKELY to be kept (a statement about the distribution of numpy's generator, assumed of numpy.random.choice).

@contract("pyrepseq.stats.subsample", props=["C17"], scope="subsample_calls")
def subsample(counts: OneOf(Seq(Nat, "list", min_len=1), Seq(Nat, "ndarray", min_len=1)), n: Nat):
    raises("ValueError", when=n > vsum(counts))
    raises(None, when=n <= vsum(counts))
    ensures(len(result[0]) == len(result[1]), name="post[one count per index]")
    ensures(forall(TInt, lambda t: implies(0 <= t and t < len(result[0]), 0 <= result[0][t] and result[0][t] < len(counts))),
            name="post[indices are categories]")
    ensures(forall(TInt, TInt, lambda s, t: implies(0 <= s and s < t and t < len(result[0]), result[0][s] < result[0][t])),
            name="post[indices sorted and unique]")
    ensures(forall(TInt, lambda t: implies(0 <= t and t < len(result[1]), result[1][t] >= 1)), name="post[positive counts]")
    ensures(forall(TInt, lambda t: implies(0 <= t and t < len(result[1]), result[1][t] <= counts[result[0][t]])),
            name="post[at most the original count]")
    ensures(vsum(result[1]) == n, name="post[counts sum to n]")
    canary(vsum(result[1]) == n + 1, name="sum n+1")
    canary(forall(TInt, lambda t: implies(0 <= t and t < len(result[1]), result[1][t] < counts[result[0][t]])), name="strictly below")


@contract("pyrepseq.stats.powerlaw_sample", props=["C17"], scope="powerlaw_sample_calls")
def powerlaw_sample(size: Nat, xmin: OneOf(Pos, RealT(lo=1, integral=True)), alpha: Real):
    requires(alpha > 1)
    requires(xmin >= 1 and is_integral(xmin))
    raises(None)
    ensures(len(result) == size, name="post[requested number of values]")
    ensures(forall(TInt, lambda t: implies(0 <= t and t < len(result), result[t] >= xmin)), name="post[values at least xmin]")
    ensures(forall(TInt, lambda t: implies(0 <= t and t < len(result), is_integral(result[t]))), name="post[integer-valued]")
    canary(forall(TInt, lambda t: implies(0 <= t and t < len(result), result[t] >= xmin + 1)), name="at least xmin+1")


@contract("pyrepseq.stats._discrete_loglikelihood", props=["C17"], scope="loglik_calls")
def _discrete_loglikelihood(x: Seq(RealT(lo=0.5), "ndarray"), alpha: Real, xmin: Real):
    requires(alpha > 1 and xmin > 0)
    raises(None)
    # documented discrete power-law log-likelihood over the counts >= xmin:  -n ln zeta(alpha, xmin) - alpha sum ln x
    returns(-len(filtered(x, xmin)) * ln(zeta(alpha, xmin)) - alpha * vsum(ln(filtered(x, xmin))))


@contract("pyrepseq.stats.powerlaw_mle_alpha", props=["C17"], scope="mle_calls")
def powerlaw_mle_alpha(c: OneOf(Seq(Pos, "list"), Seq(Pos, "ndarray")), cmin: OneOf(Pos, Real),
                       method: OneOf(Const("simple"), Const("continuitycorrection"), Const("exact"), Str),
                       kwargs: OneOf(KwargsT(), KwargsT(bounds=TupleT(Real, Real)))):
    requires(cmin >= 1)
    requires(implies("bounds" in kwargs, 1 < kwargs["bounds"][0] and kwargs["bounds"][0] < kwargs["bounds"][1]) if True else True)
    # the closed forms divide by the sum of logarithms: it must not vanish (numpy would return inf with a warning)
    requires(implies(method == "simple", vsum(ln(filtered(c, cmin) / cmin)) != 0))
    requires(implies(method == "continuitycorrection", vsum(ln(filtered(c, cmin) / (cmin - 0.5))) != 0))
    raises("ValueError", when=method not in ["simple", "continuitycorrection", "exact"])
    raises("Exception", when=method == "exact", may=True)        # the optimiser may report failure
    ensures(implies(method == "simple", close(result, 1 + len(filtered(c, cmin)) / vsum(ln(filtered(c, cmin) / cmin)))),
            name="post[simple closed form]")
    ensures(implies(method == "continuitycorrection",
                    close(result, 1 + len(filtered(c, cmin)) / vsum(ln(filtered(c, cmin) / (cmin - 0.5))))),
            name="post[continuity-corrected closed form]")
    ensures(implies(method == "exact", lower_bound(kwargs) <= result and result <= upper_bound(kwargs)), name="post[exact: within the bounds]")
    ensures(implies(method == "exact",
                    forall(TReal, lambda a: implies(lower_bound(kwargs) <= a and a <= upper_bound(kwargs),
                                                    post("pyrepseq.stats._discrete_loglikelihood", filtered(c, cmin), result, cmin)
                                                    >= post("pyrepseq.stats._discrete_loglikelihood", filtered(c, cmin), a, cmin)))),
            name="post[exact: maximises the discrete likelihood over the bounds]")


@predicate
def lower_bound(kwargs):
    return kwargs["bounds"][0] if "bounds" in kwargs else 1.5


@predicate
def upper_bound(kwargs):
    return kwargs["bounds"][1] if "bounds" in kwargs else 4.5
