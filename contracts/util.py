# pyrepseq/util.py helpers used by C02 / C05 / C10.

@contract("pyrepseq.util.ensure_numpy", props=["C10", "C02"], scope="containers")
def ensure_numpy(arr_like: OneOf(Seq(Str, "list"), Seq(Str, "tuple"), Seq(Str, "ndarray"),
                                 SeriesT(Str, "default"), SeriesT(Str, "int"),
                                 Seq(Nat, "list"), Seq(Nat, "ndarray"))):
    # positional NumPy array holding the same elements in the same order, whatever the index labels
    raises(None)
    returns(as_array(arr_like))


@contract("pyrepseq.util.convert_tuple_to_dataframe_if_necessary", props=["C02", "C05"], scope="tuple_or_not")
def convert_tuple_to_dataframe_if_necessary(seqs: OneOf(NoneType, Seq(Str, "list"), Seq(Str, "ndarray"), Obj("DataFrame"),
                                                        TupleT(Seq(Str, "list"), Seq(Str, "list")))):
    raises(None)
    returns(paired_frame(seqs) if is_pair_tuple(seqs) else seqs)
