# C12 -- one-edit neighbourhood generators (pyrepseq/distance.py).
# Index form of "one edit": delete_at / sub_at / ins_at; its equivalence with Levenshtein distance
# exactly 1 (for strings over the alphabet) is the Lean lemma pair L-n1 / L-step.

@contract("pyrepseq.distance.levenshtein_neighbors", props=["C12", "C04"], scope="strings_alphabets")
def levenshtein_neighbors(x: Str, alphabet: Str) -> Seq(Str, "generator"):
    requires(distinct_letters(alphabet))
    raises(None)
    # helper lemmas (R-ind): the run filters lose nothing
    lemma(forall(TInt, lambda i: implies(0 < i and i < len(x) and char_at(x, i) == char_at(x, i - 1),
                                         delete_at(x, i) == delete_at(x, i - 1))),
          name="deleting either of two equal adjacent letters gives the same string")
    lemma(forall(TInt, TStr, lambda i, a: implies(0 < i and i <= len(x) and len(a) == 1 and a == char_at(x, i - 1),
                                                  ins_at(x, i, a) == ins_at(x, i - 1, a))),
          name="inserting a letter before or after an equal letter gives the same string")
    lemma(by_induction(lambda i: implies(i < len(x),
                                         0 <= runstart(x, i) and runstart(x, i) <= i
                                         and not (runstart(x, i) > 0 and char_at(x, runstart(x, i)) == char_at(x, runstart(x, i) - 1))
                                         and delete_at(x, runstart(x, i)) == delete_at(x, i))),
          name="deleting anywhere in a run equals deleting at its start")
    lemma(forall(TStr, lambda a: implies(len(a) == 1, by_induction(lambda i: implies(
        i <= len(x),
        0 <= insstart(x, i, a) and insstart(x, i, a) <= i
        and not (insstart(x, i, a) > 0 and a == char_at(x, insstart(x, i, a) - 1))
        and ins_at(x, insstart(x, i, a), a) == ins_at(x, i, a))))),
          name="inserting a letter after equal letters equals inserting it before them")
    # (i) every yield is a one-edit variant (index form)
    ensures(bag_subset(result, one_edit_bag(x, alphabet)), name="post[sound]")
    # (ii) every one-edit variant over the alphabet is yielded
    ensures(forall(TInt, lambda i: implies(0 <= i and i < len(x), member(result, delete_at(x, i), runstart(x, i)))),
            name="post[complete: deletions]", using=["deleting anywhere in a run equals deleting at its start"])
    ensures(forall(TInt, TInt, lambda i, k: implies(
        0 <= i and i < len(x) and 0 <= k and k < len(alphabet) and char_at(alphabet, k) != char_at(x, i),
        member(result, sub_at(x, i, char_at(alphabet, k)), i, k))), name="post[complete: substitutions]")
    ensures(forall(TInt, TInt, lambda i, k: implies(
        0 <= i and i <= len(x) and 0 <= k and k < len(alphabet),
        member(result, ins_at(x, i, char_at(alphabet, k)), insstart(x, i, char_at(alphabet, k)), k))),
            name="post[complete: insertions]", using=["inserting a letter after equal letters equals inserting it before them"])
    # (iii) each exactly once
    ensures(no_duplicates(result), name="post[each once]")
    # what callers use: the abstract set of one-edit variants over the alphabet (index form above + Lean L-n1)
    returns(one_edit_set(x, alphabet), assume_only=True)


@contract("pyrepseq.distance.hamming_neighbors", props=["C12", "C07"], scope="strings_alphabets_pos")
def hamming_neighbors(x: Str, alphabet: Str, variable_positions: NoneType) -> Seq(Str, "generator"):
    requires(distinct_letters(alphabet))
    raises(None)
    ensures(bag_subset(result, one_sub_bag(x, alphabet)), name="post[sound]")
    ensures(forall(TInt, TInt, lambda i, k: implies(
        0 <= i and i < len(x) and 0 <= k and k < len(alphabet) and char_at(alphabet, k) != char_at(x, i),
        member(result, sub_at(x, i, char_at(alphabet, k)), i, k))), name="post[complete]")
    ensures(no_duplicates(result), name="post[each once]")
    returns(one_sub_set(x, alphabet), assume_only=True)
