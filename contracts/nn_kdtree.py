# C04 / C07 / C11 / C14 -- kdtree engine (pyrepseq/nn.py)

@contract("pyrepseq.nn._histogram_encode", props=["C04", "C11"], scope="histogram_encode")
def _histogram_encode(cdr3: Str, compression: OneOf(IntT(lo=1), RealT(lo=1))):
    # characters outside the 20 letters raise KeyError in the real code: the property's alphabet restriction
    requires(over_alphabet(cdr3, "ACDEFGHIKLMNPQRSTVWY"))
    raises(None)
    loop("loop1", "inv", modifies={"ans": Seq(Int, "ndarray")},
         inv=[len(ans) == dimension,
              forall(TInt, lambda b: implies(0 <= b and b < dimension, ans[b] == cnt(cdr3, _i, b, compression)))])
    ensures(len(result) >= 1 and forall(TInt, lambda b: implies(0 <= b and b < len(result),
                                                                 result[b] == cnt(cdr3, len(cdr3), b, compression))),
            name="post[bin counts]")
    # callers: the composition vector, an opaque point for which L-enc bounds distances by edit distance
    returns(hist_vec(cdr3, compression), assume_only=True)


@predicate
def cands_ok(cand, seqs, i, mode):
    # candidate positions are positions of seqs; in Hamming mode they all have the query's length
    # (rapidfuzz pads unequal lengths, so equal length is the scorer's call pre-condition)
    return forall(TInt, lambda j: implies(j in cand, 0 <= j and j < len(seqs)
                                          and (mode != "hamming" or len(seqs[j]) == len(seqs[i]))))


@contract("pyrepseq.nn._cal_levenshtein", props=["C04", "C07", "C11"], scope="cal_levenshtein")
def _cal_levenshtein(_args: TupleT(Nat, SetT(Int))):
    uses_global("_cal_params", OneOf(TupleT(Seq(Str, "ndarray"), Pos, NoneType, NoneType, Const(float("inf"))),
                                     TupleT(Seq(Str, "ndarray"), Pos, NoneType, Const("hamming"), Const(float("inf")))))
    requires(_args[0] < len(_cal_params[0]))
    requires(cands_ok(_args[1], _cal_params[0], _args[0], _cal_params[3]))
    raises(None)
    ensures(forall_in(result, lambda t: t[0] == _args[0] and (t[1] in _args[1]) and t[1] != _args[0]
                      and is_neighbor(_cal_params[0][_args[0]], _cal_params[0][t[1]], _cal_params[3], _cal_params[1], _cal_params[4])
                      and t[2] == neighbor_value(_cal_params[0][_args[0]], _cal_params[0][t[1]], _cal_params[3])), name="post[sound]")
    ensures(forall(TInt, lambda j: implies(
        (j in _args[1]) and j != _args[0]
        and is_neighbor(_cal_params[0][_args[0]], _cal_params[0][j], _cal_params[3], _cal_params[1], _cal_params[4]),
        member(result, (_args[0], j, neighbor_value(_cal_params[0][_args[0]], _cal_params[0][j], _cal_params[3])),
               enum_pos(local("choices"), j)))), name="post[complete]")
    ensures(no_duplicates(result, lambda t: t[1]), name="post[each candidate once]")
    returns(cand_triplets(_args[0], _args[1], _cal_params[0],
                          lambda a, b: is_neighbor(a, b, _cal_params[3], _cal_params[1], _cal_params[4]),
                          lambda a, b: neighbor_value(a, b, _cal_params[3])), assume_only=True)


@contract("pyrepseq.nn._cal_custom_dist", props=["C11", "C14"], scope="cal_custom_dist")
def _cal_custom_dist(_args: TupleT(Nat, SetT(Int))):
    uses_global("_cal_params", TupleT(Seq(Str, "ndarray"), Pos, NoneType,
                                      FnT(Str, Str, returns=RealT(lo=0), symmetric=True, zero_diag=True),
                                      OneOf(Const(float("inf")), RealT(lo=0))))
    requires(_args[0] < len(_cal_params[0]))
    requires(cands_ok(_args[1], _cal_params[0], _args[0], None))
    raises(None)
    ensures(forall_in(result, lambda t: t[0] == _args[0] and (t[1] in _args[1]) and t[1] != _args[0]
                      and is_neighbor(_cal_params[0][_args[0]], _cal_params[0][t[1]], _cal_params[3], _cal_params[1], _cal_params[4])
                      and t[2] == neighbor_value(_cal_params[0][_args[0]], _cal_params[0][t[1]], _cal_params[3])), name="post[sound]")
    ensures(forall(TInt, lambda j: implies(
        (j in _args[1]) and j != _args[0]
        and is_neighbor(_cal_params[0][_args[0]], _cal_params[0][j], _cal_params[3], _cal_params[1], _cal_params[4]),
        member(result, (_args[0], j, neighbor_value(_cal_params[0][_args[0]], _cal_params[0][j], _cal_params[3])), j))),
            name="post[complete]")
    ensures(no_duplicates(result, lambda t: t[1]), name="post[each candidate once]")
    returns(cand_triplets(_args[0], _args[1], _cal_params[0],
                          lambda a, b: is_neighbor(a, b, _cal_params[3], _cal_params[1], _cal_params[4]),
                          lambda a, b: neighbor_value(a, b, _cal_params[3])), assume_only=True)


@contract("pyrepseq.nn._flatten_array", inline=True, props=["C11"])
def _flatten_array():
    note("one-line helper list(chain(*nested)): inlined into _to_triplets")


@predicate
def all_cands_ok(y_indices, seqs, mode):
    return (len(y_indices) == len(seqs)
            and forall(TInt, TInt, lambda i, j: implies(0 <= i and i < len(seqs) and (j in y_indices[i]),
                                                        0 <= j and j < len(seqs)
                                                        and (mode != "hamming" or len(seqs[j]) == len(seqs[i])))))


@contract("pyrepseq.nn._to_triplets", props=["C11", "C04", "C07", "C14"], scope="to_triplets")
def _to_triplets(seqs: Seq(Str, "ndarray"), y_indices: Seq(SetT(Int), "ndarray"), max_edits: Pos, limit: NoneType, n_cpu: Pos,
                 custom_distance: OneOf(NoneType, Const("hamming"), FnT(Str, Str, returns=RealT(lo=0), symmetric=True, zero_diag=True)),
                 max_cust_dist: OneOf(Const(float("inf")), RealT(lo=0))):
    requires(all_cands_ok(y_indices, seqs, custom_distance))
    raises(None)
    # the same list whatever the number of workers: the per-query results of every position, concatenated
    ensures(bag_equal(result, all_cand_triplets(
        y_indices, seqs, lambda a, b: is_neighbor(a, b, custom_distance, max_edits, max_cust_dist),
        lambda a, b: neighbor_value(a, b, custom_distance))), name="post[union of the per-query results]")
    ensures(no_duplicates(result, lambda t: (t[0], t[1])), name="post[each pair once]")
    returns(all_cand_triplets(y_indices, seqs, lambda a, b: is_neighbor(a, b, custom_distance, max_edits, max_cust_dist),
                              lambda a, b: neighbor_value(a, b, custom_distance)), assume_only=True)


@predicate
def all_same_length(seqs):
    return forall(TInt, TInt, lambda p, q: implies(0 <= p and p < len(seqs) and 0 <= q and q < len(seqs), len(seqs[p]) == len(seqs[q])))


@contract("pyrepseq.nn._kdtree_leven", props=["C04", "C07", "C11", "C14", "C10"], scope="kdtree_leven_calls")
def _kdtree_leven(seqs: OneOf(Seq(Str, "list", min_len=1), Seq(Str, "ndarray", min_len=1), SeriesT(Str, "int", min_len=1)),
                  max_edits: Pos, max_returns: NoneType, n_cpu: Pos,
                  custom_distance: OneOf(NoneType, Const("hamming"), FnT(Str, Str, returns=RealT(lo=0), symmetric=True, zero_diag=True)),
                  max_custom_distance: OneOf(Const(float("inf")), RealT(lo=0)),
                  output_type: OneOf(Const("triplets"), Const("coo_matrix")),
                  compression: OneOf(IntT(lo=1), RealT(lo=1))):
    requires(all_over(seqs, "ACDEFGHIKLMNPQRSTVWY"))
    requires(custom_distance != "hamming" or all_same_length(seqs), name="hamming: one length bucket")
    raises(None)
    # the composition pre-filter loses nothing (L-enc) and the exact filter admits nothing else: the result is the
    # default search's triplet set, whatever n_cpu and compression
    ensures(bag_equal(triplets_of(result), neighbor_triplets(
        seqs, seqs, lambda a, b: is_neighbor(a, b, custom_distance, max_edits, max_custom_distance),
        lambda a, b: neighbor_value(a, b, custom_distance), True)) and is_setlike(triplets_of(result)), name="post[= default search]")
    ensures(output_kind(result) == output_type and (output_type == "triplets" or output_shape(result) == (len(seqs), len(seqs))),
            name="post[output form]")
    returns(search_output(neighbor_triplets(
        seqs, seqs, lambda a, b: is_neighbor(a, b, custom_distance, max_edits, max_custom_distance),
        lambda a, b: neighbor_value(a, b, custom_distance), True), output_type, seqs, None), assume_only=True)


@predicate
def bucket_index_ok(d, seqs, upto):
    # d maps each length to the strictly increasing list of exactly the positions (< upto) whose sequence has that length
    return (forall(TInt, lambda L: implies(L in d, len(d[L]) >= 1 and forall(TInt, lambda q: implies(
                0 <= q and q < len(d[L]), 0 <= d[L][q] and d[L][q] < upto and len(seqs[d[L][q]]) == L))))
            and forall(TInt, TInt, TInt, lambda L, q, q2: implies((L in d) and 0 <= q and q < q2 and q2 < len(d[L]), d[L][q] < d[L][q2]))
            and forall(TInt, lambda p: implies(0 <= p and p < upto,
                                               (len(seqs[p]) in d) and exists(TInt, lambda q: 0 <= q and q < len(d[len(seqs[p])])
                                                                              and d[len(seqs[p])][q] == p,
                                                                              hints=[len(d[len(seqs[p])]) - 1]))))


@contract("pyrepseq.nn._to_len_bucket", props=["C07"], scope="len_bucket")
def _to_len_bucket(seqs: Seq(Str, "ndarray")) -> DictT(Int, Seq(Nat)):
    raises(None)
    loop("loop1", "inv", modifies={"ans": DictT(Int, Seq(Nat))}, inv=[bucket_index_ok(ans, seqs, _i)])
    ensures(bucket_index_ok(result, seqs, len(seqs)), name="post[positions by length]")
    skolem_ensures(forall(TInt, lambda p: implies(
        0 <= p and p < len(seqs),
        0 <= bucket_pos(result, p) and bucket_pos(result, p) < len(result[len(seqs[p])])
        and result[len(seqs[p])][bucket_pos(result, p)] == p)))


@contract("pyrepseq.nn.kdtree", props=["C04", "C07", "C10", "C11", "C14"], scope="search_calls_kdtree")
def kdtree(seqs: OneOf(Seq(Str, "list"), Seq(Str, "ndarray"), SeriesT(Str, "int")), max_edits: Int, max_returns: NoneType, n_cpu: Int,
           custom_distance: OneOf(NoneType, Const("hamming"), FnT(Str, Str, returns=RealT(lo=0), symmetric=True, zero_diag=True)),
           max_custom_distance: OneOf(Const(float("inf")), RealT(lo=0)),
           output_type: OneOf(Const("triplets"), Const("coo_matrix")),
           compression: OneOf(IntT(lo=1), RealT(lo=1))):
    requires(all_over(seqs, "ACDEFGHIKLMNPQRSTVWY"))
    raises("AssertionError", when=not valid_search_args(seqs, max_edits, max_returns, n_cpu, custom_distance,
                                                         max_custom_distance, output_type, None))
    # C10: the argument check runs on the caller's own objects (not on converted copies, which NumPy would have coerced)
    validates("pyrepseq.nn._check_common_input", seqs=seqs, max_edits=max_edits, max_returns=max_returns, n_cpu=n_cpu,
              custom_distance=custom_distance, max_cust_dist=max_custom_distance, output_type=output_type)
    ensures(forall_in(triplets_of(result), lambda t: 0 <= t[0] and t[0] < len(seqs) and 0 <= t[1] and t[1] < len(seqs) and t[0] != t[1]
                      and is_neighbor(seqs[t[0]], seqs[t[1]], custom_distance, max_edits, max_custom_distance)
                      and t[2] == neighbor_value(seqs[t[0]], seqs[t[1]], custom_distance)), name="post[sound: original positions]")
    ensures(forall(TInt, TInt, lambda q, r: implies(
        0 <= q and q < len(seqs) and 0 <= r and r < len(seqs) and q != r
        and is_neighbor(seqs[q], seqs[r], custom_distance, max_edits, max_custom_distance),
        (member(triplets_of(result), (q, r, neighbor_value(seqs[q], seqs[r], custom_distance)),
                len(seqs[q]), bucket_pos(local("buckets"), q), bucket_pos(local("buckets"), r))
         if custom_distance == "hamming" else
         member(triplets_of(result), (q, r, neighbor_value(seqs[q], seqs[r], custom_distance)), q, r)))),
            name="post[complete]")
    ensures(no_duplicates(triplets_of(result), lambda t: (t[0], t[1])), name="post[each pair once]")
    ensures(output_kind(result) == output_type and (output_type == "triplets" or output_shape(result) == (len(seqs), len(seqs))),
            name="post[output form]")
    returns(search_output(neighbor_triplets(
        seqs, seqs, lambda a, b: is_neighbor(a, b, custom_distance, max_edits, max_custom_distance),
        lambda a, b: neighbor_value(a, b, custom_distance), True), output_type, seqs, None), assume_only=True)
