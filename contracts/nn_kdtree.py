# C04 / C07 / C11 / C14 -- kdtree engine (pyrepseq/nn.py)

@contract("pyrepseq.nn._histogram_encode", props=["C04", "C11"], scope="histogram_encode")
def _histogram_encode(cdr3: Str, compression: OneOf(IntT(lo=1), RealT(lo=1))):
    # characters outside the 20 letters raise KeyError in the real code: the property's alphabet restriction
    requires(over_alphabet(cdr3, "ACDEFGHIKLMNPQRSTVWY"))
    raises(None)
    loop("loop1", "inv", modifies={"ans": Seq(Int, "ndarray")},
         inv=[len(ans) == dimension,
              forall(TInt, lambda b: implies(0 <= b and b < dimension, ans[b] == cnt(cdr3, _i, b, compression)))])
    ensures(len(result) >= 1 and forall(TInt, lambda b: implies(0 <= b and b < len(result),
                                                                 result[b] == cnt(cdr3, len(cdr3), b, compression))),
            name="post[bin counts]")
    # callers: the composition vector, an opaque point for which L-enc bounds distances by edit distance
    returns(hist_vec(cdr3, compression), assume_only=True)


@predicate
def cands_ok(cand, seqs, i, mode):
    # candidate positions are positions of seqs; in Hamming mode they all have the query's length
    # (rapidfuzz pads unequal lengths, so equal length is the scorer's call pre-condition)
    return forall(TInt, lambda j: implies(j in cand, 0 <= j and j < len(seqs)
                                          and (mode != "hamming" or len(seqs[j]) == len(seqs[i]))))


@contract("pyrepseq.nn._cal_levenshtein", props=["C04", "C07", "C11"], scope="cal_levenshtein")
def _cal_levenshtein(_args: TupleT(Nat, SetT(Int))):
    uses_global("_cal_params", OneOf(TupleT(Seq(Str, "ndarray"), Pos, NoneType, NoneType, Const(float("inf"))),
                                     TupleT(Seq(Str, "ndarray"), Pos, NoneType, Const("hamming"), Const(float("inf")))))
    requires(_args[0] < len(_cal_params[0]))
    requires(cands_ok(_args[1], _cal_params[0], _args[0], _cal_params[3]))
    raises(None)
    ensures(forall_in(result, lambda t: t[0] == _args[0] and (t[1] in _args[1]) and t[1] != _args[0]
                      and is_neighbor(_cal_params[0][_args[0]], _cal_params[0][t[1]], _cal_params[3], _cal_params[1], _cal_params[4])
                      and t[2] == neighbor_value(_cal_params[0][_args[0]], _cal_params[0][t[1]], _cal_params[3])), name="post[sound]")
    ensures(forall(TInt, lambda j: implies(
        (j in _args[1]) and j != _args[0]
        and is_neighbor(_cal_params[0][_args[0]], _cal_params[0][j], _cal_params[3], _cal_params[1], _cal_params[4]),
        member(result, (_args[0], j, neighbor_value(_cal_params[0][_args[0]], _cal_params[0][j], _cal_params[3])),
               enum_pos(local("choices"), j)))), name="post[complete]")
    ensures(no_duplicates(result, lambda t: t[1]), name="post[each candidate once]")
    returns(cand_triplets(_args[0], _args[1], _cal_params[0],
                          lambda a, b: is_neighbor(a, b, _cal_params[3], _cal_params[1], _cal_params[4]),
                          lambda a, b: neighbor_value(a, b, _cal_params[3])), assume_only=True)


@contract("pyrepseq.nn._cal_custom_dist", props=["C11", "C14"], scope="cal_custom_dist")
def _cal_custom_dist(_args: TupleT(Nat, SetT(Int))):
    uses_global("_cal_params", TupleT(Seq(Str, "ndarray"), Pos, NoneType,
                                      FnT(Str, Str, returns=RealT(lo=0), symmetric=True, zero_diag=True),
                                      OneOf(Const(float("inf")), RealT(lo=0))))
    requires(_args[0] < len(_cal_params[0]))
    requires(cands_ok(_args[1], _cal_params[0], _args[0], None))
    raises(None)
    ensures(forall_in(result, lambda t: t[0] == _args[0] and (t[1] in _args[1]) and t[1] != _args[0]
                      and is_neighbor(_cal_params[0][_args[0]], _cal_params[0][t[1]], _cal_params[3], _cal_params[1], _cal_params[4])
                      and t[2] == neighbor_value(_cal_params[0][_args[0]], _cal_params[0][t[1]], _cal_params[3])), name="post[sound]")
    ensures(forall(TInt, lambda j: implies(
        (j in _args[1]) and j != _args[0]
        and is_neighbor(_cal_params[0][_args[0]], _cal_params[0][j], _cal_params[3], _cal_params[1], _cal_params[4]),
        member(result, (_args[0], j, neighbor_value(_cal_params[0][_args[0]], _cal_params[0][j], _cal_params[3])), j))),
            name="post[complete]")
    ensures(no_duplicates(result, lambda t: t[1]), name="post[each candidate once]")
    returns(cand_triplets(_args[0], _args[1], _cal_params[0],
                          lambda a, b: is_neighbor(a, b, _cal_params[3], _cal_params[1], _cal_params[4]),
                          lambda a, b: neighbor_value(a, b, _cal_params[3])), assume_only=True)


@contract("pyrepseq.nn._flatten_array", inline=True, props=["C11"])
def _flatten_array():
    note("one-line helper list(chain(*nested)): inlined into _to_triplets")


@predicate
def all_cands_ok(y_indices, seqs, mode):
    return (len(y_indices) == len(seqs)
            and forall(TInt, TInt, lambda i, j: implies(0 <= i and i < len(seqs) and (j in y_indices[i]),
                                                        0 <= j and j < len(seqs)
                                                        and (mode != "hamming" or len(seqs[j]) == len(seqs[i])))))


@contract("pyrepseq.nn._to_triplets", props=["C11", "C04", "C07", "C14"], scope="to_triplets")
def _to_triplets(seqs: Seq(Str, "ndarray"), y_indices: Seq(SetT(Int), "ndarray"), max_edits: Pos, limit: NoneType, n_cpu: Pos,
                 custom_distance: OneOf(NoneType, Const("hamming"), FnT(Str, Str, returns=RealT(lo=0), symmetric=True, zero_diag=True)),
                 max_cust_dist: OneOf(Const(float("inf")), RealT(lo=0))):
    requires(all_cands_ok(y_indices, seqs, custom_distance))
    raises(None)
    # the same list whatever the number of workers: the per-query results of every position, concatenated
    ensures(bag_equal(result, all_cand_triplets(
        y_indices, seqs, lambda a, b: is_neighbor(a, b, custom_distance, max_edits, max_cust_dist),
        lambda a, b: neighbor_value(a, b, custom_distance))), name="post[union of the per-query results]")
    ensures(no_duplicates(result, lambda t: (t[0], t[1])), name="post[each pair once]")
    returns(all_cand_triplets(y_indices, seqs, lambda a, b: is_neighbor(a, b, custom_distance, max_edits, max_cust_dist),
                              lambda a, b: neighbor_value(a, b, custom_distance)), assume_only=True)
