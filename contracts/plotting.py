# C19 -- summaries and plots (pyrepseq/plotting.py, pyrepseq/util.py).  TERM LEVEL for the plotting functions: arrays are opaque, a drawing
# call on an Axes is a recorded effect; the contracts state which data reach which drawing call (what the renderer shows is outside).

@predicate
def shown_values(data, normalize_x):
    # the non-missing values, as frequencies when normalised
    return (np.asarray(data)[~np.isnan(np.asarray(data))] / np.sum(np.asarray(data)[~np.isnan(np.asarray(data))])) if normalize_x \
        else np.asarray(data)[~np.isnan(np.asarray(data))]


@contract("pyrepseq.plotting.rankfrequency", props=["C19"], scope="rankfrequency_calls")
def rankfrequency(data: Obj("ndarray"), ax: OneOf(NoneType, Obj("Axes")), normalize_x: OneOf(Const(True), Const(False)),
                  normalize_y: OneOf(Const(False), Const(True)), transform_x: NoneType, transform_y: NoneType,
                  log_x: OneOf(Const(True), Const(False)), log_y: OneOf(Const(True), Const(False)), scalex: Real, scaley: Real,
                  kwargs: KwargsT()):
    raises(None)
    # one step curve: the values in DESCENDING order (times scalex) against their 0-based rank (times scaley; divided by the number of
    # values when normalize_y)
    ensures(times_drawn(the_axes(ax), "step") == 1, name="post[one curve]")
    ensures(same_value(drawn(the_axes(ax), "step")[0], np.sort(shown_values(data, normalize_x))[::-1] * scalex), name="post[x: values in descending order]")
    ensures(same_value(drawn(the_axes(ax), "step")[1],
                       scaley * np.arange(np.sort(shown_values(data, normalize_x)).size) / (np.sort(shown_values(data, normalize_x)).size if normalize_y else 1)),
            name="post[y: 0-based rank]")
    ensures(times_drawn(the_axes(ax), "set_xscale") == (1 if log_x else 0) and times_drawn(the_axes(ax), "set_yscale") == (1 if log_y else 0),
            name="post[log scales only when asked]")


# ---- sequence summaries over logomaker's per-position count matrix (assumed contract: cell = number of sequences showing the residue
# at the position).  Domain: align=False (the external aligner is out of reach), equal-length sequences without gap characters.

@predicate
def gapless_alignment(seqs):
    # (logomaker refuses an alignment without columns)
    return len(seqs[0]) >= 1 and forall(TInt, lambda k: implies(0 <= k and k < len(seqs), len(seqs[k]) == len(seqs[0])
                                                                and not ("-" in seqs[k]) and not ("." in seqs[k])))


@predicate
def is_mode(seqs, j, c):
    # c is a most frequent residue at position j
    return len(c) == 1 and forall(TStr, lambda d: column_count(seqs, j, c) >= column_count(seqs, j, d))


@contract("pyrepseq.util.seqs_to_consensus", props=["C19"], scope="consensus_calls")
def seqs_to_consensus(seqs: Seq(Str, "list", min_len=1), align: Const(False)) -> Str:
    requires(gapless_alignment(seqs))
    raises(None)
    loop("loop1", "inv", modifies={"s": Str},
         inv=[len(s) == _i, forall(TInt, lambda j: implies(0 <= j and j < _i, is_mode(seqs, j, char_at(s, j))))])
    ensures(len(result) == len(seqs[0]), name="post[one residue per position]")
    ensures(forall(TInt, lambda j: implies(0 <= j and j < len(seqs[0]), is_mode(seqs, j, char_at(result, j)))),
            name="post[a most frequent residue at every position]")


@contract("pyrepseq.util.seqs_to_regex", props=["C19"], scope="regex_calls")
def seqs_to_regex(seqs: Seq(Str, "list", min_len=1), align: Const(False)) -> Str:
    requires(gapless_alignment(seqs))
    raises(None)
    loop("loop1", "inv", modifies={"regex": Str}, inv=[regex == regex_prefix(seqs, _i)])
    # position by position: the single observed residue, or the bracketed set of the observed residues (sorted)
    ensures(result == regex_prefix(seqs, len(seqs[0])), name="post[per position: the observed residues]")


# ---- colour look-up for labels

@predicate
def rare(labels, x, min_count):
    return min_count is not None and occurrences(labels, x) < min_count


@contract("pyrepseq.plotting.labels_to_colors_hls", props=["C19"], scope="label_color_calls")
def labels_to_colors_hls(labels: Seq(Str, "list"), min_count: OneOf(NoneType, Int)):
    raises(None)
    ensures(len(result) == len(labels), name="post[one colour per label]")
    ensures(forall(TInt, TInt, lambda i, j: implies(0 <= i and i < len(labels) and 0 <= j and j < len(labels) and labels[i] == labels[j],
                                                    same_value(result[i], result[j]))), name="post[equal labels, equal colours]")
    ensures(forall(TInt, lambda i: implies(0 <= i and i < len(labels), is_black(result[i]) == rare(labels, labels[i], min_count))),
            name="post[black exactly for labels rarer than min_count]")
    ensures(forall(TInt, TInt, lambda i, j: implies(
        0 <= i and i < len(labels) and 0 <= j and j < len(labels) and labels[i] != labels[j]
        and not rare(labels, labels[i], min_count) and not rare(labels, labels[j], min_count),
        not same_value(result[i], result[j]))), name="post[distinct labels, distinct colours]")
    canary(forall(TInt, lambda i: implies(0 <= i and i < len(labels), is_black(result[i]))), name="everything black")


# ---- density_scatter, discrete mode: each distinct (x, y) point once, coloured by its multiplicity (term level)

@predicate
def distinct_points(x, y):
    return np.unique(np.array(list(zip(np.asarray(x), np.asarray(y)))), return_counts=True, axis=0)


@predicate
def draw_order(x, y, sort):
    # densest points last when sort is set
    return distinct_points(x, y)[1].argsort() if sort else None


@contract("pyrepseq.plotting.density_scatter", props=["C19"], scope="density_scatter_calls")
def density_scatter(x: Obj("ndarray"), y: Obj("ndarray"), ax: OneOf(NoneType, Obj("Axes")), discrete: Const(True),
                    sort: OneOf(Const(True), Const(False)), cbar: Const(False), kwargs: KwargsT()):
    raises(None)
    ensures(times_drawn(the_axes(ax), "scatter") == 1, name="post[one scatter call]")
    ensures(same_value(drawn(the_axes(ax), "scatter")[0],
                       distinct_points(x, y)[0][:, 0][draw_order(x, y, sort)] if sort else distinct_points(x, y)[0][:, 0]),
            name="post[x: first coordinate of each distinct point, once]")
    ensures(same_value(drawn(the_axes(ax), "scatter")[1],
                       distinct_points(x, y)[0][:, 1][draw_order(x, y, sort)] if sort else distinct_points(x, y)[0][:, 1]),
            name="post[y: second coordinate of each distinct point]")
    ensures(same_value(drawn_kw(the_axes(ax), "scatter", "c"),
                       distinct_points(x, y)[1][draw_order(x, y, sort)] if sort else distinct_points(x, y)[1]),
            name="post[colour: the multiplicity of the point]")
    ensures(same_value(result, the_axes(ax)), name="post[returns the axes]")


# ---- seqlogos (equal-length sequences: the external aligner is not involved)

@contract("pyrepseq.plotting.seqlogos", props=["C19"], scope="seqlogos_calls")
def seqlogos(seqs: Seq(Str, "list", min_len=1), ax: OneOf(NoneType, Obj("Axes")), kwargs: KwargsT()):
    requires(len(seqs[0]) >= 1 and forall(TInt, lambda k: implies(0 <= k and k < len(seqs), len(seqs[k]) == len(seqs[0]))))
    raises(None)
    # returns (axes, counts): counts is the per-position, per-residue count matrix of exactly the given sequences, and that matrix is
    # what is drawn, on the given axes or on a new one
    ensures(is_count_matrix_of(result[1], seqs), name="post[the returned matrix counts the given sequences]")
    ensures(same_value(result[0], ax if ax is not None else new_axes()), name="post[returns the axes drawn on]")
    ensures(logo_drawn_on(result[1], result[0]), name="post[that matrix is drawn on those axes]")


# the external aligner (mafft via subprocess) is outside the code under contract: where a verified function can reach it, its result is an
# arbitrary list of strings
@contract("pyrepseq.util.align_seqs", trusted=True, props=[])
def align_seqs(seqs: Seq(Str, "list")) -> Seq(Str, "list"):
    note("external process (mafft): not verified, no post-condition assumed")


@contract("pyrepseq.plotting.labels_to_colors_tableau", props=["C19"], scope="label_color_calls")
def labels_to_colors_tableau(labels: Seq(Str, "list"), min_count: OneOf(NoneType, Int)):
    raises(None)
    ensures(len(result) == len(labels), name="post[one colour per label]")
    ensures(forall(TInt, TInt, lambda i, j: implies(0 <= i and i < len(labels) and 0 <= j and j < len(labels) and labels[i] == labels[j],
                                                    same_value(result[i], result[j]))), name="post[equal labels, equal colours]")
    ensures(forall(TInt, lambda i: implies(0 <= i and i < len(labels), is_black(result[i]) == rare(labels, labels[i], min_count))),
            name="post[black exactly for labels rarer than min_count]")
    canary(forall(TInt, lambda i: implies(0 <= i and i < len(labels), is_black(result[i]))), name="everything black")
