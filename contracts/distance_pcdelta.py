# C05 / C17 -- pcDelta and its helpers (pyrepseq/distance.py)

@contract("pyrepseq.distance.downsample", props=["C05", "C17"], scope="downsample_calls")
def downsample(seqs: OneOf(NoneType, Seq(Str, "list"), Seq(Str, "ndarray"), TableT(["CDR3A", "CDR3B"])), maxseqs: OneOf(NoneType, Nat)):
    raises(None)
    ensures(same_object(result, seqs) if (maxseqs is None or seqs is None) else True, name="post[identity without a bound]")
    ensures(implies(len(seqs) <= maxseqs, same_object(result, seqs)) if (maxseqs is not None and seqs is not None) else True,
            name="post[identity when short enough]")
    ensures(implies(len(seqs) > maxseqs, is_subsample(result, seqs, maxseqs)) if (maxseqs is not None and seqs is not None) else True,
            name="post[exactly maxseqs elements at distinct positions]")
    returns(seqs if (maxseqs is None or seqs is None or len(seqs) <= maxseqs) else random_subsample(seqs, maxseqs), assume_only=True)


@contract("pyrepseq.distance.get_default_metric_for_input_data", props=["C05", "C15"], scope="default_metric_calls")
def get_default_metric_for_input_data(input_data: OneOf(Seq(Str, "list"), Seq(Str, "ndarray"), TableT(["CDR3A", "CDR3B"]),
                                                        TableT(["CDR3A", "TRAV"]), TableT(["TRBV", "CDR3B"]), TableT(["Epitope"]))):
    raises(None)
    ensures(class_name(result) == ("Levenshtein" if not is_table(input_data) else
                                   "Cdr3Levenshtein" if (("CDR3A" in input_data) and ("CDR3B" in input_data)) else
                                   "AlphaCdr3Levenshtein" if ("CDR3A" in input_data) else
                                   "BetaCdr3Levenshtein" if ("CDR3B" in input_data) else "Levenshtein"), name="post[metric by columns present]")


@contract("pyrepseq.distance.pcDelta", props=["C05", "C13"], scope="pcdelta_calls", opaque_on_tables="array")
def pcDelta(seqs: OneOf(Seq(Str, "list", min_len=2), TableT(["CDR3A", "CDR3B"], min_rows=2),
                        TupleT(Seq(Str, "list", min_len=2), Seq(Str, "list", min_len=2))),
            seqs2: OneOf(NoneType, Seq(Str, "list", min_len=1)),
            metric: OneOf(NoneType, Obj("Metric")),
            bins: OneOf(NoneType, Const(0), Obj("ndarray")),
            normalize: OneOf(Const(True), Const(False)),
            pseudocount: OneOf(Const(0.0), RealT(lo=0.001)),
            maxseqs: OneOf(NoneType, Nat)):
    requires(comparable(seqs, seqs2))
    requires(cells_ok(seqs, ".") and cells_ok(seqs2, "."))
    raises(None)
    # bins == 0: the exact coincidence probability of the SAME arguments (before any down-sampling)
    ensures(close(result, post("pyrepseq.stats.pc", seqs, seqs2)) if (bins is not None and is_zero(bins)) else True,
            name="post[bins=0 is pc of the same arguments]")
    # otherwise: the histogram of the condensed self-distance vector (one entry per unordered pair) or of the full cross matrix
    # of the (tuple-converted, down-sampled) inputs under the given or default metric, with the given or default bin edges
    ensures(same_value(raw_hist(result, normalize, pseudocount),
                       np.histogram(the_metric(metric, local("seqs")).calc_pdist_vector(local("seqs")) if seqs2 is None
                                    else the_metric(metric, local("seqs")).calc_cdist_matrix(local("seqs"), local("seqs2")),
                                    bins=(np.arange(0, 25) if bins is None else bins))[0])
            if not (bins is not None and is_zero(bins)) else True, name="post[histogram of the right distances]")
    ensures(((maxseqs is None or len(sample_keys(seqs)) <= maxseqs) and same_rows(local("seqs"), seqs))
            or (maxseqs is not None and len(sample_keys(seqs)) > maxseqs and is_subsample_rows(local("seqs"), seqs, maxseqs))
            if not (bins is not None and is_zero(bins)) else True, name="post[sub-sample of exactly min(N, maxseqs) elements]")
    canary(same_value(raw_hist(result, normalize, pseudocount),
                      np.histogram(the_metric(metric, local("seqs")).calc_cdist_matrix(local("seqs"), local("seqs")),
                                   bins=(np.arange(0, 25) if bins is None else bins))[0])
           if (seqs2 is None and not (bins is not None and is_zero(bins))) else True, name="self mode on the full matrix")


@contract("pyrepseq.distance.load_pcDelta_background", props=["C05"], scope="load_background_calls")
def load_pcDelta_background(return_bins: OneOf(Const(True), Const(False))):
    raises(None)
    ensures(is_shipped_table(result if not return_bins else result[0], "pcdelta_pbmc_minervina.csv"), name="post[bundled table]")
    # the bin edges are consecutive integers from 0, one more than the table has rows (so pcDelta output aligns row by row)
    ensures(consecutive_from_zero(result[1]) and len(result[1]) == len(result[0]) + 1 if return_bins else True,
            name="post[bins = 0..rows]")
