# C13 -- grouped / conditional statistics and entropies (pyrepseq/stats.py, pyrepseq/entropy.py, pyrepseq/distance.py).
# TERM LEVEL: tables are opaque; group k of (table, key) is the opaque table group(table, key, k); pc / pc_joint / pcDelta / stdpc of an
# opaque table or column are uninterpreted applications of those functions (their own contracts are verified under C02 / C05 / C06 on
# modelled tables).  What is fixed here: which statistic of which groups enters the result with which weight.

# stdpc_joint (serialise the columns, call stdpc) is used here only as an opaque statistic of an opaque table
@contract("pyrepseq.stats.stdpc_joint", trusted=True, opaque_on_tables=True, props=[])
def stdpc_joint(df: Obj("DataFrame"), on: Const(["a", "b"]), gap_token: Const("_")):
    note("not verified: appears in stdrenyi2_entropy's contract as the uninterpreted statistic stdpc_joint(table, columns)")


@predicate
def key_of(by):
    # a one-element list of keys means that key
    return by[0] if (is_list(by) and len(by) == 1) else by


@predicate
def kept_groups(df, by):
    # the rows of the groups with at least two members (pc is undefined for a single element)
    return groups_where(df, key_of(by), lambda g: len(g) > 1)


@predicate
def group_pcs(df, by, on):
    return group_values(kept_groups(df, by), key_of(by), (lambda g: pc_joint(g, on)) if is_list(on) else (lambda g: pc(g[on])))


@predicate
def squared_weights(group_weights, df, by, on):
    return (np.ones(len(group_pcs(df, by, on))) if group_weights is None else np.asarray(group_weights)) ** 2


@contract("pyrepseq.stats.pc_conditional", props=["C13"], scope="pc_conditional_calls", opaque_on_tables=True)
def pc_conditional(df: Obj("DataFrame"), by: OneOf(Str, Const(["g"]), Const(["g", "h"])), on: OneOf(Str, Const(["a", "b"])),
                   group_weights: OneOf(NoneType, Seq(RealT(lo=0.001), "list"), Seq(RealT(lo=0.001), "ndarray"))):
    requires(group_weights is None or len(group_weights) == len(group_pcs(df, by, on)))
    requires(group_weights is None or vsum(squared_weights(group_weights, df, by, on)) > 0)
    raises(None)
    ensures(implies(len(kept_groups(df, by)) < 2, isnan(result)), name="post[undefined without a group of two]")
    # the w^2-weighted mean (uniform by default) of pc over the groups with at least two members
    ensures(implies(len(kept_groups(df, by)) >= 2,
                    close(result, vsum(squared_weights(group_weights, df, by, on) * group_pcs(df, by, on))
                          / vsum(squared_weights(group_weights, df, by, on)))), name="post[w^2-weighted mean of the group pcs]")
    canary(implies(len(kept_groups(df, by)) >= 2, close(result, vsum(group_pcs(df, by, on)))), name="plain sum")


# ---- entropies: minus the logarithm (in the given base) of the corresponding coincidence probability

@predicate
def entropy_pc(df, features, by):
    return (pc_conditional(df, by, features) if by else (pc_joint(df, features) if is_list(features) else pc(df[features])))


@contract("pyrepseq.entropy.renyi2_entropy", props=["C13"], scope="renyi2_calls")
def renyi2_entropy(df: Obj("DataFrame"), features: OneOf(Str, Const(["a", "b"])), by: OneOf(NoneType, Str, Const(["g"])),
                   base: OneOf(NoneType, Real), kwargs: KwargsT()):
    requires(base is None or base != 1)           # log base 1 is undefined (numpy would divide by zero)
    raises("ValueError", when=base is not None and base <= 0)
    ensures(close(result, -ln(entropy_pc(df, features, by)) / (ln(base) if base is not None else 1)),
            name="post[minus log_base of pc / pc_joint / pc_conditional]")
    canary(close(result, ln(entropy_pc(df, features, by)) / (ln(base) if base is not None else 1)), name="sign dropped")


@contract("pyrepseq.entropy.stdrenyi2_entropy", props=["C13"], scope="stdrenyi2_calls")
def stdrenyi2_entropy(df: Obj("DataFrame"), features: OneOf(Str, Const(["a", "b"])), base: OneOf(NoneType, Real), kwargs: KwargsT()):
    requires(base is None or base != 1)
    requires((pc_joint(df, features) if is_list(features) else pc(df[features])) != 0)
    raises("ValueError", when=base is not None and base <= 0)
    # linear error propagation: std(pc) / (pc * ln base)
    ensures(close(result, ((stdpc_joint(df, features) / pc_joint(df, features)) if is_list(features) else (stdpc(df[features]) / pc(df[features])))
                  / (ln(base) if base is not None else 1)), name="post[stdpc / (pc ln base)]")


# ---- pcDelta per group

@predicate
def delta_index(kwargs):
    # row labels of a group's result: the left bin edges when bins is an edge vector; none for the default bins and for the
    # scalar (bins = 0, exact coincidence) form
    return (kwargs["bins"][:-1] if ("bins" in kwargs and not is_int(kwargs["bins"])) else None)


@contract("pyrepseq.distance.pcDelta_grouped", props=["C13"], scope="pcdelta_grouped_calls")
def pcDelta_grouped(df: Obj("DataFrame"), by: OneOf(Str, Const(["g", "h"])), seq_columns: Str,
                    kwargs: OneOf(KwargsT(), KwargsT(bins=Const(0)), KwargsT(bins=Obj("ndarray")), KwargsT(bins=Obj("ndarray"), pseudocount=Real))):
    raises(None)
    # for each group, the pcDelta of that group's sequences alone (same options), as a row labelled "Delta" data
    ensures(same_value(result, group_values(df, by, lambda g: pd.Series(pcDelta(g[seq_columns], **kwargs), name="Delta",
                                                                         index=delta_index(kwargs)))),
            name="post[each group's own pcDelta]")


# ---- cross-group tables.  The loops run over itertools.combinations of the sorted groups and feed scipy's squareform; the generator has
# no ordered model of combinations(), so these two contracts are NOT discharged deductively: they are `trusted` and evaluated on the real
# code as BOUNDED stand-ins (pyvc/bounded_plugins.py, scopes grouped_cross_calls / pcdelta_cross_calls).

@contract("pyrepseq.stats.pc_grouped_cross", props=["C13"], scope="grouped_cross_calls", trusted=True)
def pc_grouped_cross(df: Obj("DataFrame"), by: Str, on: OneOf(Str, Const(["a", "b"]))):
    raises(None)
    # a square table over the sorted group names: [g, h] = pc(group g, group h) for g != h (symmetric), undefined (NaN) on the diagonal
    ensures(cross_table_ok(result, df, by, (lambda dg, dh: pc_joint(dg, on, dh)) if is_list(on) else (lambda dg, dh: pc(dg[on], dh[on])), None),
            name="post[pairwise two-sample pc, symmetric, NaN diagonal]")


@contract("pyrepseq.distance.pcDelta_grouped_cross", props=["C13"], scope="pcdelta_cross_calls", trusted=True)
def pcDelta_grouped_cross(df: Obj("DataFrame"), by: Str, seq_columns: Str, condensed: OneOf(Const(False), Const(True)), kwargs: KwargsT(bins=Const(0))):
    raises(None)
    # scalar (bins = 0) form: [g, h] = two-collection pcDelta of the groups, the within-group value on the diagonal of the square form;
    # condensed form: one row per unordered pair (g, h), g < h
    ensures(cross_table_ok(result, df, by, lambda dg, dh: pcDelta(dg[seq_columns], dh[seq_columns], **kwargs),
                           lambda dg: pcDelta(dg[seq_columns], **kwargs)) if not condensed else
            condensed_table_ok(result, df, by, lambda dg, dh: pcDelta(dg[seq_columns], dh[seq_columns], **kwargs)),
            name="post[pairwise two-collection pcDelta; within-group value on the diagonal]")
