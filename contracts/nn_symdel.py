# C01 / C03 / C07 / C14 -- the symmetric-delete search chain (pyrepseq/nn.py)

@contract("pyrepseq.nn._comb_gen", props=["C01", "C03"], scope="comb_gen")
def _comb_gen(seq: Str, max_edits: Nat) -> SetT(Str):
    raises(None)
    loop("L378", "inv", modifies={"new_seq": JoinedListT(), "offset": Int},
         inv=[0 <= offset and offset <= len(seq),
              offset == (0 if _i == 0 else index_at(indexes, _i - 1) + 1),
              joined(new_seq) + delvar(seq, indexes, _i, offset) == delvar(seq, indexes, 0, 0)])
    # result = {seq} + all deletion variants at admissible position tuples, i.e. (L-comb) exactly the
    # subsequences of seq that are at most max_edits shorter
    ensures(use_lemma("comb") and forall_in(result, lambda v: in_del(v, seq, max_edits)), name="post[sound]")
    ensures(forall(TStr, lambda v: implies(in_del(v, seq, max_edits),
                                           member(result, v) if v == seq else
                                           member(result, v, del_count(seq, v), del_index(seq, v)))),
            name="post[complete]")
    returns(del_set(seq, max_edits), assume_only=True)
