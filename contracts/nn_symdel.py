# C01 / C03 / C07 / C14 -- the symmetric-delete search chain (pyrepseq/nn.py)

@contract("pyrepseq.nn._comb_gen", props=["C01", "C03"], scope="comb_gen")
def _comb_gen(seq: Str, max_edits: Nat) -> SetT(Str):
    raises(None)
    loop("loop3", "inv", modifies={"new_seq": JoinedListT(), "offset": Int},
         inv=[0 <= offset and offset <= len(seq),
              offset == (0 if _i == 0 else index_at(indexes, _i - 1) + 1),
              joined(new_seq) + delvar(seq, indexes, _i, offset) == delvar(seq, indexes, 0, 0)])
    # result = {seq} + all deletion variants at admissible position tuples, i.e. (L-comb) exactly the
    # subsequences of seq that are at most max_edits shorter
    ensures(use_lemma("comb") and forall_in(result, lambda v: in_del(v, seq, max_edits)), name="post[sound]")
    ensures(forall(TStr, lambda v: implies(in_del(v, seq, max_edits),
                                           member(result, v) if v == seq else
                                           member(result, v, del_count(seq, v), del_index(seq, v)))),
            name="post[complete]")
    returns(del_set(seq, max_edits), assume_only=True)


@predicate
def symdel_index_ok(d, seqs, k, upto):
    # d maps each deletion variant to the strictly increasing list of exactly the positions (< upto) having it
    return (forall(TStr, lambda v: implies(v in d, len(d[v]) >= 1 and forall(TInt, lambda q: implies(
                0 <= q and q < len(d[v]), 0 <= d[v][q] and d[v][q] < upto and in_del(v, seqs[d[v][q]], k)))))
            and forall(TStr, TInt, TInt, lambda v, q, q2: implies(v in d and 0 <= q and q < q2 and q2 < len(d[v]), d[v][q] < d[v][q2]))
            and forall(TStr, TInt, lambda v, p: implies(0 <= p and p < upto and in_del(v, seqs[p], k),
                                                        v in d and exists(TInt, lambda q: 0 <= q and q < len(d[v]) and d[v][q] == p))))


@contract("pyrepseq.nn.SymdelDB.__init__", props=["C01", "C03"], scope="symdeldb_init")
def SymdelDB__init__(self: Inst("SymdelDB"), seqs: OneOf(Seq(Str, "list"), Seq(Str, "ndarray"), SeriesT(Str, "int")), max_edits: Nat):
    raises(None)
    field("variant_dict", DictT(Str, Seq(Nat)))
    loop("loop1", "inv", modifies={"self.variant_dict": DictT(Str, Seq(Nat))},
         inv=[symdel_index_ok(self.variant_dict, seqs, max_edits, _i)])
    loop("loop2", "inv", modifies={"self.variant_dict": DictT(Str, Seq(Nat))},
         inv=[forall(TStr, lambda v: implies(v in self.variant_dict, len(self.variant_dict[v]) >= 1 and forall(TInt, lambda q: implies(
                  0 <= q and q < len(self.variant_dict[v]),
                  0 <= self.variant_dict[v][q] and self.variant_dict[v][q] <= i
                  and in_del(v, seqs[self.variant_dict[v][q]], max_edits)
                  and implies(self.variant_dict[v][q] == i, v in _done))))),
              forall(TStr, TInt, TInt, lambda v, q, q2: implies(
                  v in self.variant_dict and 0 <= q and q < q2 and q2 < len(self.variant_dict[v]),
                  self.variant_dict[v][q] < self.variant_dict[v][q2])),
              forall(TStr, TInt, lambda v, p: implies(
                  (0 <= p and p < i and in_del(v, seqs[p], max_edits)) or (p == i and v in _done),
                  v in self.variant_dict and exists(TInt, lambda q: 0 <= q and q < len(self.variant_dict[v])
                                                    and self.variant_dict[v][q] == p,
                                                    hints=[len(self.variant_dict[v]) - 1])))])
    sets("seqs", as_array(seqs))      # a positional array: later look-ups are by position for every container kind
    sets("max_edits", max_edits)
    ensures(symdel_index_ok(self.variant_dict, seqs, max_edits, len(seqs)), name="post[index]")
    # Skolemised form of the last conjunct of post[index] (callers name the witness position)
    skolem_ensures(forall(TStr, TInt, lambda v, p: implies(
        0 <= p and p < len(seqs) and in_del(v, seqs[p], max_edits),
        0 <= vd_pos(self, v, p) and vd_pos(self, v, p) < len(self.variant_dict[v]) and self.variant_dict[v][vd_pos(self, v, p)] == p)))


@contract("pyrepseq.nn._hamming_replacement", props=["C07"], scope="string_pairs")
def _hamming_replacement(seq_a: Str, seq_b: Str):
    raises(None)
    returns(ham(seq_a, seq_b) if len(seq_a) == len(seq_b) else float("inf"))


@predicate
def is_neighbor(a, b, mode, k, maxcd):
    # the property's neighbour relation in the three modes
    return ((lev(a, b) <= k) if mode is None else
            (len(a) == len(b) and ham(a, b) <= k) if mode == "hamming" else
            (lev(a, b) <= k and mode(a, b) <= maxcd))


@predicate
def neighbor_value(a, b, mode):
    return lev(a, b) if mode is None else (ham(a, b) if mode == "hamming" else mode(a, b))


@predicate
def common_variant(a, b, mode, k):
    return common_del_h(a, b, k) if mode == "hamming" else common_del(a, b, k)


@contract("pyrepseq.nn.symdel", props=["C01", "C03", "C07", "C10", "C14"], scope="search_calls")
def symdel(seqs: OneOf(Seq(Str, "list"), Seq(Str, "ndarray"), SeriesT(Str, "int")), max_edits: Int, max_returns: NoneType, n_cpu: Int,
           custom_distance: OneOf(NoneType, Const("hamming"), FnT(Str, Str, returns=RealT(lo=0), symmetric=True, zero_diag=True)),
           max_custom_distance: OneOf(Const(float("inf")), RealT(lo=0)),
           output_type: OneOf(Const("triplets"), Const("coo_matrix")),
           seqs2: OneOf(NoneType, Seq(Str, "list"), SeriesT(Str, "int"), SameAs("seqs")), progress: Const(False)):
    raises("AssertionError", when=not valid_search_args(seqs, max_edits, max_returns, n_cpu, custom_distance,
                                                         max_custom_distance, output_type, seqs2))
    # C10: the argument check runs on the caller's own objects (not on converted copies, which NumPy would have coerced)
    validates("pyrepseq.nn._check_common_input", seqs=seqs, max_edits=max_edits, max_returns=max_returns, n_cpu=n_cpu,
              custom_distance=custom_distance, max_cust_dist=max_custom_distance, output_type=output_type, seqs2=seqs2)
    # --- one collection: ordered pairs of distinct positions ---------------------------------------------
    ensures(forall_in(triplets_of(result), lambda t: 0 <= t[0] and t[0] < len(seqs) and 0 <= t[1] and t[1] < len(seqs) and t[0] != t[1]
                      and is_neighbor(seqs[t[0]], seqs[t[1]], custom_distance, max_edits, max_custom_distance)
                      and t[2] == neighbor_value(seqs[t[0]], seqs[t[1]], custom_distance))
            if seqs2 is None else True, name="post[self: sound]")
    ensures(forall(TInt, TInt, lambda i, j: implies(
        0 <= i and i < len(seqs) and 0 <= j and j < len(seqs) and i != j
        and is_neighbor(seqs[i], seqs[j], custom_distance, max_edits, max_custom_distance),
        member(triplets_of(result), (i, j, neighbor_value(seqs[i], seqs[j], custom_distance)),
               common_variant(seqs[i], seqs[j], custom_distance, max_edits),
               vd_pos(created("SymdelDB"), common_variant(seqs[i], seqs[j], custom_distance, max_edits), i if i < j else j),
               vd_pos(created("SymdelDB"), common_variant(seqs[i], seqs[j], custom_distance, max_edits), j if i < j else i))))
            if seqs2 is None else True, name="post[self: complete]")
    ensures(is_setlike(triplets_of(result)) and functional_on(triplets_of(result), lambda t: (t[0], t[1]))
            if seqs2 is None else True, name="post[self: each pair once]")
    # --- two collections: (q, r, d) with q a query position (seqs2) and r a reference position (seqs) ----
    ensures(bag_equal(triplets_of(result), neighbor_triplets(
        seqs2, seqs, lambda a, b: is_neighbor(a, b, custom_distance, max_edits, max_custom_distance),
        lambda a, b: neighbor_value(a, b, custom_distance))) and is_setlike(triplets_of(result))
            if seqs2 is not None else True, name="post[two collections]")
    ensures(output_kind(result) == output_type and
            (output_type == "triplets" or output_shape(result) == (len(seqs), len(seqs) if seqs2 is None else len(seqs2))),
            name="post[output form]")
    # what callers may use (equivalent to the clauses above): the specified triplet set in the requested form
    returns(search_output(neighbor_triplets(
        seqs if seqs2 is None else seqs2, seqs,
        lambda a, b: is_neighbor(a, b, custom_distance, max_edits, max_custom_distance),
        lambda a, b: neighbor_value(a, b, custom_distance), seqs2 is None), output_type, seqs, seqs2), assume_only=True)


@contract("pyrepseq.nn.SymdelDB.lookup", props=["C03", "C07", "C10", "C14"], scope="symdeldb_lookup")
def SymdelDB_lookup(self: Inst("SymdelDB", seqs=Seq(Str, "ndarray"), max_edits=Nat, variant_dict=DictT(Str, Seq(Nat))),
                    seqs2: OneOf(Seq(Str, "list"), Seq(Str, "ndarray"), SeriesT(Str, "int")),
                    custom_distance: OneOf(NoneType, Const("hamming"), FnT(Str, Str, returns=RealT(lo=0), symmetric=True, zero_diag=True)),
                    max_custom_distance: OneOf(Const(float("inf")), RealT(lo=0)),
                    output_type: OneOf(Const("triplets"), Const("coo_matrix")), progress: Const(False)):
    # class invariant established by __init__
    requires(symdel_index_ok(self.variant_dict, self.seqs, self.max_edits, len(self.seqs)))
    # Skolemised form of the invariant's last conjunct (vd_pos names the witness position; sound: it exists)
    requires(forall(TStr, TInt, lambda v, p: implies(
        0 <= p and p < len(self.seqs) and in_del(v, self.seqs[p], self.max_edits),
        0 <= vd_pos(self, v, p) and vd_pos(self, v, p) < len(self.variant_dict[v]) and self.variant_dict[v][vd_pos(self, v, p)] == p)),
        name="index witness")
    raises(None)
    ensures(forall_in(triplets_of(result), lambda t: 0 <= t[0] and t[0] < len(seqs2) and 0 <= t[1] and t[1] < len(self.seqs)
                      and is_neighbor(seqs2[t[0]], self.seqs[t[1]], custom_distance, self.max_edits, max_custom_distance)
                      and t[2] == neighbor_value(seqs2[t[0]], self.seqs[t[1]], custom_distance)), name="post[sound]")
    ensures(forall(TInt, TInt, lambda q, r: implies(
        0 <= q and q < len(seqs2) and 0 <= r and r < len(self.seqs)
        and is_neighbor(seqs2[q], self.seqs[r], custom_distance, self.max_edits, max_custom_distance),
        # (the first conjunct only names the witnesses: common deletion variant and its list position)
        # witnesses of the candidate step: the common deletion variant and the position of r in its index list
        member(triplets_of(result), (q, r, neighbor_value(seqs2[q], self.seqs[r], custom_distance)), q, r,
               inner=[(common_variant(seqs2[q], self.seqs[r], custom_distance, self.max_edits),
                       vd_pos(self, common_variant(seqs2[q], self.seqs[r], custom_distance, self.max_edits), r))]))),
            name="post[complete]")
    ensures(no_duplicates(triplets_of(result), lambda t: (t[0], t[1])), name="post[each pair once]")
    ensures(output_kind(result) == output_type and
            (output_type == "triplets" or output_shape(result) == (len(self.seqs), len(seqs2))), name="post[output form]")
    # frame: a lookup changes nothing, so any sequence of lookups answers like a fresh database
    returns(search_output(neighbor_triplets(
        seqs2, self.seqs, lambda a, b: is_neighbor(a, b, custom_distance, self.max_edits, max_custom_distance),
        lambda a, b: neighbor_value(a, b, custom_distance)), output_type, self.seqs, seqs2), assume_only=True)


@contract("pyrepseq.nn._outside_radius", inline=True, props=["C14", "C01", "C03", "C07"])
def _outside_radius():
    # four-line helper: inlined (its body is verified as part of symdel and SymdelDB.lookup)
    note("inlined into its callers")


@contract("pyrepseq.nn.nearest_neighbor", props=["C01", "C03", "C07", "C10", "C14"], scope="search_calls_nn")
def nearest_neighbor(seqs: Seq(Str, "list"), max_edits: Int, max_returns: NoneType, n_cpu: Int,
                     custom_distance: OneOf(NoneType, Const("hamming"), FnT(Str, Str, returns=RealT(lo=0), symmetric=True, zero_diag=True)),
                     max_custom_distance: OneOf(Const(float("inf")), RealT(lo=0)),
                     output_type: OneOf(Const("triplets"), Const("coo_matrix")),
                     seqs2: OneOf(NoneType, Seq(Str, "list"), SameAs("seqs"))):
    # behaves exactly as symdel on the same eight arguments (each bound to the same-named parameter)
    raises("AssertionError", when=not valid_search_args(seqs, max_edits, max_returns, n_cpu, custom_distance,
                                                         max_custom_distance, output_type, seqs2))
    delegates("pyrepseq.nn.symdel", seqs=seqs, max_edits=max_edits, max_returns=max_returns, n_cpu=n_cpu,
              custom_distance=custom_distance, max_custom_distance=max_custom_distance, output_type=output_type, seqs2=seqs2)


# ---- hash_based: LookupDB over the exact edit ball -----------------------------------------------------------

@predicate
def within(query, y, is_hamming, d):
    # y is in the radius-d ball of query (strings over the amino-acid alphabet)
    return (over_alphabet(y, "ACDEFGHIKLMNPQRSTVWY")
            and ((len(y) == len(query) and ham(query, y) <= d) if is_hamming else lev(query, y) <= d))


@predicate
def ball_value(query, y, is_hamming):
    return ham(query, y) if is_hamming else lev(query, y)


@contract("pyrepseq.nn._generate_neighbors", props=["C03", "C04", "C07"], scope="generate_neighbors")
def _generate_neighbors(query: Str, max_edits: Nat, is_hamming: OneOf(Const(False), Const(True))) -> DictT(Str, Int):
    requires(over_alphabet(query, "ACDEFGHIKLMNPQRSTVWY"))
    raises(None)
    # rounds: after round d the keys are exactly the strings within distance d, valued by their distance
    loop("loop1", "inv", modifies={"ans": DictT(Str, Int)},
         inv=[forall(TStr, lambda y: (y in ans) == within(query, y, is_hamming, _i)),
              forall(TStr, lambda y: implies(y in ans, ans[y] == ball_value(query, y, is_hamming)))])
    # within a round: keys = keys at the start of the round + one-edit variants of the processed ones
    loop("loop2", "inv", elem=Str, modifies={"ans": DictT(Str, Int)},
         inv=[forall(TStr, lambda y: (y in ans) == ((y in ans_0) or exists(TStr, lambda s: (s in _done) and (
                  n1h(s, "ACDEFGHIKLMNPQRSTVWY", y) if is_hamming else n1(s, "ACDEFGHIKLMNPQRSTVWY", y)),
                  hints=[seq, ham_pred(query, y) if is_hamming else lev_pred(query, y)]))),
              forall(TStr, lambda y: implies(y in ans, ans[y] == (ans_0[y] if y in ans_0 else edit_distance)))])
    loop("loop3", "inv", elem=Str, modifies={"ans": DictT(Str, Int)},
         inv=[forall(TStr, lambda y: (y in ans) == ((y in ans_0) or (y in _done))),
              forall(TStr, lambda y: implies(y in ans, ans[y] == (ans_0[y] if y in ans_0 else edit_distance)))])
    ensures(forall(TStr, lambda y: (y in result) == within(query, y, is_hamming, max_edits)), name="post[keys = ball]")
    ensures(forall(TStr, lambda y: implies(y in result, result[y] == ball_value(query, y, is_hamming))), name="post[values = distance]")


@predicate
def lookup_index_ok(d, seqs, upto):
    # d maps each sequence to the strictly increasing list of exactly the positions (< upto) holding it
    return (forall(TStr, lambda v: implies(v in d, len(d[v]) >= 1 and forall(TInt, lambda q: implies(
                0 <= q and q < len(d[v]), 0 <= d[v][q] and d[v][q] < upto and seqs[d[v][q]] == v))))
            and forall(TStr, TInt, TInt, lambda v, q, q2: implies(v in d and 0 <= q and q < q2 and q2 < len(d[v]), d[v][q] < d[v][q2]))
            and forall(TInt, lambda p: implies(0 <= p and p < upto,
                                               seqs[p] in d and exists(TInt, lambda q: 0 <= q and q < len(d[seqs[p]]) and d[seqs[p]][q] == p,
                                                                       hints=[len(d[seqs[p]]) - 1]))))


@contract("pyrepseq.nn.LookupDB.__init__", props=["C03", "C04"], scope="lookupdb_init")
def LookupDB__init__(self: Inst("LookupDB"), seqs: OneOf(Seq(Str, "list"), Seq(Str, "ndarray"))):
    raises(None)
    field("seq_dict", DictT(Str, Seq(Nat)))
    loop("loop1", "inv", modifies={"self.seq_dict": DictT(Str, Seq(Nat))},
         inv=[lookup_index_ok(self.seq_dict, seqs, _i)])
    sets("seqs", seqs)
    ensures(lookup_index_ok(self.seq_dict, seqs, len(seqs)), name="post[index]")
    skolem_ensures(forall(TInt, lambda p: implies(
        0 <= p and p < len(seqs),
        0 <= vd_pos(self, seqs[p], p) and vd_pos(self, seqs[p], p) < len(self.seq_dict[seqs[p]])
        and self.seq_dict[seqs[p]][vd_pos(self, seqs[p], p)] == p)))


@predicate
def all_over(seqs, alphabet):
    return forall(TInt, lambda p: implies(0 <= p and p < len(seqs), over_alphabet(seqs[p], alphabet)))


@contract("pyrepseq.nn.LookupDB.lookup", props=["C03", "C04", "C07", "C10", "C14"], scope="lookupdb_lookup")
def LookupDB_lookup(self: Inst("LookupDB", seqs=Seq(Str, "ndarray"), seq_dict=DictT(Str, Seq(Nat))),
                    seqs2: OneOf(Seq(Str, "list"), Seq(Str, "ndarray")), max_edits: Nat,
                    pdist_mode: OneOf(Const(False), Const(True)),
                    custom_distance: OneOf(NoneType, Const("hamming"), FnT(Str, Str, returns=RealT(lo=0), symmetric=True, zero_diag=True)),
                    max_custom_distance: OneOf(Const(float("inf")), RealT(lo=0)),
                    output_type: OneOf(Const("triplets"), Const("coo_matrix")), progress: Const(False)):
    requires(lookup_index_ok(self.seq_dict, self.seqs, len(self.seqs)))
    requires(forall(TInt, lambda p: implies(
        0 <= p and p < len(self.seqs),
        0 <= vd_pos(self, self.seqs[p], p) and vd_pos(self, self.seqs[p], p) < len(self.seq_dict[self.seqs[p]])
        and self.seq_dict[self.seqs[p]][vd_pos(self, self.seqs[p], p)] == p)), name="index witness")
    # the property's alphabet restriction: the edit ball is enumerated over the 20 amino-acid letters
    requires(all_over(self.seqs, "ACDEFGHIKLMNPQRSTVWY") and all_over(seqs2, "ACDEFGHIKLMNPQRSTVWY"))
    raises(None)
    ensures(forall_in(triplets_of(result), lambda t: 0 <= t[0] and t[0] < len(seqs2) and 0 <= t[1] and t[1] < len(self.seqs)
                      and (not pdist_mode or t[0] != t[1])
                      and is_neighbor(seqs2[t[0]], self.seqs[t[1]], custom_distance, max_edits, max_custom_distance)
                      and t[2] == neighbor_value(seqs2[t[0]], self.seqs[t[1]], custom_distance)), name="post[sound]")
    ensures(forall(TInt, TInt, lambda q, r: implies(
        0 <= q and q < len(seqs2) and 0 <= r and r < len(self.seqs) and (not pdist_mode or q != r)
        and is_neighbor(seqs2[q], self.seqs[r], custom_distance, max_edits, max_custom_distance),
        member(triplets_of(result), (q, r, neighbor_value(seqs2[q], self.seqs[r], custom_distance)),
               q, self.seqs[r], vd_pos(self, self.seqs[r], r)))), name="post[complete]")
    ensures(no_duplicates(triplets_of(result), lambda t: (t[0], t[1])), name="post[each pair once]")
    ensures(output_kind(result) == output_type and
            (output_type == "triplets" or output_shape(result) == (len(self.seqs), len(seqs2))), name="post[output form]")
    returns(search_output(neighbor_triplets(
        seqs2, self.seqs, lambda a, b: is_neighbor(a, b, custom_distance, max_edits, max_custom_distance),
        lambda a, b: neighbor_value(a, b, custom_distance), pdist_mode), output_type, self.seqs, seqs2), assume_only=True)


@contract("pyrepseq.nn.hash_based", props=["C04", "C07", "C10", "C14"], scope="search_calls_aa")
def hash_based(seqs: OneOf(Seq(Str, "list"), Seq(Str, "ndarray"), SeriesT(Str, "int")), max_edits: Int,
               max_returns: NoneType, n_cpu: Int,
               custom_distance: OneOf(NoneType, Const("hamming"), FnT(Str, Str, returns=RealT(lo=0), symmetric=True, zero_diag=True)),
               max_custom_distance: OneOf(Const(float("inf")), RealT(lo=0)),
               output_type: OneOf(Const("triplets"), Const("coo_matrix")), progress: Const(False)):
    requires(all_over(seqs, "ACDEFGHIKLMNPQRSTVWY"))
    raises("AssertionError", when=not valid_search_args(seqs, max_edits, max_returns, n_cpu, custom_distance,
                                                         max_custom_distance, output_type, None))
    # C10: the argument check runs on the caller's own objects (not on converted copies, which NumPy would have coerced)
    validates("pyrepseq.nn._check_common_input", seqs=seqs, max_edits=max_edits, max_returns=max_returns, n_cpu=n_cpu,
              custom_distance=custom_distance, max_cust_dist=max_custom_distance, output_type=output_type)
    # the same triplet set as the default engine (symdel's specification), in the requested form
    ensures(bag_equal(triplets_of(result), neighbor_triplets(
        seqs, seqs, lambda a, b: is_neighbor(a, b, custom_distance, max_edits, max_custom_distance),
        lambda a, b: neighbor_value(a, b, custom_distance), True)) and is_setlike(triplets_of(result)), name="post[= default search]")
    ensures(output_kind(result) == output_type and (output_type == "triplets" or output_shape(result) == (len(seqs), len(seqs))),
            name="post[output form]")
    returns(search_output(neighbor_triplets(
        seqs, seqs, lambda a, b: is_neighbor(a, b, custom_distance, max_edits, max_custom_distance),
        lambda a, b: neighbor_value(a, b, custom_distance), True), output_type, seqs, None), assume_only=True)


@contract("pyrepseq.nn._lookup", inline=True, props=["C14"])
def _lookup():
    note("five-line table look-up helper: inlined into nearest_neighbor_tcrdist")


@contract("pyrepseq.nn.nearest_neighbor_tcrdist", props=["C14"], scope="tcrdist_calls")
def nearest_neighbor_tcrdist(df: TableT(["CDR3A", "TRAV", "CDR3B", "TRBV"], min_rows=1), chain: OneOf(Const("beta"), Const("alpha"), Const("both")), max_edits: Pos,
                             edit_on_trimmed: OneOf(Const(True), Const(False)), max_tcrdist: RealT(lo=0)):
    # (the CDR3 column holds strings; nearest_neighbor's contract applies to the list made from it)
    raises(None)
    ensures(is_empty_result(result) == bag_is_empty(call_result("pyrepseq.nn.nearest_neighbor")), name="post[empty result exactly when no candidate pair]")
    # non-empty case, term level (the TCRdist functions are opaque library operations): the rows (q, r, TCRdist) of the candidate
    # pairs whose TCRdist -- V-gene table distance plus CDR3 distance, summed over the requested chains -- is at most max_tcrdist
    ensures(implies(not is_empty_result(result),
                    same_value(result, tcr_rows(np.array(call_result("pyrepseq.nn.nearest_neighbor")), tcrdist_of(df, chain, np.array(call_result("pyrepseq.nn.nearest_neighbor"))[:, :2]),
                                                max_tcrdist))),
            name="post[rows within max_tcrdist, valued by the summed TCRdist]")



@predicate
def table_lookup(t, rows, cols):
    # element-wise value of the labelled table t at (row label, column label)
    return t.values.flat[t.index.get_indexer(rows) * len(t.columns) + t.columns.get_indexer(cols)]


@predicate
def chain_distance(df, chain, edges):
    # one chain: bundled V-gene table at (V of the first, V of the second TCR) + pwseqdist's TCRdist of the CDR3 pair with the
    # documented parameters (CDR3 weight 3, gap penalty 12, trimming 3 / 2)
    return (table_lookup(pd.read_csv(os.path.join(os.path.dirname(__file__), "data", f"vdists_{chain}.csv"), index_col=0),
                         df[f"TR{chain[0].upper()}V"].iloc[edges[:, 0]], df[f"TR{chain[0].upper()}V"].iloc[edges[:, 1]])
            + pwseqdist.apply_pairwise_sparse(metric=pwseqdist.metrics.nb_vector_tcrdist, seqs=np.asarray(df[f"CDR3{chain[0].upper()}"]),
                                              pairs=edges, use_numba=True, fixed_gappos=False, ntrim=3, ctrim=2, dist_weight=3,
                                              gap_penalty=12))


@predicate
def tcrdist_of(df, chain, edges):
    return (chain_distance(df, "beta", edges) + chain_distance(df, "alpha", edges)) if chain == "both" else chain_distance(df, chain, edges)


@predicate
def tcr_rows(arr, dist, max_tcrdist):
    return set_column(arr, 2, dist)[set_column(arr, 2, dist)[:, 2] <= max_tcrdist]
