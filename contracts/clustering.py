# C15 -- clustering (pyrepseq/clustering.py, pyrepseq/distance.py).  Term level: igraph / scipy.cluster.hierarchy / the pandas
# selection operations are assumed, opaque deterministic functions; the contracts fix which operation is applied to what.
# Assumed of igraph (not decided here): connected_components().membership labels two vertices alike exactly when a path of edges
# joins them; community_* never merges different components.  Assumed of SciPy: single linkage cut at t = components of the
# "distance <= t" graph.

@predicate
def multi_member_rows(frame):
    # the rows whose cluster label occurs more than once (clusters with a single member are dropped)
    return frame[frame["cluster"].isin(set(frame["cluster"].value_counts()[frame["cluster"].value_counts() > 1].index))]


@predicate
def edge_graph(adjacency_matrix, nodes):
    # vertices 0 .. len(nodes)-1 (so that isolated nodes exist), one edge per neighbour triplet (q, r, d): q -- r
    return igraph.Graph(first_two_columns(np.array(adjacency_matrix)), n=len(nodes))


@contract("pyrepseq.clustering.graph_clustering", props=["C15"], scope="graph_clustering_calls")
def graph_clustering(adjacency_matrix: Seq(TupleT(Nat, Nat, RealT(lo=0)), "list"),
                     nodes: OneOf(Seq(Str, "list"), Seq(Str, "ndarray"), SeriesT(Str, "int")),
                     clustering: OneOf(Const("cc"), Const("fastgreedy"), Const("multilevel"), Const("leiden")),
                     kwargs: KwargsT()):
    requires(forall_in(adjacency_matrix, lambda t: t[0] < len(nodes) and t[1] < len(nodes)))
    raises(None)      # in particular for an EMPTY neighbour list (every node isolated)
    ensures(implies(clustering == "cc",
                    same_value(result, multi_member_rows(pd.DataFrame(dict(
                        node=nodes, cluster=edge_graph(adjacency_matrix, nodes).connected_components().membership))))),
            name="post[cc: caller's labels with their component, singleton components dropped]")
    ensures(implies(clustering == "fastgreedy",
                    same_value(result, multi_member_rows(pd.DataFrame(dict(
                        node=nodes, cluster=simplified(edge_graph(adjacency_matrix, nodes)).community_fastgreedy().as_clustering().membership))))),
            name="post[fastgreedy on the simplified graph]")
    ensures(implies(clustering == "multilevel",
                    same_value(result, multi_member_rows(pd.DataFrame(dict(
                        node=nodes, cluster=simplified(edge_graph(adjacency_matrix, nodes)).community_multilevel().membership))))),
            name="post[multilevel on the simplified graph]")
    ensures(implies(clustering == "leiden",
                    same_value(result, multi_member_rows(pd.DataFrame(dict(
                        node=nodes, cluster=simplified(edge_graph(adjacency_matrix, nodes)).community_leiden().membership))))),
            name="post[leiden on the simplified graph]")


@predicate
def as_table(seqs):
    # the legacy (alpha, beta) tuple form means the two-column table of the paired sequences; everything else is taken as it is
    return paired_frame(seqs) if is_pair_tuple(seqs) else seqs


@contract("pyrepseq.distance.hierarchical_clustering", props=["C15"], scope="hierarchical_calls")
def hierarchical_clustering(seqs: OneOf(Seq(Str, "list", min_len=2), Seq(Str, "ndarray", min_len=2), TableT(["CDR3A", "CDR3B"], min_rows=2),
                                        TableT(["TRBV", "CDR3B"], min_rows=2),
                                        TupleT(Seq(Str, "list", min_len=2), Seq(Str, "list", min_len=2))),
                            metric: OneOf(NoneType, Obj("Metric")),
                            linkage_kws: OneOf(Const({"method": "average", "optimal_ordering": True}), Const({"method": "single"})),
                            cluster_kws: OneOf(Const({"t": 6, "criterion": "distance"}), Const({"t": 2, "criterion": "maxclust"}))):
    raises(None)
    # exactly SciPy's linkage of the metric's condensed pairwise distances (given metric, else the default for the data as in
    # pcDelta), and SciPy's flat clusters of that linkage, with the caller's (or the documented default) options
    ensures(same_value(result[0], hc.linkage(the_metric(metric, as_table(seqs)).calc_pdist_vector(as_table(seqs)),
                                             **linkage_kws)), name="post[linkage of the metric's pairwise distances]")
    ensures(same_value(result[1], hc.fcluster(result[0], **cluster_kws)), name="post[flat clusters of that linkage]")
