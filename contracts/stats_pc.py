# C02 / C06 -- coincidence probability and its variance estimator (pyrepseq/stats.py)

@contract("pyrepseq.stats.pc_n", props=["C02", "C06"], scope="count_vectors_N2")
def pc_n(n: OneOf(Seq(Nat, "list", min_len=1), Seq(Nat, "ndarray", min_len=1))) -> Real:
    requires(vsum(n) >= 2)
    raises(None)
    returns(vsum(n * (n - 1)) / (vsum(n) * (vsum(n) - 1)))
    ensures(0 <= result and result <= 1, name="post[range]")
    canary(close(result, vsum(n * (n - 1)) / (vsum(n) * vsum(n))), name="N^2")


@contract("pyrepseq.stats.pc", props=["C02", "C06"], scope="samples", opaque_on_tables=True)
def pc(array: OneOf(Seq(Str, "list", min_len=2), Seq(Str, "ndarray", min_len=2), Seq(Int, "list", min_len=2),
                    TableT(["c0"], min_rows=2), TableT(["c0", "c1"], min_rows=2), TableT(["c0", "c1", "c2"], min_rows=2),
                    TupleT(Seq(Str, "list", min_len=2), Seq(Str, "list", min_len=2))),
       array2: OneOf(NoneType, Seq(Str, "list", min_len=1), Seq(Str, "ndarray", min_len=1), Seq(Int, "list", min_len=1),
                     TableT(["c0", "c1"], min_rows=1))) -> Real:
    # tables: rows are serialised with "." between cells, so no cell text may contain "." (property's precondition)
    requires(cells_ok(array, "."))
    requires(cells_ok(array2, "."))
    requires(comparable(array, array2))
    raises(None)
    # (1) the code counts coincidences of the "."-serialised rows ...
    ensures(close(result, coinc(joined_rows(array, ".")) / (len(sample_keys(array)) * (len(sample_keys(array)) - 1)))
            if array2 is None else True, name="post[one-sample]")
    ensures(close(result, cross(joined_rows(array, "."), joined_rows(array2, ".")) / (len(sample_keys(array)) * len(sample_keys(array2))))
            if array2 is not None else True, name="post[two-sample]")
    # (2) ... and two serialised rows coincide exactly when the rows agree in every column (L-join instance, code-independent)
    lemma(coinc(joined_rows(array, ".")) == coinc(sample_keys(array)), name="serialisation injective (one sample)")
    lemma(cross(joined_rows(array, "."), joined_rows(array2, ".")) == cross(sample_keys(array), sample_keys(array2))
          if array2 is not None else True, name="serialisation injective (two samples)")
    ensures(0 <= result and result <= 1, name="post[range]")
    # pc_n applied to the multiplicity vector returns the same number (lemma over the two contracts + L-count)
    lemma(close(post("pyrepseq.stats.pc_n", ucounts(sample_keys(array))),
                coinc(sample_keys(array)) / (len(sample_keys(array)) * (len(sample_keys(array)) - 1))),
          name="pc_n(multiplicities) == pc")
    canary(close(result, coinc(joined_rows(array, ".")) / (len(sample_keys(array)) * len(sample_keys(array)))) if array2 is None else True, name="N^2")
    returns(coinc(joined_rows(array, ".")) / (len(sample_keys(array)) * (len(sample_keys(array)) - 1)) if array2 is None
            else cross(joined_rows(array, "."), joined_rows(array2, ".")) / (len(sample_keys(array)) * len(sample_keys(array2))),
            assume_only=True)


@contract("pyrepseq.stats.pc_joint", props=["C02"], scope="tables_on", opaque_on_tables=True)
def pc_joint(df: OneOf(TableT(["a"], min_rows=2), TableT(["a", "b"], min_rows=2), TableT(["a", "b", "c"], min_rows=2),
                       TableT(["a", "b", "c", "d"], min_rows=2)),
             on: OneOf(Const(["a"]), Const(["a", "b"]), Const(["c", "a"]), Const(["a", "b", "c", "d"])),
             df_2: OneOf(NoneType, TableT(["a", "b", "c", "d"], min_rows=1)),
             gap_token: OneOf(Const("_"), Const("|"))) -> Real:
    requires(all_in(on, columns(df)))
    requires(cells_ok(df, gap_token))
    requires(cells_ok(df_2, gap_token))
    raises(None)
    ensures(close(result, coinc(joined_rows(df, gap_token, on)) / (len(df) * (len(df) - 1))) if df_2 is None else True, name="post[one-sample]")
    ensures(close(result, cross(joined_rows(df, gap_token, on), joined_rows(df_2, gap_token, on)) / (len(df) * len(df_2)))
            if df_2 is not None else True, name="post[two-sample]")
    lemma(coinc(joined_rows(df, gap_token, on)) == coinc(rows(df, on)), name="serialisation injective (one sample)")
    lemma(cross(joined_rows(df, gap_token, on), joined_rows(df_2, gap_token, on)) == cross(rows(df, on), rows(df_2, on))
          if df_2 is not None else True, name="serialisation injective (two samples)")
    canary(close(result, coinc(joined_rows(df, gap_token)) / (len(df) * (len(df) - 1))) if df_2 is None else True, name="all-columns")


@contract("pyrepseq.stats.varpc_n", props=["C06"], scope="count_arrays_N4")
def varpc_n(n: Seq(Nat, "ndarray", min_len=1)) -> Real:
    # unbiased variance estimator of the U-statistic: (A*p3 + B*p2 - C*p2^2)/(1 - C),
    # A = 4(N-2)/(N(N-1)), B = 2/(N(N-1)), C = A + B, p2 / p3 the unbiased estimates of sum p^2 / sum p^3
    requires(vsum(n) >= 4)
    raises(None)
    returns(((4 * (vsum(n) - 2) / (vsum(n) * (vsum(n) - 1))) * (vsum(n * (n - 1) * (n - 2)) / (vsum(n) * (vsum(n) - 1) * (vsum(n) - 2)))
             + (2 / (vsum(n) * (vsum(n) - 1))) * (vsum(n * (n - 1)) / (vsum(n) * (vsum(n) - 1)))
             - ((4 * (vsum(n) - 2) + 2) / (vsum(n) * (vsum(n) - 1))) * (vsum(n * (n - 1)) / (vsum(n) * (vsum(n) - 1))) ** 2)
            / (1 - (4 * (vsum(n) - 2) + 2) / (vsum(n) * (vsum(n) - 1))))
    canary(close(result, (4 * (vsum(n) - 2) / (vsum(n) * (vsum(n) - 1))) * (vsum(n * (n - 1) * (n - 2)) / (vsum(n) * (vsum(n) - 1) * (vsum(n) - 2)))), name="first-term-only")


@contract("pyrepseq.stats.stdpc_n", props=["C06"], scope="count_arrays_N4")
def stdpc_n(n: Seq(Nat, "ndarray", min_len=1)) -> Real:
    requires(vsum(n) >= 4)
    raises(None)
    ensures(implies(post("pyrepseq.stats.varpc_n", n) > 0, result >= 0 and close(result * result, post("pyrepseq.stats.varpc_n", n))), name="post[sqrt of varpc_n]")
    canary(close(result, post("pyrepseq.stats.varpc_n", n)), name="no-sqrt")


@contract("pyrepseq.stats.stdpc", props=["C06"], scope="samples4", opaque_on_tables=True)
def stdpc(array: OneOf(Seq(Str, "list", min_len=4), Seq(Str, "ndarray", min_len=4), Seq(Int, "list", min_len=4))) -> Real:
    raises(None)
    ensures(implies(post("pyrepseq.stats.varpc_n", ucounts(array)) > 0,
                    result >= 0 and close(result * result, post("pyrepseq.stats.varpc_n", ucounts(array)))), name="post[stdpc_n of the multiplicities]")
