# C10 -- output encodings and argument validation shared by the search engines (pyrepseq/nn.py)

@contract("pyrepseq.nn._make_output", props=["C10"], scope="triplet_lists")
def _make_output(triplets: OneOf(Seq(TupleT(Nat, Nat, RealT(lo=0)), "list"), Seq(TupleT(Nat, Nat, RealT(lo=0)), "set", distinct_by=None)),
                 output_type: OneOf(Const("triplets"), Const("coo_matrix"), Const("ndarray")),
                 seqs: Seq(Str, "list", min_len=1),
                 seqs2: OneOf(NoneType, Seq(Str, "list", min_len=1))):
    # every triplet (q, r, d) addresses a query position q and a reference position r ...
    requires(forall(TInt, lambda t: implies(0 <= t and t < len(triplets),
                                            triplets[t][1] < len(seqs) and triplets[t][0] < (len(seqs) if seqs2 is None else len(seqs2)))))
    # ... and, for the matrix forms, no (q, r) pair occurs twice (callers' obligation: "no entry accumulated twice")
    requires(output_type == "triplets" or forall(TInt, TInt, lambda s, t: implies(
        0 <= s and s < t and t < len(triplets), not (triplets[s][0] == triplets[t][0] and triplets[s][1] == triplets[t][1]))))
    raises(None)
    ensures(same_elements(result, triplets) and is_list(result) if output_type == "triplets" else True, name="post[triplets]")
    ensures((is_matrix(result, "coo_matrix" if output_type == "coo_matrix" else "dense_matrix")
             and mat_shape(result) == (len(seqs), len(seqs) if seqs2 is None else len(seqs2)))
            if output_type != "triplets" else True, name="post[shape]")
    ensures(forall(TInt, lambda t: implies(0 <= t and t < len(triplets),
                                           mat_at(result, triplets[t][1], triplets[t][0]) == triplets[t][2]))
            if output_type != "triplets" else True, name="post[cells]")
    ensures(forall(TInt, TInt, lambda r, q: implies(
        forall(TInt, lambda t: implies(0 <= t and t < len(triplets), not (triplets[t][1] == r and triplets[t][0] == q))),
        mat_at(result, r, q) == 0)) if output_type != "triplets" else True, name="post[zero elsewhere]")
    canary(forall(TInt, lambda t: implies(0 <= t and t < len(triplets),
                                          mat_at(result, triplets[t][0], triplets[t][1]) == triplets[t][2]))
           if output_type != "triplets" else True, name="row-col-swapped")


@contract("pyrepseq.nn._check_common_input", props=["C10"], scope="search_args")
def _check_common_input(seqs: OneOf(Seq(AnyElem, "list"), Seq(StrT(np=True), "ndarray"), SeriesT(Str, "int")),
                        max_edits: OneOf(Int, Real, Bool),
                        max_returns: OneOf(NoneType, Int, Real),
                        n_cpu: OneOf(Int, Real),
                        custom_distance: OneOf(NoneType, Str, FnT(Str, Str, returns=Real)),
                        max_cust_dist: OneOf(RealT(), Int, Const(float("inf")), NoneType),
                        output_type: Str,
                        seqs2: OneOf(NoneType, Seq(AnyElem, "list"), Int)):
    # invalid arguments are rejected with AssertionError, valid ones accepted silently; nothing else happens
    raises("AssertionError", when=not valid_search_args(seqs, max_edits, max_returns, n_cpu, custom_distance,
                                                         max_cust_dist, output_type, seqs2))
