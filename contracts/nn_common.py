# C10 -- output encodings and argument validation shared by the search engines (pyrepseq/nn.py)

@contract("pyrepseq.nn._make_output", props=["C10"], scope="triplet_lists")
def _make_output(triplets: OneOf(Seq(TupleT(Nat, Nat, RealT(lo=0)), "list"), Seq(TupleT(Nat, Nat, RealT(lo=0)), "set")),
                 output_type: OneOf(Const("triplets"), Const("coo_matrix"), Const("ndarray")),
                 seqs: Seq(Str, "list", min_len=1),
                 seqs2: OneOf(NoneType, Seq(Str, "list", min_len=1))):
    # every triplet (q, r, d) addresses a query position q and a reference position r ...
    requires(forall_in(triplets, lambda t: 0 <= t[0] and 0 <= t[1] and t[1] < len(seqs)
                       and t[0] < (len(seqs) if seqs2 is None else len(seqs2))), name="positions in range")
    # ... and, for the matrix forms, no (q, r) pair occurs twice (callers' obligation: "no entry accumulated twice")
    requires(output_type == "triplets" or no_duplicates(triplets, lambda t: (t[0], t[1])), name="pair-unique")
    raises(None)
    ensures(same_elements(result, triplets) and is_list(result) if output_type == "triplets" else True, name="post[triplets]")
    ensures((is_matrix(result, "coo_matrix" if output_type == "coo_matrix" else "dense_matrix")
             and mat_shape(result) == (len(seqs), len(seqs) if seqs2 is None else len(seqs2)))
            if output_type != "triplets" else True, name="post[shape]")
    ensures(forall_in(triplets, lambda t: mat_at(result, t[1], t[0]) == t[2])
            if output_type != "triplets" else True, name="post[cells]")
    ensures(forall(TInt, TInt, lambda r, q: implies(
        forall_in(triplets, lambda t: not (t[1] == r and t[0] == q)), mat_at(result, r, q) == 0))
        if output_type != "triplets" else True, name="post[zero elsewhere]")
    canary(forall_in(triplets, lambda t: mat_at(result, t[0], t[1]) == t[2])
           if output_type != "triplets" else True, name="row-col-swapped")
    # what callers may use: the result encodes exactly `triplets` in the requested form
    returns(search_output(triplets, output_type, seqs, seqs2), assume_only=True)


@contract("pyrepseq.nn._check_common_input", props=["C10"], scope="search_args")
def _check_common_input(seqs: OneOf(Seq(AnyElem, "list"), SeriesT(Str, "int")),
                        max_edits: OneOf(Int, Real, Bool),
                        max_returns: OneOf(NoneType, Int, Real),
                        n_cpu: OneOf(Int, Real),
                        custom_distance: OneOf(NoneType, Str, FnT(Str, Str, returns=Real)),
                        max_cust_dist: OneOf(RealT(), Const(float("inf")), NoneType),
                        output_type: Str,
                        seqs2: OneOf(NoneType, Seq(AnyElem, "list"), Int)):
    # invalid arguments are rejected with AssertionError, valid ones accepted silently; nothing else happens
    raises("AssertionError", when=not valid_search_args(seqs, max_edits, max_returns, n_cpu, custom_distance,
                                                         max_cust_dist, output_type, seqs2))
