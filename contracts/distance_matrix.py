# C08 -- functional pdist / cdist helpers (pyrepseq/distance.py): SciPy layout, every cell, kwargs forwarded

@predicate
def condidx(m, i, j):
    # SciPy's condensed index of the pair i < j among m observations
    return m * i + j - ((i + 2) * (i + 1)) // 2


@contract("pyrepseq.distance.pdist", props=["C08"], scope="pdist_calls")
def pdist(strings: OneOf(Seq(Str, "list"), Seq(Str, "tuple")), metric: FnT(Str, Str, returns=Real, kw={"w": Int}),
          dtype: Const("float64"), kwargs: KwargsT(w=Int)):
    raises(None)
    loop("loop1", "inv", modifies={"dm": Seq(Real, "ndarray"), "k": Int},
         inv=[len(dm) == (m * (m - 1)) // 2, 0 <= _i and _i <= m,
              2 * k == 2 * m * _i - _i * (_i + 1),
              forall(TInt, TInt, lambda a, b: implies(0 <= a and a < _i and a < b and b < m,
                                                      dm[condidx(m, a, b)] == metric(strings[a], strings[b], w=kwargs["w"])))])
    loop("loop2", "inv", modifies={"dm": Seq(Real, "ndarray"), "k": Int},
         inv=[len(dm) == (m * (m - 1)) // 2,
              2 * k == 2 * m * i - i * (i + 1) + 2 * _i,
              forall(TInt, TInt, lambda a, b: implies(0 <= a and a < b and b < m and (a < i or (a == i and b < i + 1 + _i)),
                                                      dm[condidx(m, a, b)] == metric(strings[a], strings[b], w=kwargs["w"])))])
    ensures(len(result) == (len(strings) * (len(strings) - 1)) // 2, name="post[length]")
    ensures(forall(TInt, TInt, lambda a, b: implies(
        0 <= a and a < b and b < len(strings),
        result[condidx(len(strings), a, b)] == metric(strings[a], strings[b], w=kwargs["w"]))), name="post[condensed layout]")


@contract("pyrepseq.distance.cdist", props=["C08"], scope="cdist_calls")
def cdist(stringsA: Seq(Str, "list"), stringsB: Seq(Str, "list"), metric: FnT(Str, Str, returns=Real, kw={"w": Int}),
          dtype: Const("float64"), kwargs: KwargsT(w=Int)):
    raises(None)
    loop("loop1", "inv", modifies={"dm": MatrixT()},
         inv=[shape2(dm) == (mA, mB),
              forall(TInt, TInt, lambda a, b: implies(0 <= a and a < _i and 0 <= b and b < mB,
                                                      cell(dm, a, b) == metric(stringA[a], stringB[b], w=kwargs["w"])))])
    loop("loop2", "inv", modifies={"dm": MatrixT()},
         inv=[shape2(dm) == (mA, mB),
              forall(TInt, TInt, lambda a, b: implies(0 <= a and 0 <= b and b < mB and (a < i or (a == i and b < _i)),
                                                      cell(dm, a, b) == metric(stringA[a], stringB[b], w=kwargs["w"])))])
    ensures(shape2(result) == (len(stringsA), len(stringsB)), name="post[shape]")
    ensures(forall(TInt, TInt, lambda a, b: implies(0 <= a and a < len(stringsA) and 0 <= b and b < len(stringsB),
                                                    cell(result, a, b) == metric(stringsA[a], stringsB[b], w=kwargs["w"]))),
            name="post[every cell]")
