# C18 -- total predicates (pyrepseq/io.py).  `string` ranges over the tagged union of Python objects
# described in pyvc/ext_anyobj.py.

AA = "ACDEFGHIKLMNPQRSTVWY"


@contract("pyrepseq.io.isvalidaa", props=["C18"], scope="any_objects")
def isvalidaa(string: OneOf(Str, NoneType, Real, Int, Const(float("nan")), Seq(IntT(0, 255), "bytes"),
                            Seq(AnyElem, "list"), Seq(AnyElem, "tuple"), Seq(AnyElem, "anyset"), Seq(AnyElem, "anydict"))) -> Bool:
    raises(None)
    ensures(isbool(result), name="post[bool]")
    ensures(result == all_chars_in(string, "ACDEFGHIKLMNPQRSTVWY") if isstr(string) else True, name="post[str]")
    ensures(result == False if (is_none(string) or isnumber(string)) else True, name="post[missing or number]")
    canary(result == True if isstr(string) else True, name="always-true")


@contract("pyrepseq.io.isvalidcdr3", props=["C18"], scope="any_objects")
def isvalidcdr3(string: OneOf(Str, NoneType, Real, Int, Const(float("nan")), Seq(IntT(0, 255), "bytes"),
                              Seq(AnyElem, "list"), Seq(AnyElem, "tuple"), Seq(AnyElem, "anyset"), Seq(AnyElem, "anydict"))) -> Bool:
    raises(None)
    ensures(isbool(result), name="post[bool]")
    ensures(result == (all_chars_in(string, "ACDEFGHIKLMNPQRSTVWY") and len(string) >= 1 and string[0] == "C"
                       and (string[-1] == "F" or string[-1] == "W" or string[-1] == "C")) if isstr(string) else True, name="post[str]")
    ensures(result == False if (is_none(string) or isnumber(string)) else True, name="post[missing or number]")
    canary(result == all_chars_in(string, "ACDEFGHIKLMNPQRSTVWY") if isstr(string) else True, name="no-anchor-check")
