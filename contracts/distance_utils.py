# C12 -- utilities built on a neighbourhood generator (pyrepseq/distance.py).  `neighborhood` is ANY callable str -> iterable of
# str, abstracted to the set of strings it yields (related(neighborhood, x, y): y is yielded for x).  With the two generators of this
# module that set is the one-edit / one-substitution set of their contracts, i.e. (Lean L-n1 / L-step / L-hstep) exactly the
# strings at Levenshtein / Hamming distance 1 over the alphabet.

@contract("pyrepseq.distance.isdist1", props=["C12"], scope="isdist1_calls")
def isdist1(x: Str, reference: OneOf(SetT(Str), Seq(Str, "list")), neighborhood: NeighborhoodT()) -> Bool:
    raises(None)
    ensures(result == exists(TStr, lambda y: related(neighborhood, x, y) and (y in reference)), name="post[true iff a neighbour is a reference]")
    canary(result == True, name="always true")


@contract("pyrepseq.distance.calculate_neighbor_numbers", props=["C12"], scope="neighbor_numbers_calls")
def calculate_neighbor_numbers(seqs: Seq(Str, "list"), reference: OneOf(NoneType, SetT(Str)), neighborhood: NeighborhoodT()):
    raises(None)
    ensures(len(result) == len(seqs), name="post[one number per sequence]")
    # |{y : y yielded for seqs[k]} intersected with the reference set (the set of all given sequences by default)|
    ensures(forall(TInt, lambda k: implies(0 <= k and k < len(seqs), result[k] == len(
        set(neighborhood(seqs[k])) & (reference if reference is not None else set(seqs))))),
            name="post[number of distinct neighbours among the references]")
    canary(forall(TInt, lambda k: implies(0 <= k and k < len(seqs), result[k] == len(set(neighborhood(seqs[k]))))), name="reference ignored")


@contract("pyrepseq.distance._flatten_list", inline=True, props=["C12"])
def _flatten_list():
    note("one-line nested comprehension: inlined")


@predicate
def reach(nb, x, z, d):
    # z can be reached from x in at least 1 and at most d steps of the neighbourhood relation
    return related(nb, x, z) if d == 1 else (reach(nb, x, z, d - 1) or exists(TStr, lambda y: reach(nb, x, y, d - 1) and related(nb, y, z)))


@contract("pyrepseq.distance.next_nearest_neighbors", props=["C12"], scope="next_nearest_calls")
def next_nearest_neighbors(x: Str, neighborhood: NeighborhoodT(), maxdistance: OneOf(Const(1), Const(2), Const(3))):
    raises(None)
    ensures(forall(TStr, lambda z: (z in result) == (z != x and reach(neighborhood, x, z, maxdistance))),
            name="post[everything within maxdistance steps, except x]")
    canary(forall(TStr, lambda z: (z in result) == reach(neighborhood, x, z, maxdistance)), name="x itself kept")


@predicate
def one_sub_hit(x, reference):
    # some reference differs from x by one substitution (a letter of the amino-acid alphabet at one position)
    return exists(TStr, lambda y: (y in one_sub_set(x, "ACDEFGHIKLMNPQRSTVWY")) and (y in reference))


@predicate
def two_sub_hit(x, reference):
    # index form of "two substitutions at two different positions by different letters of the amino-acid alphabet"
    return exists(TInt, TInt, TInt, TInt, lambda i, j, a, b: (
        0 <= i and i < j and j < len(x) and 0 <= a and a < 20 and 0 <= b and b < 20
        and char_at("ACDEFGHIKLMNPQRSTVWY", a) != char_at(x, i) and char_at("ACDEFGHIKLMNPQRSTVWY", b) != char_at(x, j)
        and (sub_at(sub_at(x, i, char_at("ACDEFGHIKLMNPQRSTVWY", a)), j, char_at("ACDEFGHIKLMNPQRSTVWY", b)) in reference)))


@predicate
def three_sub_hit(x, reference):
    return exists(TInt, TInt, TInt, TInt, TInt, TInt, lambda i, j, k, a, b, c: (
        0 <= i and i < j and j < k and k < len(x) and 0 <= a and a < 20 and 0 <= b and b < 20 and 0 <= c and c < 20
        and char_at("ACDEFGHIKLMNPQRSTVWY", a) != char_at(x, i) and char_at("ACDEFGHIKLMNPQRSTVWY", b) != char_at(x, j)
        and char_at("ACDEFGHIKLMNPQRSTVWY", c) != char_at(x, k)
        and (sub_at(sub_at(sub_at(x, i, char_at("ACDEFGHIKLMNPQRSTVWY", a)), j, char_at("ACDEFGHIKLMNPQRSTVWY", b)),
                    k, char_at("ACDEFGHIKLMNPQRSTVWY", c)) in reference)))


@contract("pyrepseq.distance._isdist2_hamming", props=["C12"], scope="isdist_hamming_calls")
def _isdist2_hamming(x: Str, reference: OneOf(SetT(Str), Seq(Str, "list"))) -> Bool:
    raises(None)
    loop("loop2", "acc")       # the two loops over the 20-letter alphabet constant: one arbitrary letter each, not 400 unrolled paths
    loop("loop4", "acc")
    ensures(result == two_sub_hit(x, reference), name="post[true iff a two-substitution variant is a reference]")


# _isdist3_hamming: six nested search loops; the generator enumerates 3 outcomes per loop level with string feasibility checks and needs
# about 15 minutes for this function.  It is therefore discharged by the THOROUGH tier only (tier="thorough"); the quick tier treats the
# contract as trusted for its caller nndist_hamming and runs it concretely as a bounded stand-in (pyvc/bounded_plugins.py).
@contract("pyrepseq.distance._isdist3_hamming", props=["C12"], scope="isdist_hamming_calls", tier="thorough")
def _isdist3_hamming(x: Str, reference: OneOf(SetT(Str), Seq(Str, "list"))) -> Bool:
    raises(None)
    loop("loop2", "acc")
    loop("loop4", "acc")
    loop("loop6", "acc")
    ensures(result == three_sub_hit(x, reference), name="post[true iff a three-substitution variant is a reference]")


@contract("pyrepseq.distance.nndist_hamming", props=["C12"], scope="nndist_calls")
def nndist_hamming(seq: Str, reference: OneOf(SetT(Str), Seq(Str, "list")), maxdist: Int) -> Int:
    raises("NotImplementedError", when=maxdist > 4)
    # min(smallest d in 0..3 with a reference at exactly d substitutions, maxdist) -- 4 when there is none within 3
    ensures(implies(seq in reference, result == 0), name="post[0 for a reference]")
    ensures(implies(not (seq in reference) and maxdist >= 1 and maxdist <= 4,
                    result == (1 if (maxdist == 1 or one_sub_hit(seq, reference)) else
                               2 if (maxdist == 2 or two_sub_hit(seq, reference)) else
                               3 if (maxdist == 3 or three_sub_hit(seq, reference)) else 4)),
            name="post[nearest substitution distance, cut off at maxdist]")


@contract("pyrepseq.distance.find_neighbor_pairs_index", props=["C12"], scope="neighbor_pairs_calls")
def find_neighbor_pairs_index(seqs: Seq(Str, "list"), neighborhood: NeighborhoodT()):
    raises(None)
    # exactly the partners: (i, p) is reported iff seqs[p] is yielded for seqs[i] and p is the first position holding that sequence
    ensures(forall_in(result, lambda t: 0 <= t[0] and t[0] < len(seqs) and 0 <= t[1] and t[1] < len(seqs)
                      and related(neighborhood, seqs[t[0]], seqs[t[1]]) and t[1] == seqs.index(seqs[t[1]])), name="post[sound]")
    ensures(forall(TInt, TInt, lambda i, j: implies(
        0 <= i and i < len(seqs) and 0 <= j and j < len(seqs) and related(neighborhood, seqs[i], seqs[j]),
        member(result, (i, seqs.index(seqs[j])), i, seqs[j]))), name="post[complete]")
    ensures(no_duplicates(result), name="post[each partner once]")


# find_neighbor_pairs: a state-carrying loop over sorted(set(seqs)) that removes each processed sequence from the reference set while
# appending pairs.  Loop invariant over the ordered model of sorted(<set of str>) (strictly increasing, exactly the set's elements).
@contract("pyrepseq.distance.find_neighbor_pairs", props=["C12"], scope="neighbor_pairs_sets")
def find_neighbor_pairs(seqs: Seq(Str, "list"), neighborhood: NeighborhoodT()):
    # a distance-1 relation: nothing is its own neighbour, and neighbourhood is symmetric (true of both generators of this module)
    requires(forall(TStr, lambda z: not related(neighborhood, z, z)))
    requires(forall(TStr, TStr, lambda u, w: related(neighborhood, u, w) == related(neighborhood, w, u)))
    raises(None)
    loop("loop1", "inv", modifies={"reference": SetT(Str), "pairs": Seq(TupleT(Str, Str), "list")},
         inv=[forall(TStr, lambda y: (y in reference) == ((y in set(seqs)) and forall(TInt, lambda k: implies(0 <= k and k < _i, sorted(set(seqs))[k] != y)))),
              forall_in(pairs, lambda t: (t[0] in set(seqs)) and (t[1] in set(seqs)) and t[0] < t[1] and related(neighborhood, t[0], t[1])
                        and exists(TInt, lambda a: 0 <= a and a < _i and sorted(set(seqs))[a] == t[0])),
              forall(TInt, TStr, lambda a, y: implies(0 <= a and a < _i and (y in set(seqs)) and sorted(set(seqs))[a] < y
                                                      and related(neighborhood, sorted(set(seqs))[a], y),
                                                      member(pairs, (sorted(set(seqs))[a], y)))),
              no_duplicates(pairs)])
    # each unordered pair of distinct given sequences that are neighbours of each other: listed exactly once (in either orientation)
    ensures(forall_in(result, lambda t: (t[0] in set(seqs)) and (t[1] in set(seqs)) and t[0] != t[1] and related(neighborhood, t[0], t[1])),
            name="post[sound]")
    ensures(forall(TStr, TStr, lambda a, b: implies((a in set(seqs)) and (b in set(seqs)) and a != b and related(neighborhood, a, b),
                                                    member(result, (a, b)) or member(result, (b, a)))), name="post[complete]")
    ensures(no_duplicates(result) and forall(TStr, TStr, lambda a, b: not (member(result, (a, b)) and member(result, (b, a)))),
            name="post[each pair once]")
