# C16 -- richness estimators (pyrepseq/stats.py).  Post-conditions are taken from the property
# statement (classical Chao forms), not from the code.

COUNTS = "OneOf(Seq(Nat, 'list', min_len=1), Seq(Nat, 'ndarray', min_len=1))"


@contract("pyrepseq.stats.chao1", props=["C16"], scope="count_vectors")
def chao1(counts: OneOf(Seq(Nat, "list", min_len=1), Seq(Nat, "ndarray", min_len=1))) -> Real:
    raises(None)
    ensures(implies(len(counts) == 1 or counts[1] == 0,
                    close(result, vsum(counts) + counts[0] * (counts[0] - 1) / 2)), name="post[f2=0]")
    ensures(implies(len(counts) >= 2 and counts[1] > 0,
                    close(result, vsum(counts) + counts[0] ** 2 / (2 * counts[1]))), name="post[f2>0]")
    ensures(result >= vsum(counts), name="post[not-below-observed]")
    canary(implies(len(counts) >= 2 and counts[1] > 0,
                   close(result, vsum(counts) + counts[0] ** 2 / (2 * counts[1] + 1))), name="f2+1")


@contract("pyrepseq.stats.var_chao1", props=["C16"], scope="count_vectors")
def var_chao1(counts: OneOf(Seq(Nat, "list", min_len=1), Seq(Nat, "ndarray", min_len=1))) -> Real:
    raises(None)
    ensures(implies(len(counts) == 1 or counts[1] == 0, isnan(result)), name="post[f2=0]")
    ensures(implies(len(counts) >= 2 and counts[1] > 0,
                    close(result, counts[1] * ((counts[0] / counts[1]) ** 2 / 2 + (counts[0] / counts[1]) ** 3
                                               + (counts[0] / counts[1]) ** 4 / 4))), name="post[f2>0]")
    canary(implies(len(counts) >= 2 and counts[1] > 0,
                   close(result, counts[1] * ((counts[0] / counts[1]) ** 2 / 2 + (counts[0] / counts[1]) ** 3
                                              + (counts[0] / counts[1]) ** 4 / 256))), name="r4/256")


@contract("pyrepseq.stats.chao2", props=["C16"], scope="count_vectors_m")
def chao2(counts: OneOf(Seq(Nat, "list", min_len=1), Seq(Nat, "ndarray", min_len=1)), m: Pos) -> Real:
    raises(None)
    ensures(implies(len(counts) == 1 or counts[1] == 0, isnan(result)), name="post[q2=0]")
    ensures(implies(len(counts) >= 2 and counts[1] > 0,
                    close(result, vsum(counts) + counts[0] ** 2 / (2 * counts[1]))), name="post[q2>0]")
    ensures(implies(len(counts) >= 2 and counts[1] > 0, result >= vsum(counts)), name="post[not-below-observed]")
    canary(implies(len(counts) >= 2 and counts[1] > 0,
                   close(result, vsum(counts) + counts[0] ** 2 / (2 * counts[1]) + 1)), name="+1")


@contract("pyrepseq.stats.var_chao2", props=["C16"], scope="count_vectors_m")
def var_chao2(counts: OneOf(Seq(Nat, "list", min_len=1), Seq(Nat, "ndarray", min_len=1)), m: Pos) -> Real:
    raises(None)
    ensures(implies(len(counts) == 1 or counts[1] == 0, isnan(result)), name="post[q2=0]")
    ensures(implies(len(counts) >= 2 and counts[1] > 0,
                    close(result, counts[1] * ((counts[0] / counts[1]) ** 2 / 2 + (counts[0] / counts[1]) ** 3
                                               + (counts[0] / counts[1]) ** 4 / 4))), name="post[q2>0]")
    canary(implies(len(counts) >= 2 and counts[1] > 0,
                   close(result, counts[1] * ((counts[0] / counts[1]) ** 2 + (counts[0] / counts[1]) ** 3
                                              + (counts[0] / counts[1]) ** 4 / 4))), name="r2")


# ---- set overlap statistics.  A, B are collections of hashable elements (list / set / Series);
# eset = element set, dropna_set = the same without missing values.

@contract("pyrepseq.stats.jaccard_index", props=["C16"], scope="collections")
def jaccard_index(A: OneOf(CollT("list"), CollT("set"), CollT("Series")),
                  B: OneOf(CollT("list"), CollT("set"), CollT("Series"))) -> Real:
    # documented behaviour: missing values are dropped inside Series only -- and only there may they occur (the property's domain: how two
    # NaN objects in plain lists / sets compare depends on object identity in Python)
    requires(is_series(A) or card(dropna_set(eset(A))) == card(eset(A)))
    requires(is_series(B) or card(dropna_set(eset(B))) == card(eset(B)))
    requires(card((dropna_set(eset(A)) if is_series(A) else eset(A)) | (dropna_set(eset(B)) if is_series(B) else eset(B))) > 0)
    raises(None)
    returns(card((dropna_set(eset(A)) if is_series(A) else eset(A)) & (dropna_set(eset(B)) if is_series(B) else eset(B)))
            / card((dropna_set(eset(A)) if is_series(A) else eset(A)) | (dropna_set(eset(B)) if is_series(B) else eset(B))))
    canary(close(result, card(eset(A) & eset(B)) / card(dropna_set(eset(A)) | eset(B))), name="wrong-na")


@contract("pyrepseq.stats.overlap", props=["C16"], scope="collections")
def overlap(A: OneOf(CollT("list"), CollT("set"), CollT("Series")),
            B: OneOf(CollT("list"), CollT("set"), CollT("Series"))) -> Int:
    raises(None)
    returns(card(dropna_set(eset(A)) & dropna_set(eset(B))))
    canary(result == card(eset(A) & eset(B)), name="na-kept")


@contract("pyrepseq.stats.overlap_coefficient", props=["C16"], scope="collections")
def overlap_coefficient(A: OneOf(CollT("list"), CollT("set"), CollT("Series")),
                        B: OneOf(CollT("list"), CollT("set"), CollT("Series"))) -> Real:
    raises(None)
    ensures(implies(card(dropna_set(eset(A))) == 0 or card(dropna_set(eset(B))) == 0, isnan(result)), name="post[empty]")
    ensures(implies(card(dropna_set(eset(A))) > 0 and card(dropna_set(eset(B))) > 0,
                    close(result, card(dropna_set(eset(A)) & dropna_set(eset(B)))
                          / min(card(dropna_set(eset(A))), card(dropna_set(eset(B)))))), name="post[ratio]")
    canary(implies(card(dropna_set(eset(A))) > 0 and card(dropna_set(eset(B))) > 0,
                   close(result, card(dropna_set(eset(A)) & dropna_set(eset(B)))
                         / max(card(dropna_set(eset(A))), card(dropna_set(eset(B)))))), name="max")
