# C09 -- the TcrLevenshtein metric family (pyrepseq/metric/tcr_metric/tcr_levenshtein.py, tcr_metric.py).
# Tables: column-wise model (string cells, any number of rows).  CDR1 / CDR2 of a V allele come from tidytcells' reference data:
# v_loop(allele, n) is an uninterpreted function ('' when the allele has no such loop).

ALPHA = ["AlphaCdr3Levenshtein", "AlphaCdrLevenshtein", "Cdr3Levenshtein", "CdrLevenshtein"]
BETA = ["BetaCdr3Levenshtein", "BetaCdrLevenshtein", "Cdr3Levenshtein", "CdrLevenshtein"]
ALLCDR = ["AlphaCdrLevenshtein", "BetaCdrLevenshtein", "CdrLevenshtein"]


@predicate
def chain_on(self, letter):
    return (class_name(self) in ["AlphaCdr3Levenshtein", "AlphaCdrLevenshtein", "Cdr3Levenshtein", "CdrLevenshtein"]) if letter == "A" else \
        (class_name(self) in ["BetaCdr3Levenshtein", "BetaCdrLevenshtein", "Cdr3Levenshtein", "CdrLevenshtein"])


@predicate
def all_loops(self):
    return class_name(self) in ["AlphaCdrLevenshtein", "BetaCdrLevenshtein", "CdrLevenshtein"]


@predicate
def loop_of(table, n, letter, i):
    # loop n of chain `letter` of row i: CDR3 from the table, CDR1 / CDR2 from the row's V allele
    return table_cell(table, "CDR3" + letter, i) if n == 3 else v_loop(table_cell(table, "TR" + letter + "V", i), n)


@predicate
def weight_of(self, n, letter):
    return (self._chain_weights.alpha_weight if letter == "A" else self._chain_weights.beta_weight) * \
        (self._cdr_weights.cdr1_weight if n == 1 else self._cdr_weights.cdr2_weight if n == 2 else self._cdr_weights.cdr3_weight)


@predicate
def loop_term(self, anchors, comparisons, n, letter, i, j):
    return (weight_of(self, n, letter) * apply2(self._scorer, loop_of(anchors, n, letter, i), loop_of(comparisons, n, letter, j))) \
        if (chain_on(self, letter) and (n == 3 or all_loops(self))) else 0


@predicate
def tcr_distance(self, anchors, comparisons, i, j):
    # sum over the chains and loops in the metric's scope of chain weight * loop weight * weighted Levenshtein of the two loops
    return (loop_term(self, anchors, comparisons, 3, "A", i, j) + loop_term(self, anchors, comparisons, 3, "B", i, j)
            + loop_term(self, anchors, comparisons, 1, "A", i, j) + loop_term(self, anchors, comparisons, 1, "B", i, j)
            + loop_term(self, anchors, comparisons, 2, "A", i, j) + loop_term(self, anchors, comparisons, 2, "B", i, j))


@predicate
def has_scope_columns(self, table):
    # the columns the metric reads: CDR3 (and the V gene for the all-CDR metrics) of every chain in its scope
    return is_table(table) and all([((("CDR3" + l) in table) and ((("TR" + l + "V") in table) or not all_loops(self))) or not chain_on(self, l)
                                    for l in ["A", "B"]])


@predicate
def is_tcr_table(x):
    return is_table(x) and (("TRAV" in x) or ("CDR3A" in x) or ("TRAJ" in x) or ("TRBV" in x) or ("CDR3B" in x) or ("TRBJ" in x))


@contract("pyrepseq.metric.tcr_metric.tcr_metric.is_in_standard_format", inline=True, props=["C09"])
def is_in_standard_format():
    note("eight-line column test: inlined")


@contract("pyrepseq.metric.tcr_metric.tcr_levenshtein.TcrLevenshtein.calc_cdist_matrix", props=["C09"], scope="tcrlev_cdist")
def TcrLevenshtein_calc_cdist_matrix(
        self: OneOf(Inst("AlphaCdr3Levenshtein", _scorer=FnT(Str, Str, returns=Int), _chain_weights=Inst("ChainWeights", alpha_weight=Pos, beta_weight=Pos),
                         _cdr_weights=Inst("CdrWeights", cdr1_weight=Pos, cdr2_weight=Pos, cdr3_weight=Pos)),
                    Inst("BetaCdr3Levenshtein", _scorer=FnT(Str, Str, returns=Int), _chain_weights=Inst("ChainWeights", alpha_weight=Pos, beta_weight=Pos),
                         _cdr_weights=Inst("CdrWeights", cdr1_weight=Pos, cdr2_weight=Pos, cdr3_weight=Pos)),
                    Inst("Cdr3Levenshtein", _scorer=FnT(Str, Str, returns=Int), _chain_weights=Inst("ChainWeights", alpha_weight=Pos, beta_weight=Pos),
                         _cdr_weights=Inst("CdrWeights", cdr1_weight=Pos, cdr2_weight=Pos, cdr3_weight=Pos)),
                    Inst("AlphaCdrLevenshtein", _scorer=FnT(Str, Str, returns=Int), _chain_weights=Inst("ChainWeights", alpha_weight=Pos, beta_weight=Pos),
                         _cdr_weights=Inst("CdrWeights", cdr1_weight=Pos, cdr2_weight=Pos, cdr3_weight=Pos)),
                    Inst("BetaCdrLevenshtein", _scorer=FnT(Str, Str, returns=Int), _chain_weights=Inst("ChainWeights", alpha_weight=Pos, beta_weight=Pos),
                         _cdr_weights=Inst("CdrWeights", cdr1_weight=Pos, cdr2_weight=Pos, cdr3_weight=Pos)),
                    Inst("CdrLevenshtein", _scorer=FnT(Str, Str, returns=Int), _chain_weights=Inst("ChainWeights", alpha_weight=Pos, beta_weight=Pos),
                         _cdr_weights=Inst("CdrWeights", cdr1_weight=Pos, cdr2_weight=Pos, cdr3_weight=Pos))),
        anchors: OneOf(TableT(["TRAV", "CDR3A", "TRBV", "CDR3B"]), TableT(["TRBV", "CDR3B", "note"]), TableT(["CDR3A", "TRAV"]), TableT(["x"]),
                       Seq(Str, "list")),
        comparisons: OneOf(TableT(["TRAV", "CDR3A", "TRBV", "CDR3B"]), TableT(["TRBV", "CDR3B", "note"]), TableT(["CDR3A", "TRAV"]))):
    # a TCR table must provide the columns the metric reads (otherwise pandas' KeyError is the documented outcome)
    requires(implies(is_tcr_table(anchors), has_scope_columns(self, anchors)) and has_scope_columns(self, comparisons))
    raises("ValueError", when=not is_tcr_table(anchors))
    ensures(shape2(result) == (len(anchors), len(comparisons)), name="post[shape]")
    ensures(forall(TInt, TInt, lambda i, j: implies(0 <= i and i < len(anchors) and 0 <= j and j < len(comparisons),
                                                    cell(result, i, j) == tcr_distance(self, anchors, comparisons, i, j))),
            name="post[M[i,j] = sum over scope of chain weight * loop weight * weighted Levenshtein]")
    returns(matrix_of(len(anchors), len(comparisons), lambda i, j: tcr_distance(self, anchors, comparisons, i, j)), assume_only=True)


@contract("pyrepseq.metric.tcr_metric.tcr_levenshtein.TcrLevenshtein.calc_pdist_vector", props=["C09", "C05", "C15"], scope="tcrlev_pdist")
def TcrLevenshtein_calc_pdist_vector(
        self: OneOf(Inst("AlphaCdr3Levenshtein", _scorer=FnT(Str, Str, returns=Int), _chain_weights=Inst("ChainWeights", alpha_weight=Pos, beta_weight=Pos),
                         _cdr_weights=Inst("CdrWeights", cdr1_weight=Pos, cdr2_weight=Pos, cdr3_weight=Pos)),
                    Inst("BetaCdr3Levenshtein", _scorer=FnT(Str, Str, returns=Int), _chain_weights=Inst("ChainWeights", alpha_weight=Pos, beta_weight=Pos),
                         _cdr_weights=Inst("CdrWeights", cdr1_weight=Pos, cdr2_weight=Pos, cdr3_weight=Pos)),
                    Inst("Cdr3Levenshtein", _scorer=FnT(Str, Str, returns=Int), _chain_weights=Inst("ChainWeights", alpha_weight=Pos, beta_weight=Pos),
                         _cdr_weights=Inst("CdrWeights", cdr1_weight=Pos, cdr2_weight=Pos, cdr3_weight=Pos)),
                    Inst("AlphaCdrLevenshtein", _scorer=FnT(Str, Str, returns=Int), _chain_weights=Inst("ChainWeights", alpha_weight=Pos, beta_weight=Pos),
                         _cdr_weights=Inst("CdrWeights", cdr1_weight=Pos, cdr2_weight=Pos, cdr3_weight=Pos)),
                    Inst("BetaCdrLevenshtein", _scorer=FnT(Str, Str, returns=Int), _chain_weights=Inst("ChainWeights", alpha_weight=Pos, beta_weight=Pos),
                         _cdr_weights=Inst("CdrWeights", cdr1_weight=Pos, cdr2_weight=Pos, cdr3_weight=Pos)),
                    Inst("CdrLevenshtein", _scorer=FnT(Str, Str, returns=Int), _chain_weights=Inst("ChainWeights", alpha_weight=Pos, beta_weight=Pos),
                         _cdr_weights=Inst("CdrWeights", cdr1_weight=Pos, cdr2_weight=Pos, cdr3_weight=Pos))),
        instances: OneOf(TableT(["TRAV", "CDR3A", "TRBV", "CDR3B"]), TableT(["TRBV", "CDR3B", "note"]), TableT(["CDR3A", "TRAV"]), TableT(["x"]),
                         Seq(Str, "list"))):
    requires(implies(is_tcr_table(instances), has_scope_columns(self, instances)))
    raises("ValueError", when=not is_tcr_table(instances))
    # the condensed upper triangle of the self cdist: one entry per unordered pair of rows, at SciPy's condensed index
    ensures(len(result) == (len(instances) * (len(instances) - 1)) // 2, name="post[length]")
    ensures(forall(TInt, TInt, lambda i, j: implies(0 <= i and i < j and j < len(instances),
                                                    result[condidx(len(instances), i, j)] == tcr_distance(self, instances, instances, i, j))),
            name="post[condensed upper triangle of the self cdist]")


# ---- constructors: the scorer is the weighted Levenshtein distance with the given (insertion, deletion, substitution) weights, and the
# chain / loop weights are stored as given (weights a subclass does not take are 1)

@predicate
def configured(self, ins, dele, sub, aw, bw, c1, c2, c3):
    return (forall(TStr, TStr, lambda a, b: apply2(self._scorer, a, b) == wlev(a, b, ins, dele, sub))
            and self._chain_weights.alpha_weight == aw and self._chain_weights.beta_weight == bw
            and self._cdr_weights.cdr1_weight == c1 and self._cdr_weights.cdr2_weight == c2 and self._cdr_weights.cdr3_weight == c3)


@contract("pyrepseq.metric.tcr_metric.tcr_levenshtein.ChainWeights.__init__", inline=True, props=["C09"])
def ChainWeights__init__():
    note("two field assignments: inlined")


@contract("pyrepseq.metric.tcr_metric.tcr_levenshtein.CdrWeights.__init__", inline=True, props=["C09"])
def CdrWeights__init__():
    note("three field assignments: inlined")


@contract("pyrepseq.metric.tcr_metric.tcr_levenshtein.TcrLevenshtein.__init__", props=["C09"], scope="tcrlev_init_base")
def TcrLevenshtein__init__(self: OneOf(Inst("AlphaCdr3Levenshtein"), Inst("BetaCdr3Levenshtein"), Inst("Cdr3Levenshtein"), Inst("AlphaCdrLevenshtein"),
                                       Inst("BetaCdrLevenshtein"), Inst("CdrLevenshtein")),
                           insertion_weight: Pos, deletion_weight: Pos, substitution_weight: Pos, alpha_weight: Pos, beta_weight: Pos,
                           cdr1_weight: Pos, cdr2_weight: Pos, cdr3_weight: Pos):
    raises(None)
    ensures(configured(self, insertion_weight, deletion_weight, substitution_weight, alpha_weight, beta_weight, cdr1_weight, cdr2_weight, cdr3_weight),
            name="post[scorer and weights as given]")
    sets("_scorer", wlev_scorer(insertion_weight, deletion_weight, substitution_weight), assume_only=True)
    sets("_chain_weights", chain_weights(alpha_weight, beta_weight), assume_only=True)
    sets("_cdr_weights", cdr_weights(cdr1_weight, cdr2_weight, cdr3_weight), assume_only=True)


@contract("pyrepseq.metric.tcr_metric.tcr_levenshtein.AlphaCdr3Levenshtein.__init__", props=["C09"], scope="tcrlev_init_AlphaCdr3Levenshtein")
def AlphaCdr3Levenshtein__init__(self: Inst("AlphaCdr3Levenshtein"), insertion_weight: Pos, deletion_weight: Pos, substitution_weight: Pos):
    raises(None)
    ensures(configured(self, insertion_weight, deletion_weight, substitution_weight, 1, 1, 1, 1, 1), name="post[scorer and weights as given, others 1]")
    sets("_scorer", wlev_scorer(insertion_weight, deletion_weight, substitution_weight), assume_only=True)
    sets("_chain_weights", chain_weights(1, 1), assume_only=True)
    sets("_cdr_weights", cdr_weights(1, 1, 1), assume_only=True)


@contract("pyrepseq.metric.tcr_metric.tcr_levenshtein.BetaCdr3Levenshtein.__init__", props=["C09"], scope="tcrlev_init_BetaCdr3Levenshtein")
def BetaCdr3Levenshtein__init__(self: Inst("BetaCdr3Levenshtein"), insertion_weight: Pos, deletion_weight: Pos, substitution_weight: Pos):
    raises(None)
    ensures(configured(self, insertion_weight, deletion_weight, substitution_weight, 1, 1, 1, 1, 1), name="post[scorer and weights as given, others 1]")
    sets("_scorer", wlev_scorer(insertion_weight, deletion_weight, substitution_weight), assume_only=True)
    sets("_chain_weights", chain_weights(1, 1), assume_only=True)
    sets("_cdr_weights", cdr_weights(1, 1, 1), assume_only=True)


@contract("pyrepseq.metric.tcr_metric.tcr_levenshtein.Cdr3Levenshtein.__init__", props=["C09"], scope="tcrlev_init_Cdr3Levenshtein")
def Cdr3Levenshtein__init__(self: Inst("Cdr3Levenshtein"), insertion_weight: Pos, deletion_weight: Pos, substitution_weight: Pos, alpha_weight: Pos, beta_weight: Pos):
    raises(None)
    ensures(configured(self, insertion_weight, deletion_weight, substitution_weight, alpha_weight, beta_weight, 1, 1, 1), name="post[scorer and weights as given, others 1]")
    sets("_scorer", wlev_scorer(insertion_weight, deletion_weight, substitution_weight), assume_only=True)
    sets("_chain_weights", chain_weights(alpha_weight, beta_weight), assume_only=True)
    sets("_cdr_weights", cdr_weights(1, 1, 1), assume_only=True)


@contract("pyrepseq.metric.tcr_metric.tcr_levenshtein.AlphaCdrLevenshtein.__init__", props=["C09"], scope="tcrlev_init_AlphaCdrLevenshtein")
def AlphaCdrLevenshtein__init__(self: Inst("AlphaCdrLevenshtein"), insertion_weight: Pos, deletion_weight: Pos, substitution_weight: Pos, cdr1_weight: Pos, cdr2_weight: Pos, cdr3_weight: Pos):
    raises(None)
    ensures(configured(self, insertion_weight, deletion_weight, substitution_weight, 1, 1, cdr1_weight, cdr2_weight, cdr3_weight), name="post[scorer and weights as given, others 1]")
    sets("_scorer", wlev_scorer(insertion_weight, deletion_weight, substitution_weight), assume_only=True)
    sets("_chain_weights", chain_weights(1, 1), assume_only=True)
    sets("_cdr_weights", cdr_weights(cdr1_weight, cdr2_weight, cdr3_weight), assume_only=True)


@contract("pyrepseq.metric.tcr_metric.tcr_levenshtein.BetaCdrLevenshtein.__init__", props=["C09"], scope="tcrlev_init_BetaCdrLevenshtein")
def BetaCdrLevenshtein__init__(self: Inst("BetaCdrLevenshtein"), insertion_weight: Pos, deletion_weight: Pos, substitution_weight: Pos, cdr1_weight: Pos, cdr2_weight: Pos, cdr3_weight: Pos):
    raises(None)
    ensures(configured(self, insertion_weight, deletion_weight, substitution_weight, 1, 1, cdr1_weight, cdr2_weight, cdr3_weight), name="post[scorer and weights as given, others 1]")
    sets("_scorer", wlev_scorer(insertion_weight, deletion_weight, substitution_weight), assume_only=True)
    sets("_chain_weights", chain_weights(1, 1), assume_only=True)
    sets("_cdr_weights", cdr_weights(cdr1_weight, cdr2_weight, cdr3_weight), assume_only=True)

# (CdrLevenshtein defines no constructor of its own: it uses TcrLevenshtein.__init__ with all eight weights)
