"""Symbolic executor over the real Python AST (the VC generator's core).

Code mode follows Python's operational semantics (short-circuiting, exceptions, definite
assignment) and forks on symbolic conditions; spec mode (contract expressions) builds total
logical terms without forking.  Calls to repository functions are replaced by their side-car
contracts (modular verification); calls to libraries go through the assumed extern
contracts in externs.py.
"""
import ast
import z3
from .values import *
from .ctx import Ctx, PathAbort, explore_sub
from . import types as T


def _const_ids(t):
    """ids of the uninterpreted constants occurring in a z3 term (no caching: z3 AST ids are reused after GC)"""
    out = set()
    seen = set()
    stack = [t]
    while stack:
        e = stack.pop()
        i = e.get_id()
        if i in seen:
            continue
        seen.add(i)
        if z3.is_quantifier(e):
            stack.append(e.body())
            continue
        if z3.is_const(e) and e.decl().kind() == z3.Z3_OP_UNINTERPRETED:
            out.add(i)
        stack.extend(e.children())
    return out


def _decl_ids(t):
    """ids of the uninterpreted function declarations (arity >= 1) applied in a z3 term"""
    out = set()
    seen = set()
    stack = [t]
    while stack:
        e = stack.pop()
        i = e.get_id()
        if i in seen:
            continue
        seen.add(i)
        if z3.is_quantifier(e):
            stack.append(e.body())
            continue
        if z3.is_app(e) and e.num_args() > 0 and e.decl().kind() == z3.Z3_OP_UNINTERPRETED:
            out.add(e.decl().get_id())
        stack.extend(e.children())
    return out


def _value_const_ids(v):
    out = set()
    if isinstance(v, (VBool, VInt, VReal, VStr)):
        return _const_ids(v.term)
    if isinstance(v, VTuple):
        for x in v.items:
            out |= _value_const_ids(x)
    if isinstance(v, VObj) and v.term is not None:
        out |= _const_ids(v.term)
    if isinstance(v, VList) and isinstance(v.content, ConcreteSeq):
        for x in v.content.items:
            out |= _value_const_ids(x)
    return out


class PyRaise(Exception):
    def __init__(self, exc, msg="", line=None):
        super().__init__(exc, msg, line)
        self.exc, self.msg, self.line = exc, msg, line


class ReturnSig(Exception):
    def __init__(self, value):
        self.value = value


class BreakSig(Exception):
    pass


class ContinueSig(Exception):
    pass


EXC_PARENT = {
    "BaseException": None, "Exception": "BaseException", "KeyboardInterrupt": "BaseException",
    "TypeError": "Exception", "ValueError": "Exception", "LookupError": "Exception",
    "IndexError": "LookupError", "KeyError": "LookupError", "AssertionError": "Exception",
    "AttributeError": "Exception", "NameError": "Exception", "UnboundLocalError": "NameError",
    "ArithmeticError": "Exception", "ZeroDivisionError": "ArithmeticError", "OverflowError": "ArithmeticError",
    "NotImplementedError": "RuntimeError", "RuntimeError": "Exception", "StopIteration": "Exception",
    "ImportError": "Exception", "NumpyDivideByZero": "Exception", "OSError": "Exception",
}


def exc_matches(exc, handler):
    while exc is not None:
        if exc == handler:
            return True
        exc = EXC_PARENT.get(exc, "Exception" if exc != "BaseException" else None)
    return False


class Env:
    def __init__(self, module, parent=None, func=None):
        self.vars = {}
        self.parent = parent
        self.module = module
        self.func = func
        self.globals_decl = set()
        self.local_names = set()

    def lookup(self, name):
        e = self
        while e is not None:
            if name in e.vars:
                return e.vars[name]
            e = e.parent
        raise KeyError(name)

    def store(self, name, value):
        self.vars[name] = value


def assigned_names(fnode):
    """Names local to a function (assigned anywhere in its body, excluding nested defs' bodies)."""
    out = set()

    def targets(t):
        if isinstance(t, ast.Name):
            out.add(t.id)
        elif isinstance(t, (ast.Tuple, ast.List)):
            for e in t.elts:
                targets(e)
        elif isinstance(t, ast.Starred):
            targets(t.value)

    def walk(stmts):
        for s in stmts:
            if isinstance(s, (ast.FunctionDef, ast.ClassDef)):
                out.add(s.name)
                continue
            if isinstance(s, ast.Assign):
                for t in s.targets:
                    targets(t)
            elif isinstance(s, (ast.AugAssign, ast.AnnAssign)):
                targets(s.target)
            elif isinstance(s, ast.For):
                targets(s.target)
            elif isinstance(s, ast.With):
                for it in s.items:
                    if it.optional_vars is not None:
                        targets(it.optional_vars)
            elif isinstance(s, ast.Try):
                for h in s.handlers:
                    if h.name:
                        out.add(h.name)
            for fld in ("body", "orelse", "finalbody"):
                if hasattr(s, fld) and not isinstance(s, (ast.FunctionDef, ast.ClassDef)):
                    walk(getattr(s, fld))
            if isinstance(s, ast.Try):
                for h in s.handlers:
                    walk(h.body)
    walk(fnode.body)
    g = set()
    for n in ast.walk(fnode):
        if isinstance(n, ast.Global):
            g.update(n.names)
    return out - g


class Interp:
    def __init__(self, repo, ctx, registry, externs, specfuns):
        self.repo = repo
        self.ctx = ctx
        self.registry = registry      # qualname -> Contract
        self.externs = externs        # module object with EXTERNS / METHODS / BUILTINS
        self.specfuns = specfuns
        self.spec_mode = False
        self.current_contract = None
        self.current_qualname = None
        self.loop_counter = 0
        self.calls_made = []          # (callee qualname, line)
        self.contract_calls = []      # (callee qualname, bound args, result)
        self.contract_attempts = []   # (callee qualname, bound args): recorded before the callee's contract is applied
        self._loop_ord = {}
        self.class_stack = []         # (class VFunc, self) of the repo methods being executed (for super())
        self.frame_ok = set()         # ids of non-owned objects the contract allows the function to mutate
        self.module_objs = {}
        self.global_state = {}        # (module, name) -> Value  (module-level mutable state)
        self.birth = {}               # id(obj) -> acc depth at creation
        self.yield_targets = []
        self.old_values = {}

    # ------------------------------------------------------------------ utilities
    def born(self, v):
        if isinstance(v, Value) and v.mutable:
            self.birth[id(v)] = len(self.ctx.acc_frames)
            v._keepalive = True
        return v

    def birth_depth(self, v):
        return self.birth.get(id(v), 0)

    def unsupported(self, node, what):
        line = getattr(node, "lineno", "?")
        raise Unsupported(f"{self.current_qualname}:{line}: {what}")

    def truth(self, v, node=None):
        """z3 Bool (or Python bool) for the truthiness of a value."""
        if isinstance(v, VBool):
            return v.term
        if isinstance(v, VNone):
            return False
        if isinstance(v, VInt):
            return v.term != 0
        if isinstance(v, VReal):
            return v.term != 0
        if isinstance(v, (VNan, VInf)):
            return True
        if isinstance(v, VStr):
            return z3.Length(v.term) > 0
        if isinstance(v, VTuple):
            return len(v.items) > 0
        if isinstance(v, VList):
            if v.kind == "ndarray":
                self.unsupported(node, "truth value of an array")
            return self.seq_len(v) > 0
        if isinstance(v, VDict):
            if v.items is not None:
                return len(v.items) > 0
        if isinstance(v, (VFunc, VType, VModule)):
            return True
        if isinstance(v, VObj):
            if v.tag in ("DataFrame", "Series", "ndarray", "boolarray"):
                if self.spec_mode:
                    self.unsupported(node, f"truth value of {v.tag}")
                # numpy / pandas: the truth value of an array with more than one element is ambiguous
                self.ctx.assumed.add("extern:bool(array-like with several elements) raises ValueError")
                raise PyRaise("ValueError", "The truth value of an array is ambiguous", getattr(node, "lineno", None))
            return True
        self.unsupported(node, f"truthiness of {v!r}")

    def test(self, v, node=None):
        """Python bool of v on this path (forks in code mode)."""
        t = self.truth(v, node)
        if isinstance(t, bool):
            return t
        return self.ctx.decide(t, getattr(node, "lineno", ""))

    # ------------------------------------------------------------------ name resolution
    def module_name(self, module, name, node=None):
        key = (module.name, name)
        if key in self.global_state:
            return self.global_state[key]
        if name in module.functions:
            return VFunc("repo", f"{module.name}.{name}", node=module.functions[name], data={"module": module})
        if name in module.classes:
            return VFunc("class", f"{module.name}.{name}", node=module.classes[name], data={"module": module})
        if name in module.constants:
            if key in self.module_objs:
                return self.module_objs[key]
            env = Env(module)
            save = self.spec_mode
            try:
                v = self.ev(module.constants[name], env)
            finally:
                self.spec_mode = save
            if isinstance(v, Value) and v.mutable:
                # module-level mutable state: one shared object, NOT owned by any call
                self.birth.pop(id(v), None)
                v.frame_name = f"module state {module.name.split('.')[-1]}.{name}"
                self.module_objs[key] = v
            return v
        if name in module.imports:
            return self.import_value(module.imports[name])
        for sm in module.star_imports:
            r = self.repo.resolve_export(sm, name)
            if r:
                return self.import_value(("repo", r[0], r[1]) if len(r) == 2 else r)
        raise KeyError(name)

    def import_value(self, imp):
        if imp[0] == "module":
            return VModule(imp[1])
        if imp[0] == "extern":
            return self.extern_value(imp[1])
        if imp[0] == "repo":
            r = self.repo.resolve_export(imp[1], imp[2])
            if r is None:
                raise Unsupported(f"cannot resolve {imp}")
            if r[0] in ("module", "extern"):
                return self.import_value(r)
            mod = self.repo.module(r[0])
            return self.module_name(mod, r[1])
        raise Unsupported(f"import {imp}")

    def extern_value(self, dotted):
        if dotted in self.externs.TYPES:
            return VType(self.externs.TYPES[dotted])
        if dotted in self.externs.CONSTANTS:
            return self.externs.CONSTANTS[dotted]()
        return VFunc("extern", dotted)

    def lookup(self, name, env, node=None):
        # locals / enclosing
        e = env
        while e is not None:
            if name in e.vars:
                return e.vars[name]
            if name in e.local_names and name not in e.globals_decl:
                # assigned somewhere in this function but not bound on this path
                if self.spec_mode:
                    break
                raise PyRaise("UnboundLocalError", name, getattr(node, "lineno", None))
            e = e.parent
        if self.spec_mode and name in self.specfuns.SPEC:
            return VFunc("spec", name)
        if self.spec_mode and name in self.registry.predicates:
            pnode, ppath = self.registry.predicates[name]
            return VFunc("closure", name, node=pnode, env=Env(env.module))
        try:
            return self.module_name(env.module, name, node)
        except KeyError:
            pass
        if name == "__file__" and env.module is not None:
            return VStr(env.module.path)
        if name in self.externs.BUILTIN_TYPES:
            return VType(self.externs.BUILTIN_TYPES[name])
        if name in self.externs.BUILTINS:
            return VFunc("builtin", name)
        if name in EXC_PARENT:
            return VType(name)
        if name in self.specfuns.SPEC:
            return VFunc("spec", name)
        if self.spec_mode:
            raise Unsupported(f"contract refers to unknown name {name}")
        raise PyRaise("NameError", name, getattr(node, "lineno", None))

    # ------------------------------------------------------------------ expressions
    def ev(self, node, env):
        m = getattr(self, "ev_" + type(node).__name__, None)
        if m is None:
            self.unsupported(node, f"expression {type(node).__name__}")
        return m(node, env)

    def ev_Constant(self, node, env):
        return const_value(node.value)

    def ev_Name(self, node, env):
        return self.lookup(node.id, env, node)

    def ev_Tuple(self, node, env):
        items = []
        for e in node.elts:
            if isinstance(e, ast.Starred):
                items.extend(self.iter_concrete(self.ev(e.value, env), e))
            else:
                items.append(self.ev(e, env))
        return VTuple(items)

    def ev_List(self, node, env):
        items = []
        for e in node.elts:
            if isinstance(e, ast.Starred):
                items.extend(self.iter_concrete(self.ev(e.value, env), e))
            else:
                items.append(self.ev(e, env))
        return self.born(VList(ConcreteSeq(items)))

    def ev_Set(self, node, env):
        return self.born(self.make_set([self.ev(e, env) for e in node.elts], node))

    def ev_Dict(self, node, env):
        items = []
        for k, v in zip(node.keys, node.values):
            if k is None:
                d = self.ev(v, env)
                if not (isinstance(d, VDict) and d.items is not None):
                    self.unsupported(node, "** of symbolic dict")
                for kk, vv in d.items:
                    self.dict_store(items, kk, vv)
            else:
                self.dict_store(items, self.ev(k, env), self.ev(v, env))
        return self.born(VDict(items=items))

    def dict_store(self, items, k, v):
        for it in items:
            c = concrete_bool(self.veq(it[0], k))
            if c is True:
                it[1] = v
                return
            if c is None:
                raise Unsupported("dict with keys of undecided equality")
        items.append([k, v])

    def ev_JoinedStr(self, node, env):
        parts = []
        for v in node.values:
            if isinstance(v, ast.Constant):
                parts.append(VStr(v.value))
            else:
                if v.conversion != -1 or v.format_spec is not None:
                    self.unsupported(node, "f-string conversion")
                parts.append(self.to_str(self.ev(v.value, env), node))
        t = z3.StringVal("")
        for p in parts:
            t = z3.Concat(t, p.term)
        return VStr(simp(t))

    def to_str(self, v, node=None):
        if isinstance(v, VStr):
            return v
        c = concrete_int(v)
        if c is not None and isinstance(v, VInt):
            return VStr(str(c))
        if isinstance(v, VInt):
            # str(int) for non-negative ints is z3 IntToStr; negative handled by case
            return VStr(z3.If(v.term >= 0, z3.IntToStr(v.term), z3.Concat(z3.StringVal("-"), z3.IntToStr(-v.term))))
        self.unsupported(node, f"str() of {v!r}")

    def ev_IfExp(self, node, env):
        if self.spec_mode:
            c = self.truth(self.ev(node.test, env), node)
            cb = c if isinstance(c, bool) else concrete_bool(c)
            if cb is not None:
                return self.ev(node.body if cb else node.orelse, env)
            if getattr(self, "spec_fork_ok", False):
                # a contract's `returns` evaluated at a call site may fork like code does
                return self.ev(node.body if self.ctx.decide(c, "spec-ite") else node.orelse, env)
            a, b = self.ev(node.body, env), self.ev(node.orelse, env)
            return self.v_ite(c, a, b, node)
        tv = self.ev(node.test, env)
        if self.ctx.acc_frames and not any(isinstance(n, (ast.Yield, ast.YieldFrom, ast.NamedExpr)) for n in ast.walk(node)):
            # inside a comprehension / accumulation loop a conditional EXPRESSION is kept as one value (both arms evaluated under their
            # condition and merged) so that the element stays a single expression of the loop variable; if the arms cannot be merged,
            # or evaluating one of them forks or raises, fall back to forking
            c = self.truth(tv, node)
            if not isinstance(c, bool) and concrete_bool(c) is None:
                from .ctx import explore_sub
                try:
                    outs_a = explore_sub(self.ctx, lambda: (self.ctx.assume(c, decision=True), self.ev(node.body, env))[1])
                    outs_b = explore_sub(self.ctx, lambda: (self.ctx.assume(z3.Not(c), decision=True), self.ev(node.orelse, env))[1])
                    if len(outs_a) == 1 and len(outs_b) == 1 and not outs_a[0][1] and not outs_b[0][1]:
                        return self.v_ite(c, outs_a[0][2], outs_b[0][2], node)
                except (Unsupported, PyRaise):
                    pass
                return self.ev(node.body, env) if self.ctx.decide(c, getattr(node, "lineno", "")) else self.ev(node.orelse, env)
        if self.test(tv, node):
            return self.ev(node.body, env)
        return self.ev(node.orelse, env)

    def v_ite(self, c, a, b, node=None):
        if isinstance(c, bool):
            return a if c else b
        cb = concrete_bool(c)
        if cb is not None:
            return a if cb else b
        if isinstance(a, VUndef):
            return b
        if isinstance(b, VUndef):
            return a
        if isinstance(a, VBool) and isinstance(b, VBool):
            return VBool(z3.If(c, a.term, b.term))
        if isinstance(a, VInt) and isinstance(b, VInt):
            return VInt(z3.If(c, a.term, b.term), a.np or b.np)
        if is_num(a) and is_num(b):
            return VReal(z3.If(c, to_real(a), to_real(b)))
        if isinstance(a, VStr) and isinstance(b, VStr):
            return VStr(z3.If(c, a.term, b.term))
        if isinstance(a, VTuple) and isinstance(b, VTuple) and len(a.items) == len(b.items):
            return VTuple([self.v_ite(c, x, y, node) for x, y in zip(a.items, b.items)])
        if isinstance(a, VObj) and isinstance(b, VObj) and a.term is not None and b.term is not None:
            return VObj(a.tag, z3.If(c, a.term, b.term))
        if a is b:
            return a
        try:
            ta, tb = self.externs._arg_term(self, a), self.externs._arg_term(self, b)
            if ta.sort() == tb.sort() == OBJ:
                return VObj("object", z3.If(c, ta, tb))      # two opaque / constant objects: the object term of the chosen one
        except Unsupported:
            pass
        self.unsupported(node, f"ite over {a!r} / {b!r}")

    def ev_BoolOp(self, node, env):
        if self.spec_mode:
            ts = []
            pushed = 0
            try:
                for v in node.values:
                    t = self.as_bool_term(self.ev(v, env), node)
                    ts.append(t)
                    cb = concrete_bool(t)
                    if cb is not None and cb == isinstance(node.op, ast.Or):
                        break       # short-circuit: the rest need not be (and may not be) evaluable
                    self.ctx.spec_hyps.append(t if isinstance(node.op, ast.And) else z3.Not(t))
                    pushed += 1
            finally:
                for _ in range(pushed):
                    self.ctx.spec_hyps.pop()
            return VBool(z3.And(*ts) if isinstance(node.op, ast.And) else z3.Or(*ts))
        v = None
        for sub in node.values:
            v = self.ev(sub, env)
            t = self.test(v, sub)
            if isinstance(node.op, ast.And) and not t:
                return v
            if isinstance(node.op, ast.Or) and t:
                return v
        return v

    def as_bool_term(self, v, node=None):
        t = self.truth(v, node)
        return z3.BoolVal(t) if isinstance(t, bool) else t

    def ev_UnaryOp(self, node, env):
        v = self.ev(node.operand, env)
        if isinstance(node.op, ast.Not):
            if self.spec_mode:
                return VBool(z3.Not(self.as_bool_term(v, node)))
            return VBool(not self.test(v, node))
        if isinstance(node.op, ast.USub):
            if isinstance(v, VInt):
                return VInt(-v.term, v.np)
            if isinstance(v, VReal):
                return VReal(-v.term, v.np)
            if isinstance(v, VInf):
                return VInf(-v.sign)
            if isinstance(v, VNan):
                return v
            return self.externs.unary_op(self, "neg", v, node)
        if isinstance(node.op, ast.UAdd):
            return v
        if isinstance(node.op, ast.Invert):
            return self.externs.unary_op(self, "invert", v, node)
        self.unsupported(node, "unary op")

    def ev_BinOp(self, node, env):
        a = self.ev(node.left, env)
        b = self.ev(node.right, env)
        return self.binop(node.op, a, b, node)

    # numeric core -------------------------------------------------------------
    def binop(self, op, a, b, node=None):
        opn = type(op).__name__
        # nan / inf
        if isinstance(a, VNan) or isinstance(b, VNan):
            if is_num(a) or is_num(b) or isinstance(a, (VNan, VInf)) and isinstance(b, (VNan, VInf)):
                return NAN
        if isinstance(a, VInf) or isinstance(b, VInf):
            return self.inf_arith(opn, a, b, node)
        if is_num(a) and is_num(b):
            return self.num_binop(opn, a, b, node)
        if isinstance(a, VStr) and isinstance(b, VStr) and opn == "Add":
            return VStr(z3.Concat(a.term, b.term), a.np and b.np)
        if isinstance(a, VStr) and opn == "Mod":
            self.unsupported(node, "% string formatting")
        if isinstance(a, VTuple) and isinstance(b, VTuple) and opn == "Add":
            return VTuple(a.items + b.items)
        if isinstance(a, VList) and isinstance(b, VList) and a.kind == "list" and b.kind == "list" and opn == "Add":
            return self.born(VList(self.seq_concat(a.content, b.content, node)))
        if isinstance(a, VList) and a.kind == "list" and opn == "Mult" and isinstance(b, VInt):
            n = concrete_int(b)
            if n is not None and isinstance(a.content, ConcreteSeq):
                return self.born(VList(ConcreteSeq(a.content.items * n)))
        if isinstance(a, VSet) and isinstance(b, VSet) and opn in ("BitAnd", "BitOr", "Sub"):
            return self.born(self.set_op(opn, a, b, node))
        return self.externs.binary_op(self, opn, a, b, node)

    def inf_arith(self, opn, a, b, node):
        if opn in ("Add", "Sub") and isinstance(a, VInf) and is_num(b):
            return a
        if opn == "Add" and isinstance(b, VInf) and is_num(a):
            return b
        if opn == "Sub" and isinstance(b, VInf) and is_num(a):
            return VInf(-b.sign)
        self.unsupported(node, f"arithmetic with inf ({opn})")

    def num_binop(self, opn, a, b, node):
        both_int = isinstance(a, (VInt, VBool)) and isinstance(b, (VInt, VBool))
        npf = getattr(a, "np", False) or getattr(b, "np", False)
        if opn in ("Add", "Sub", "Mult"):
            if both_int:
                x, y = to_int(a), to_int(b)
                r = x + y if opn == "Add" else x - y if opn == "Sub" else x * y
                return VInt(r, npf)
            x, y = to_real(a), to_real(b)
            r = x + y if opn == "Add" else x - y if opn == "Sub" else x * y
            return VReal(r, npf)
        if opn == "Div":
            x, y = to_real(a), to_real(b)
            self.nonzero(y, npf, node)
            return VReal(x / y, npf)
        if opn == "FloorDiv":
            if both_int:
                x, y = to_int(a), to_int(b)
                self.nonzero(y, npf, node)
                return VInt(z3.If(y > 0, x / y, (-x) / (-y)), npf)
            x, y = to_real(a), to_real(b)
            self.nonzero(y, npf, node)
            return VReal(z3.ToReal(z3.ToInt(x / y)), npf)
        if opn == "Mod":
            if both_int:
                x, y = to_int(a), to_int(b)
                self.nonzero(y, npf, node)
                return VInt(z3.If(y > 0, x % y, -((-x) % (-y))), npf)
        if opn == "Pow":
            return self.power(a, b, node)
        self.unsupported(node, f"numeric {opn}")

    def nonzero(self, y, npf, node):
        if self.spec_mode:
            return
        if not self.ctx.decide(y != 0, getattr(node, "lineno", "")):
            raise PyRaise("NumpyDivideByZero" if npf else "ZeroDivisionError", "division by zero",
                          getattr(node, "lineno", None))

    def power(self, a, b, node):
        n = concrete_int(b) if isinstance(b, VInt) else None
        npf = getattr(a, "np", False)
        if n is not None and n >= 0:
            if isinstance(a, (VInt, VBool)):
                r = z3.IntVal(1)
                for _ in range(n):
                    r = r * to_int(a)
                return VInt(r, npf)
            r = z3.RealVal(1)
            for _ in range(n):
                r = r * to_real(a)
            return VReal(r, npf)
        if isinstance(b, VReal):
            t = simp(b.term)
            if z3.is_rational_value(t) and t.numerator_as_long() == 1 and t.denominator_as_long() == 2:
                return self.externs.sqrt(self, a, node)
        return self.externs.pow(self, a, b, node)

    # comparison -------------------------------------------------------------
    def ev_Compare(self, node, env):
        left = self.ev(node.left, env)
        terms = []
        for op, comp in zip(node.ops, node.comparators):
            right = self.ev(comp, env)
            t = self.compare(op, left, right, node)
            if self.spec_mode or len(node.ops) == 1:
                terms.append(t)
            else:
                tt = t.term if isinstance(t, VBool) else self.truth(t, node)
                if not self.ctx.decide(tt, getattr(node, "lineno", "")):
                    return VBool(False)
                terms.append(VBool(True))
            left = right
        if len(terms) == 1:
            return terms[0]
        return VBool(z3.And(*[self.as_bool_term(t, node) for t in terms]))

    def compare(self, op, a, b, node=None):
        opn = type(op).__name__
        if opn == "Eq":
            r = self.externs.elementwise_compare(self, opn, a, b, node)
            if r is not None:
                return r
            return VBool(self.veq(a, b, node))
        if opn == "NotEq":
            r = self.externs.elementwise_compare(self, opn, a, b, node)
            if r is not None:
                return r
            return VBool(z3.Not(self.veq(a, b, node)))
        if opn == "Is":
            return VBool(self.v_is(a, b))
        if opn == "IsNot":
            return VBool(z3.Not(self.v_is(a, b)))
        if opn == "In":
            return VBool(self.contains(b, a, node))
        if opn == "NotIn":
            return VBool(z3.Not(self.contains(b, a, node)))
        # ordering
        r = self.externs.elementwise_compare(self, opn, a, b, node)
        if r is not None:
            return r
        return VBool(self.order(opn, a, b, node))

    def order(self, opn, a, b, node=None):
        if isinstance(a, VNan) or isinstance(b, VNan):
            return z3.BoolVal(False)
        if isinstance(a, VInf) or isinstance(b, VInf):
            if isinstance(a, VInf) and isinstance(b, VInf):
                x, y = a.sign, b.sign
            elif isinstance(a, VInf):
                x, y = a.sign, 0
            else:
                x, y = 0, b.sign
            return z3.BoolVal({"Lt": x < y, "LtE": x <= y, "Gt": x > y, "GtE": x >= y}[opn])
        if is_num(a) and is_num(b):
            if isinstance(a, (VInt, VBool)) and isinstance(b, (VInt, VBool)):
                x, y = to_int(a), to_int(b)
            else:
                x, y = to_real(a), to_real(b)
            return {"Lt": x < y, "LtE": x <= y, "Gt": x > y, "GtE": x >= y}[opn]
        if isinstance(a, VStr) and isinstance(b, VStr):
            x, y = a.term, b.term
            return {"Lt": x < y, "LtE": x <= y, "Gt": y < x, "GtE": y <= x}[opn]
        if isinstance(a, VNone) or isinstance(b, VNone):
            if not self.spec_mode:
                raise PyRaise("TypeError", "ordering with None", getattr(node, "lineno", None))
        self.unsupported(node, f"ordering {opn} of {a!r}, {b!r}")

    def v_is(self, a, b):
        if isinstance(a, VNone) or isinstance(b, VNone):
            return z3.BoolVal(isinstance(a, VNone) and isinstance(b, VNone))
        if isinstance(a, VType) and isinstance(b, VType):
            return z3.BoolVal(a.name == b.name)
        if isinstance(a, VBool) and isinstance(b, VBool):
            return a.term == b.term
        if isinstance(a, VObj) and isinstance(b, VObj) and a.tag.startswith("enum:") and b.tag.startswith("enum:"):
            return z3.BoolVal(a.tag == b.tag)
        if isinstance(a, VFunc) and isinstance(b, VFunc) and a.kind == b.kind and a.kind in ("extern", "repo", "builtin", "class"):
            return z3.BoolVal(a.name == b.name)       # module-level functions / classes are singletons
        return z3.BoolVal(a is b)

    def veq(self, a, b, node=None):
        """z3 Bool: Python == between two values."""
        if isinstance(a, VNone) or isinstance(b, VNone):
            return z3.BoolVal(isinstance(a, VNone) and isinstance(b, VNone))
        if isinstance(a, VNan) or isinstance(b, VNan):
            return z3.BoolVal(False)
        if isinstance(a, VInf) or isinstance(b, VInf):
            return z3.BoolVal(isinstance(a, VInf) and isinstance(b, VInf) and a.sign == b.sign)
        if is_num(a) and is_num(b):
            if isinstance(a, (VInt, VBool)) and isinstance(b, (VInt, VBool)):
                if isinstance(a, VBool) and isinstance(b, VBool):
                    return a.term == b.term
                return to_int(a) == to_int(b)
            return to_real(a) == to_real(b)
        if isinstance(a, VStr) and isinstance(b, VStr):
            self.join_lemma(a.term, b.term)
            return a.term == b.term
        if isinstance(a, VType) and isinstance(b, VType):
            return z3.BoolVal(a.name == b.name)
        if isinstance(a, VTuple) and isinstance(b, VTuple):
            if len(a.items) != len(b.items):
                return z3.BoolVal(False)
            return z3.And(*[self.veq(x, y, node) for x, y in zip(a.items, b.items)]) if a.items else z3.BoolVal(True)
        if isinstance(a, VFunc) and isinstance(b, VFunc):
            return z3.BoolVal(a is b or (a.kind == b.kind and a.name == b.name and a.kind in ("extern", "repo", "builtin")))
        if isinstance(a, VObj) and isinstance(b, VObj):
            if a.term is not None and b.term is not None:
                return a.term == b.term
            r = self.externs._run("eq", self, a, b, node)
            if r is not None:
                return r
            return z3.BoolVal(a is b)
        if isinstance(a, VList) and isinstance(b, VList):
            return self.seq_eq(a, b, node)
        if isinstance(a, VSet) and isinstance(b, VSet):
            return self.specfuns.set_eq(self, a, b)
        r = self.externs._run("eq", self, a, b, node)
        if r is not None:
            return r
        # different kinds: scalars vs others are simply unequal in Python
        scal = (VInt, VReal, VBool, VStr, VType, VFunc, VTuple)
        if isinstance(a, scal) and isinstance(b, scal):
            return z3.BoolVal(False)
        if isinstance(a, (VFunc, VType)) or isinstance(b, (VFunc, VType)):
            return z3.BoolVal(False)
        self.unsupported(node, f"== between {a!r} and {b!r}")

    def join_lemma(self, ta, tb):
        """L-join (Lean): sep.join is injective on rows of equal width whose cells do not contain the
        (non-empty) separator.  Added as a ground instance whenever two join terms are compared."""
        jt = getattr(self.ctx, "join_terms", None)
        if not jt:
            return
        ja, jb = jt.get(ta.get_id()), jt.get(tb.get_id())
        if ja is None or jb is None or ta.get_id() == tb.get_id():
            return
        sa, ca, _ = ja
        sb, cb, _ = jb
        if len(ca) != len(cb) or not z3.eq(sa, sb):
            return
        key = ("joinlemma", min(ta.get_id(), tb.get_id()), max(ta.get_id(), tb.get_id()))
        if key in self.ctx.axioms_added:
            return
        self.ctx.axioms_added.add(key)
        clean = z3.And(z3.Length(sa) > 0, *[z3.Not(z3.Contains(c, sa)) for c in ca + cb])
        self.ctx.assume(z3.Implies(clean, (ta == tb) == z3.And(*[x == y for x, y in zip(ca, cb)])),
                        "lemma:L-join (Lean) sep.join is injective on equal-width rows whose cells do not contain sep")

    def seq_eq(self, a, b, node=None):
        ca, cb = a.content, b.content
        if isinstance(ca, ConcreteSeq) and isinstance(cb, ConcreteSeq):
            if len(ca.items) != len(cb.items):
                return z3.BoolVal(False)
            return z3.And(*[self.veq(x, y, node) for x, y in zip(ca.items, cb.items)]) if ca.items else z3.BoolVal(True)
        la, lb = self.seq_len(a), self.seq_len(b)
        k = self.ctx.fresh("k", z3.IntSort())
        return z3.And(la == lb, z3.ForAll([k], z3.Implies(z3.And(k >= 0, k < la),
                                                           self.veq(self.seq_at(a, k), self.seq_at(b, k), node))))

    # containers ---------------------------------------------------------------
    def make_set(self, items, node=None):
        out = []
        for it in items:
            dup = False
            for o in out:
                c = concrete_bool(self.veq(o, it))
                if c is True:
                    dup = True
                    break
                if c is None:
                    # keep as bag; membership semantics are unaffected by duplicates
                    pass
            if not dup:
                out.append(it)
        return VSet(content=ConcreteSeq(out))

    def seq_len(self, v):
        """z3 Int length of a list-like value."""
        if isinstance(v, VTuple):
            return z3.IntVal(len(v.items))
        if isinstance(v, VStr):
            return z3.Length(v.term)
        c = v.content if isinstance(v, (VList, VSet)) else None
        if isinstance(c, ConcreteSeq):
            return z3.IntVal(len(c.items))
        if isinstance(c, SymSeq):
            return c.length
        raise Unsupported(f"len of {v!r}")

    def seq_at(self, v, k):
        if isinstance(v, VTuple):
            kk = simp(k) if not isinstance(k, int) else z3.IntVal(k)
            if z3.is_int_value(kk):
                return v.items[kk.as_long()]
            raise Unsupported("symbolic index into tuple")
        if isinstance(v, VStr):
            return VStr(z3.SubString(v.term, k, 1))
        c = v.content
        if isinstance(c, ConcreteSeq):
            kk = simp(k) if not isinstance(k, int) else z3.IntVal(k)
            if z3.is_int_value(kk):
                return c.items[kk.as_long()]
            # symbolic index into a concrete list: ite chain
            items = c.items
            if not items:
                return UNDEF
            r = items[-1]
            for i in range(len(items) - 2, -1, -1):
                r = self.v_ite(k == i, items[i], r)
            return r
        if isinstance(c, SymSeq):
            return c.at(k)
        raise Unsupported(f"indexing {v!r}")

    def seq_concat(self, ca, cb, node=None):
        if isinstance(ca, ConcreteSeq) and isinstance(cb, ConcreteSeq):
            return ConcreteSeq(ca.items + cb.items)
        la = z3.IntVal(len(ca.items)) if isinstance(ca, ConcreteSeq) else ca.length
        lb = z3.IntVal(len(cb.items)) if isinstance(cb, ConcreteSeq) else cb.length
        va, vb = VList(ca), VList(cb)
        return SymSeq(la + lb, lambda k: self.v_ite(k < la, self.seq_at(va, k), self.seq_at(vb, k - la)))

    def contains(self, container, item, node=None):
        """z3 Bool: item in container"""
        if isinstance(container, VStr):
            if isinstance(item, VStr):
                return z3.Contains(container.term, item.term)
            if self.spec_mode:
                return z3.BoolVal(False)
            raise PyRaise("TypeError", "'in <string>' requires string", getattr(node, "lineno", None))
        if isinstance(container, VTuple):
            return z3.Or(*[self.veq(x, item, node) for x in container.items]) if container.items else z3.BoolVal(False)
        if isinstance(container, (VDict, VSet)):
            self.externs.hashcheck(self, item, node)
        if isinstance(container, VDict):
            if container.items is not None:
                return z3.Or(*[self.veq(k, item, node) for k, _ in container.items]) if container.items else z3.BoolVal(False)
            return container.dom(item)
        if isinstance(container, (VList, VSet)):
            if isinstance(container, VSet) and container.pred is not None:
                return container.pred(item)
            c = container.content
            if isinstance(c, ConcreteSeq):
                return z3.Or(*[self.veq(x, item, node) for x in c.items]) if c.items else z3.BoolVal(False)
            if isinstance(c, SymSeq):
                k = self.ctx.fresh("k", z3.IntSort())
                return z3.Exists([k], z3.And(k >= 0, k < c.length, self.veq(c.at(k), item, node)))
            if isinstance(c, CompBag):
                return self.specfuns.bag_contains(self, c, item)
        r = self.externs.contains(self, container, item, node)
        if r is not None:
            return r
        self.unsupported(node, f"'in' on {container!r}")

    def set_op(self, opn, a, b, node):
        ca, cb = a.content, b.content
        if a.pred is None and b.pred is None and isinstance(ca, ConcreteSeq) and isinstance(cb, ConcreteSeq):
            def inn(x, items):
                for y in items:
                    c = concrete_bool(self.veq(x, y))
                    if c is None:
                        raise Unsupported("set op undecided")
                    if c:
                        return True
                return False
            if opn == "BitAnd":
                return VSet(ConcreteSeq([x for x in ca.items if inn(x, cb.items)]))
            if opn == "BitOr":
                return VSet(ConcreteSeq(ca.items + [x for x in cb.items if not inn(x, ca.items)]))
            return VSet(ConcreteSeq([x for x in ca.items if not inn(x, cb.items)]))
        return self.specfuns.sym_set_op(self, opn, a, b)

    # subscripts ---------------------------------------------------------------
    def ev_Subscript(self, node, env):
        base = self.ev(node.value, env)
        if isinstance(node.slice, ast.Slice):
            lo = self.ev(node.slice.lower, env) if node.slice.lower else None
            hi = self.ev(node.slice.upper, env) if node.slice.upper else None
            st = self.ev(node.slice.step, env) if node.slice.step else None
            return self.slice(base, lo, hi, st, node)
        idx = self.ev(node.slice, env)
        return self.index(base, idx, node)

    def norm_index(self, idx, n, node, what="IndexError"):
        """Python index normalisation with bounds check; returns z3 Int in [0,n)."""
        i = to_int(idx)
        if self.spec_mode:
            if self.ctx.known(i >= 0):
                return i
            return z3.If(i < 0, i + n, i)
        if not self.ctx.decide(z3.And(i >= -n, i < n), getattr(node, "lineno", "")):
            raise PyRaise(what, "index out of range", getattr(node, "lineno", None))
        ci = concrete_int(idx)
        if ci is not None:
            return z3.IntVal(ci) if ci >= 0 else n + ci
        if self.ctx.known(i >= 0):
            return i
        return z3.If(i < 0, i + n, i)

    def index(self, base, idx, node=None):
        if isinstance(base, VStr):
            if not isinstance(idx, (VInt, VBool)):
                if self.spec_mode:
                    self.unsupported(node, "string index type")
                raise PyRaise("TypeError", "string indices must be integers", getattr(node, "lineno", None))
            i = self.norm_index(idx, z3.Length(base.term), node)
            return VStr(z3.SubString(base.term, i, 1), base.np)
        if isinstance(base, VTuple):
            ci = concrete_int(idx)
            if ci is None:
                i = self.norm_index(idx, z3.IntVal(len(base.items)), node)
                return self.seq_at(base, i)
            if not (-len(base.items) <= ci < len(base.items)):
                if self.spec_mode:
                    self.unsupported(node, "tuple index out of range in contract")
                raise PyRaise("IndexError", "tuple index out of range", getattr(node, "lineno", None))
            return base.items[ci]
        if isinstance(base, VList):
            r = self.externs.index_hook(self, base, idx, node)
            if r is not None:
                return r
            if isinstance(base.content, CompBag):
                self.unsupported(node, "indexing an unordered accumulation")
            if not isinstance(idx, (VInt, VBool)):
                self.unsupported(node, f"list index {idx!r}")
            i = self.norm_index(idx, self.seq_len(base), node)
            return self.seq_at(base, i)
        if isinstance(base, VDict):
            if base.items is not None:
                # concrete dict: choose matching key
                opts = [self.veq(k, idx, node) for k, _ in base.items]
                if self.spec_mode:
                    r = None
                    for (k, v), o in reversed(list(zip(base.items, opts))):
                        r = v if r is None else self.v_ite(o, v, r, node)
                    return r
                none_ = z3.Not(z3.Or(*opts)) if opts else z3.BoolVal(True)
                c = self.ctx.choose(opts + [none_], getattr(node, "lineno", ""))
                if c == len(opts):
                    raise PyRaise("KeyError", "key", getattr(node, "lineno", None))
                return base.items[c][1]
            if not self.spec_mode:
                if not self.ctx.decide(base.dom(idx), getattr(node, "lineno", "")):
                    raise PyRaise("KeyError", "key", getattr(node, "lineno", None))
            r = base.get(idx)
            if isinstance(r, Value) and r.mutable and not self.spec_mode:
                r.dict_origin = (base, idx)
                self.birth[id(r)] = self.birth_depth(base)
            return r
        r = self.externs.index_hook(self, base, idx, node)
        if r is not None:
            return r
        if isinstance(base, (VNone, VInt, VReal, VBool, VNan)):
            if not self.spec_mode:
                raise PyRaise("TypeError", "not subscriptable", getattr(node, "lineno", None))
        self.unsupported(node, f"subscript of {base!r}")

    def slice(self, base, lo, hi, st, node=None):
        step = concrete_int(st) if st is not None and not isinstance(st, VNone) else 1
        if isinstance(base, VStr) and step == 1:
            n = z3.Length(base.term)
            a = self.clip(lo, n, 0)
            b = self.clip(hi, n, None)
            ln = b - a if self.ctx.known(b - a >= 0) else z3.If(b - a > 0, b - a, 0)
            return VStr(z3.SubString(base.term, a, z3.simplify(ln)), base.np)
        if isinstance(base, VTuple) and step is not None and step != 0:
            a = concrete_int(lo) if lo is not None and not isinstance(lo, VNone) else None
            b = concrete_int(hi) if hi is not None and not isinstance(hi, VNone) else None
            if (lo is None or isinstance(lo, VNone) or a is not None) and (hi is None or isinstance(hi, VNone) or b is not None):
                return VTuple(base.items[a:b:step])
        if isinstance(base, VList) and isinstance(base.content, ConcreteSeq):
            a = concrete_int(lo) if lo is not None and not isinstance(lo, VNone) else None
            b = concrete_int(hi) if hi is not None and not isinstance(hi, VNone) else None
            if (lo is None or isinstance(lo, VNone) or a is not None) and (hi is None or isinstance(hi, VNone) or b is not None):
                return self.born(VList(ConcreteSeq(base.content.items[a:b:step]), base.kind))
        if isinstance(base, VList) and isinstance(base.content, (SymSeq, ConcreteSeq)) and step == 1:
            n = self.seq_len(base)
            a = self.clip(lo, n, 0)
            b = self.clip(hi, n, None)
            ln = z3.If(b - a > 0, b - a, 0)
            return self.born(VList(SymSeq(ln, lambda k: self.seq_at(base, a + k)), base.kind))
        r = self.externs.slice_hook(self, base, lo, hi, st, node)
        if r is not None:
            return r
        self.unsupported(node, f"slice of {base!r} step {step}")

    def clip(self, v, n, default_lo):
        if v is None or isinstance(v, VNone):
            return z3.IntVal(0) if default_lo == 0 else n
        i = to_int(v)
        if self.ctx.known(z3.And(i >= 0, i <= n)):
            return i
        i = z3.If(i < 0, i + n, i)
        return z3.If(i < 0, 0, z3.If(i > n, n, i))

    # attribute -------------------------------------------------------------
    def ev_Attribute(self, node, env):
        base = self.ev(node.value, env)
        return self.getattr(base, node.attr, node)

    def getattr(self, base, attr, node=None):
        if isinstance(base, VModule):
            dotted = f"{base.dotted}.{attr}"
            if dotted in self.externs.SUBMODULES or any(k.startswith(dotted + ".") for k in self.externs.EXTERNS) \
                    and dotted not in self.externs.EXTERNS:
                return VModule(dotted)
            return self.extern_value(dotted)
        if not isinstance(base, VObj):
            r = self.externs.getattr_hook(self, base, attr, node)
            if r is not None:
                return r
        if isinstance(base, VObj) and base.tag == "super":
            return self.super_getattr(base, attr, node)
        if isinstance(base, VObj):
            if attr in base.attrs:
                return base.attrs[attr]
            r = self.externs.getattr_hook(self, base, attr, node)
            if r is not None:
                return r
            cls = base.attrs.get("__class__")
            if cls is None and base.attrs.get("__repo_instance__"):
                cls = self.resolve_class(base.tag)
                if cls is not None:
                    base.attrs["__class__"] = cls
            if cls is not None:
                m = self.find_method(cls, attr)
                if m is not None:
                    kind, val = m
                    if kind == "method":
                        return VFunc("method", attr, self_val=base, data=val)
                    return val
            if not self.spec_mode and base.attrs.get("__repo_instance__"):
                raise PyRaise("AttributeError", attr, getattr(node, "lineno", None))
        if isinstance(base, VFunc) and base.kind == "class":
            m = self.find_method(base, attr)
            if m is not None:
                return m[1] if m[0] != "method" else VFunc("closure", f"{base.name}.{attr}", node=m[1]["node"],
                                                          env=Env(m[1]["module"]), data=m[1])
        if isinstance(base, VFunc) and base.kind == "extern":
            return self.extern_value(f"{base.name}.{attr}")
        if isinstance(base, VType):
            r = self.externs.type_attr(self, base, attr, node)
            if r is not None:
                return r
        return VFunc("method", attr, self_val=base)

    def super_proxy(self, node):
        if not self.class_stack:
            self.unsupported(node, "super() outside a method")
        cls, selfv = self.class_stack[-1]
        o = VObj("super")
        o.of_class, o.self_val = cls, selfv
        return o

    def super_getattr(self, proxy, attr, node):
        """attribute lookup through super(): search the bases of the current class (repo classes only)"""
        cls = proxy.of_class
        for b in cls.node.bases:
            try:
                bv = self.ev(b, Env(cls.data["module"]))
            except (PyRaise, Unsupported):
                continue
            if isinstance(bv, VFunc) and bv.kind == "class":
                m = self.find_method(bv, attr)
                if m is not None and m[0] == "method":
                    return VFunc("method", attr, self_val=proxy.self_val, data=m[1])
        # abstract base / object: methods that do nothing observable
        return VFunc("pyfn", f"super.{attr}", data=lambda i2, a, kw, n2: NONE)

    def resolve_class(self, name):
        from .frontend import MODULE_FILES
        for mn in MODULE_FILES:
            try:
                m = self.repo.module(mn)
            except Exception:
                continue
            if name in m.classes:
                return VFunc("class", f"{mn}.{name}", node=m.classes[name], data={"module": m})
        return None

    def find_method(self, cls, attr):
        """Resolve attr through a repo class and its repo bases: ('method', info) | ('value', Value)."""
        seen = set()
        stack = [cls]
        while stack:
            c = stack.pop(0)
            if c.name in seen:
                continue
            seen.add(c.name)
            module = c.data["module"]
            for n in c.node.body:
                if isinstance(n, ast.FunctionDef) and n.name == attr:
                    is_prop = any(isinstance(d, ast.Name) and d.id == "property" for d in n.decorator_list)
                    is_static = any(isinstance(d, ast.Name) and d.id == "staticmethod" for d in n.decorator_list)
                    return ("method", {"node": n, "module": module, "cls": c, "static": is_static, "prop": is_prop,
                                       "qualname": f"{c.name.split('.')[-1]}.{attr}"})
                if isinstance(n, ast.Assign) and len(n.targets) == 1 and isinstance(n.targets[0], ast.Name) \
                        and n.targets[0].id == attr:
                    if any((isinstance(b, ast.Name) and b.id in ("Enum", "IntEnum", "Flag")) or
                           (isinstance(b, ast.Attribute) and b.attr in ("Enum", "IntEnum", "Flag")) for b in c.node.bases):
                        # a member of an Enum class: a singleton object identified by class and member name
                        if not hasattr(self, "_enum_members"):
                            self._enum_members = {}
                        key = f"enum:{c.name.split('.')[-1]}.{attr}"
                        if key not in self._enum_members:
                            self._enum_members[key] = VObj(key)
                        return ("value", self._enum_members[key])
                    return ("value", self.ev(n.value, Env(module)))
            for b in c.node.bases:
                try:
                    bv = self.ev(b, Env(module))
                except (PyRaise, Unsupported):
                    continue
                if isinstance(bv, VFunc) and bv.kind == "class":
                    stack.append(bv)
        return None

    # lambda / comprehension ------------------------------------------------
    def ev_Lambda(self, node, env):
        return VFunc("closure", "<lambda>", node=node, env=env)

    def ev_ListComp(self, node, env):
        return self.comprehension(node, env, "list")

    def ev_SetComp(self, node, env):
        return self.comprehension(node, env, "set")

    def ev_GeneratorExp(self, node, env):
        return self.comprehension(node, env, "generator")

    def ev_DictComp(self, node, env):
        return self.comprehension(node, env, "dict")

    def comprehension(self, node, env, kind):
        """Desugar into nested for-loops appending to a fresh accumulator."""
        if kind == "dict":
            acc = self.born(VDict(items=[]))
        elif kind == "set":
            acc = self.born(VSet(ConcreteSeq([])))
        else:
            acc = self.born(VList(ConcreteSeq([]), "generator" if kind == "generator" else "list"))
        cenv = Env(env.module, parent=env, func=env.func)

        def emit(e):
            if kind == "dict":
                k = self.ev(node.key, e)
                v = self.ev(node.value, e)
                self.dict_setitem(acc, k, v, node)
            elif kind == "set":
                self.mutate_add(acc, self.ev(node.elt, e), node)
            else:
                self.mutate_append(acc, self.ev(node.elt, e), node)

        def gen(i, e):
            if i == len(node.generators):
                emit(e)
                return
            g = node.generators[i]

            def body(e2):
                for cond in g.ifs:
                    if not self.test(self.ev(cond, e2), cond):
                        return
                gen(i + 1, e2)
            self.for_loop(g.target, self.ev(g.iter, e), body, e, node, label=None, comp=True)
        gen(0, cenv)
        return acc

    # calls ------------------------------------------------------------------
    def ev_Call(self, node, env):
        if self.spec_mode and isinstance(node.func, ast.Name) and node.func.id == "implies" and len(node.args) == 2:
            a = self.as_bool_term(self.ev(node.args[0], env), node)
            if concrete_bool(a) is False:
                return VBool(True)
            self.ctx.spec_hyps.append(a)
            try:
                b = self.as_bool_term(self.ev(node.args[1], env), node)
            finally:
                self.ctx.spec_hyps.pop()
            return VBool(z3.Implies(a, b))
        if isinstance(node.func, ast.Name) and node.func.id == "eval" and len(node.args) == 1 and not node.keywords:
            # eval of a string that is concrete on this path: evaluated as Python source in the calling environment
            sv = self.ev(node.args[0], env)
            src = concrete_str(sv) if isinstance(sv, VStr) else None
            if src is None:
                self.unsupported(node, "eval of a symbolic string")
            try:
                tree = ast.parse(src, mode="eval")
            except SyntaxError as e:
                raise PyRaise("SyntaxError", str(e), getattr(node, "lineno", None))
            return self.ev(tree.body, env)
        fv = self.ev(node.func, env)
        args, kwargs = [], {}
        for a in node.args:
            if isinstance(a, ast.Starred):
                sv = self.ev(a.value, env)
                if self.concrete_iter(sv) is None and len(node.args) == 1 and not node.keywords \
                        and isinstance(fv, VFunc) and fv.kind == "extern" and fv.name == "itertools.chain":
                    # chain(*nested) over a symbolic sequence of iterables == chain.from_iterable(nested)
                    acc = self.born(VList(ConcreteSeq([]), "generator"))
                    self.for_values(sv, lambda inner: self.for_values(inner, lambda x: self.mutate_append(acc, x, node), node), node)
                    return acc
                args.extend(self.iter_concrete(sv, a))
            else:
                args.append(self.ev(a, env))
        for kw in node.keywords:
            if self.spec_mode and kw.arg in ("hints", "inner") and isinstance(kw.value, (ast.List, ast.Tuple)):
                # witness hints may mention names that exist only in some proof contexts (e.g. the loop variable):
                # a hint that cannot be evaluated is simply not offered
                items = []
                for e in kw.value.elts:
                    try:
                        items.append(self.ev(e, env))
                    except (Unsupported, PyRaise):
                        pass
                kwargs[kw.arg] = VList(ConcreteSeq(items))
                continue
            v = self.ev(kw.value, env)
            if kw.arg is None:
                if not (isinstance(v, VDict) and v.items is not None):
                    self.unsupported(node, "** of a symbolic mapping")
                for k, vv in v.items:
                    ks = concrete_str(k)
                    if ks is None:
                        self.unsupported(node, "** with non-string key")
                    if ks in kwargs:
                        raise PyRaise("TypeError", f"got multiple values for keyword argument '{ks}'", node.lineno)
                    kwargs[ks] = vv
            else:
                kwargs[kw.arg] = v
        return self.call(fv, args, kwargs, node)

    def iter_concrete(self, v, node=None):
        if isinstance(v, VTuple):
            return list(v.items)
        if isinstance(v, (VList, VSet)) and isinstance(v.content, ConcreteSeq):
            return list(v.content.items)
        cs = concrete_str(v)
        if cs is not None:
            return [VStr(c) for c in cs]
        if isinstance(v, VDict) and v.items is not None:
            return [k for k, _ in v.items]
        self.unsupported(node, f"needs a concrete iterable, got {v!r}")

    def call(self, fv, args, kwargs, node=None):
        if isinstance(fv, VType):
            return self.externs.call_type(self, fv, args, kwargs, node)
        if not isinstance(fv, VFunc):
            if isinstance(fv, VObj):
                r = self.externs.call_object(self, fv, args, kwargs, node)
                if r is not None:
                    return r
            if self.spec_mode:
                self.unsupported(node, f"call of {fv!r}")
            raise PyRaise("TypeError", "object is not callable", getattr(node, "lineno", None))
        k = fv.kind
        if k == "closure":
            return self.call_closure(fv, args, kwargs, node)
        if k == "spec":
            return self.specfuns.SPEC[fv.name](self, args, kwargs, node)
        if k == "builtin":
            return self.externs.BUILTINS[fv.name](self, args, kwargs, node)
        if k == "extern":
            return self.externs.call_extern(self, fv.name, args, kwargs, node)
        if k == "uf":
            return self.call_uf(fv, args, kwargs, node)
        if k == "method":
            return self.call_method(fv, args, kwargs, node)
        if k == "repo":
            return self.call_repo(fv, args, kwargs, node)
        if k == "class":
            return self.instantiate(fv, args, kwargs, node)
        if k == "pyfn":
            return fv.data(self, args, kwargs, node)
        self.unsupported(node, f"call kind {k}")

    def bind_args(self, fargs, args, kwargs, defaults_env, node, fname="f", self_val=None, defaults=None):
        """Python argument binding; returns dict name -> Value.  Binding errors raise TypeError."""
        params = [a.arg for a in fargs.posonlyargs + fargs.args]
        out = {}
        args = list(args)
        if self_val is not None:
            args = [self_val] + args
        line = getattr(node, "lineno", None)
        if len(args) > len(params) and fargs.vararg is None:
            raise PyRaise("TypeError", f"{fname}() takes {len(params)} positional arguments but {len(args)} were given", line)
        for p, a in zip(params, args):
            out[p] = a
        if fargs.vararg is not None:
            out[fargs.vararg.arg] = VTuple(args[len(params):])
        kwonly = [a.arg for a in fargs.kwonlyargs]
        extra = {}
        for k, v in kwargs.items():
            if k in out:
                raise PyRaise("TypeError", f"{fname}() got multiple values for argument '{k}'", line)
            if k in params or k in kwonly:
                out[k] = v
            elif fargs.kwarg is not None:
                extra[k] = v
            else:
                raise PyRaise("TypeError", f"{fname}() got an unexpected keyword argument '{k}'", line)
        if fargs.kwarg is not None:
            out[fargs.kwarg.arg] = self.born(VDict(items=[[VStr(k), v] for k, v in extra.items()]))
        # defaults
        nd = len(fargs.defaults)
        for i, p in enumerate(params):
            if p not in out:
                j = i - (len(params) - nd)
                if j < 0:
                    raise PyRaise("TypeError", f"{fname}() missing required argument '{p}'", line)
                out[p] = defaults[j] if defaults is not None else self.ev(fargs.defaults[j], defaults_env)
        for p, d in zip(kwonly, fargs.kw_defaults):
            if p not in out:
                if d is None:
                    raise PyRaise("TypeError", f"{fname}() missing keyword-only argument '{p}'", line)
                out[p] = self.ev(d, defaults_env)
        return out

    def call_closure(self, fv, args, kwargs, node):
        fnode = fv.node
        env = Env(fv.env.module, parent=fv.env, func=fnode)
        bound = self.bind_args(fnode.args, args, kwargs, fv.env, node, fv.name,
                               self_val=(fv.self_val if fv.self_val is not None else None))
        env.vars.update(bound)
        if isinstance(fnode, ast.Lambda):
            return self.ev(fnode.body, env)
        for d in getattr(fnode, "decorator_list", []):
            dn = ast.unparse(d.func if isinstance(d, ast.Call) else d)
            if dn.split(".")[-1] not in ("staticmethod", "classmethod", "abstractmethod", "property", "predicate"):
                self.unsupported(node, f"call of {fv.name} whose decorator @{dn} is not modelled")
        env.local_names = assigned_names(fnode) | set(bound)
        return self.run_body(fnode, env)

    def run_body(self, fnode, env):
        is_gen = any(isinstance(n, (ast.Yield, ast.YieldFrom)) for n in ast.walk(fnode)
                     if not isinstance(n, ast.Lambda))
        if is_gen:
            acc = self.born(VList(ConcreteSeq([]), "generator"))
            self.yield_targets.append(acc)
            try:
                self.exec_block(fnode.body, env)
            except ReturnSig:
                pass
            finally:
                self.yield_targets.pop()
            return acc
        try:
            self.exec_block(fnode.body, env)
        except ReturnSig as r:
            return r.value
        return NONE

    def call_uf(self, fv, args, kwargs, node):
        ft = fv.data["type"]
        if set(kwargs) != set(ft.kw):
            if self.spec_mode:
                self.unsupported(node, "keyword mismatch calling an uninterpreted callable")
            raise PyRaise("TypeError", f"callable expects keywords {sorted(ft.kw)}, got {sorted(kwargs)}", getattr(node, "lineno", None))
        return self.specfuns.apply_uf(self, fv, list(args) + [kwargs[k] for k in ft.kw], node)

    def call_method(self, fv, args, kwargs, node):
        sv = fv.self_val
        if fv.data is not None:      # repo method
            info = fv.data
            qual = f"{info['module'].name}.{info['qualname']}"
            c = self.registry.get(qual)
            if c is not None and not c.inline and not self.is_current(qual):
                return self.call_contract(c, ([] if info["static"] else [sv]) + args, kwargs, node)
            f = VFunc("closure", info["qualname"], node=info["node"], env=Env(info["module"]),
                      self_val=None if info["static"] else sv, data=info)
            self.class_stack.append((info["cls"], sv))
            try:
                return self.call_closure(f, args, kwargs, node)
            finally:
                self.class_stack.pop()
        return self.externs.call_method(self, sv, fv.name, args, kwargs, node)

    def is_current(self, qual):
        return False

    def call_repo(self, fv, args, kwargs, node):
        c = self.registry.get(fv.name)
        if c is None or c.inline:
            if c is None and not self.externs.allow_inline(fv.name):
                raise Unsupported(f"{self.current_qualname}: call of {fv.name} which has no contract")
            f = VFunc("closure", fv.name, node=fv.node, env=Env(fv.data["module"]))
            self.calls_made.append((fv.name, "inline"))
            return self.call_closure(f, args, kwargs, node)
        return self.call_contract(c, args, kwargs, node)

    def instantiate(self, cls, args, kwargs, node):
        obj = self.born(VObj(cls.name.split(".")[-1], attrs={"__class__": cls, "__repo_instance__": True}))
        if not self.spec_mode:
            if not hasattr(self, "instances_created"):
                self.instances_created = []
            self.instances_created.append(obj)
        init = self.find_method(cls, "__init__")
        if init is not None and init[0] == "method":
            info = init[1]
            qual = f"{info['module'].name}.{info['qualname']}"
            c = self.registry.get(qual)
            if c is not None and not c.inline:
                self.call_contract(c, [obj] + args, kwargs, node)
            else:
                f = VFunc("closure", info["qualname"], node=info["node"], env=Env(info["module"]), self_val=obj, data=info)
                self.class_stack.append((info["cls"], obj))
                try:
                    self.call_closure(f, args, kwargs, node)
                finally:
                    self.class_stack.pop()
        return obj

    # contract-based call (R-call) ------------------------------------------
    def call_contract(self, c, args, kwargs, node):
        line = getattr(node, "lineno", "?")
        self.calls_made.append((c.qualname, line))
        # bind against the REAL signature of the callee (call-bind obligation is Python's own TypeError)
        m, fnode, cls = self.repo.find_function(c.qualname)
        denv = Env(m)
        bound = self.bind_args(fnode.args, args, kwargs, denv, node, c.qualname.split(".")[-1])
        self.contract_attempts.append((c.qualname, bound))
        if getattr(c, "opaque_on_tables", False) and any(
                isinstance(v, VObj) and v.term is not None and getattr(v, "cols", None) is None and v.tag in ("DataFrame", "Series")
                for v in bound.values()):
            # term level: a statistic of an OPAQUE table / column (e.g. one group of a groupby) is the uninterpreted application
            # <function>(arguments); its contract is not unfolded (its preconditions on the opaque argument are not checkable here)
            res = self.externs.opaque_repo_call(self, c, bound, node)
            self.contract_calls.append((c.qualname, bound, res))
            return res
        res = c.apply(self, bound, node)
        self.contract_calls.append((c.qualname, bound, res))
        return res

    # ------------------------------------------------------------------ statements
    def exec_block(self, stmts, env):
        for s in stmts:
            self.exec(s, env)

    def exec(self, node, env):
        m = getattr(self, "ex_" + type(node).__name__, None)
        if m is None:
            self.unsupported(node, f"statement {type(node).__name__}")
        return m(node, env)

    def ex_Expr(self, node, env):
        if isinstance(node.value, ast.Constant):
            return
        if isinstance(node.value, ast.Yield):
            v = self.ev(node.value.value, env) if node.value.value else NONE
            self.mutate_append(self.yield_targets[-1], v, node)
            return
        self.ev(node.value, env)

    def ex_Pass(self, node, env):
        pass

    def ex_Global(self, node, env):
        env.globals_decl.update(node.names)

    def ex_Return(self, node, env):
        raise ReturnSig(self.ev(node.value, env) if node.value else NONE)

    def ex_Break(self, node, env):
        raise BreakSig()

    def ex_Continue(self, node, env):
        raise ContinueSig()

    def ex_FunctionDef(self, node, env):
        env.store(node.name, VFunc("closure", node.name, node=node, env=env))

    def ex_Assert(self, node, env):
        if not self.test(self.ev(node.test, env), node):
            raise PyRaise("AssertionError", "", node.lineno)

    def ex_Raise(self, node, env):
        if node.exc is None:
            raise PyRaise(getattr(env, "_handling", "Exception"), "re-raise", node.lineno)
        exc = node.exc
        name = None
        if isinstance(exc, ast.Call):
            exc = exc.func
        if isinstance(exc, ast.Name):
            name = exc.id
        elif isinstance(exc, ast.Attribute):
            name = exc.attr
        if name is None:
            self.unsupported(node, "raise of a computed exception")
        raise PyRaise(name, "", node.lineno)

    def ex_If(self, node, env):
        if self.test(self.ev(node.test, env), node):
            self.exec_block(node.body, env)
        else:
            self.exec_block(node.orelse, env)

    def ex_Try(self, node, env):
        try:
            self.exec_block(node.body, env)
        except PyRaise as e:
            for h in node.handlers:
                names = []
                if h.type is None:
                    names = ["BaseException"]
                elif isinstance(h.type, ast.Tuple):
                    names = [self.exc_name(x) for x in h.type.elts]
                else:
                    names = [self.exc_name(h.type)]
                if any(exc_matches(e.exc, n) for n in names):
                    prev = getattr(env, "_handling", None)
                    env._handling = e.exc
                    try:
                        if h.name:
                            env.store(h.name, VObj("exception:" + e.exc))
                        self.exec_block(h.body, env)
                    finally:
                        env._handling = prev
                    break
            else:
                if node.finalbody:
                    self.exec_block(node.finalbody, env)
                raise
        else:
            self.exec_block(node.orelse, env)
        if node.finalbody:
            self.exec_block(node.finalbody, env)

    def exc_name(self, n):
        if isinstance(n, ast.Name):
            return n.id
        if isinstance(n, ast.Attribute):
            return n.attr
        raise Unsupported("computed exception class")

    def ex_Assign(self, node, env):
        v = self.ev(node.value, env)
        for t in node.targets:
            self.assign(t, v, env, node)

    def ex_AnnAssign(self, node, env):
        if node.value is not None:
            self.assign(node.target, self.ev(node.value, env), env, node)

    def assign(self, target, v, env, node):
        if isinstance(target, ast.Name):
            if target.id in env.globals_decl:
                self.global_state[(env.module.name, target.id)] = v
                self.global_write(env.module.name, target.id, node)
            else:
                env.store(target.id, v)
        elif isinstance(target, (ast.Tuple, ast.List)):
            items = self.unpack(v, len(target.elts), node)
            for t, x in zip(target.elts, items):
                self.assign(t, x, env, node)
        elif isinstance(target, ast.Subscript):
            base = self.ev(target.value, env)
            if isinstance(target.slice, ast.Slice):
                self.externs.setslice(self, base, target.slice, v, env, node)
                return
            idx = self.ev(target.slice, env)
            self.setitem(base, idx, v, node)
        elif isinstance(target, ast.Attribute):
            base = self.ev(target.value, env)
            self.setattr(base, target.attr, v, node)
        else:
            self.unsupported(node, "assignment target")

    def global_write(self, module, name, node):
        pass

    def unpack(self, v, n, node):
        if isinstance(v, VTuple):
            items = v.items
        elif isinstance(v, VList) and isinstance(v.content, ConcreteSeq):
            items = v.content.items
        elif isinstance(v, VList) and isinstance(v.content, SymSeq):
            if not self.spec_mode:
                if not self.ctx.decide(v.content.length == n, getattr(node, "lineno", "")):
                    raise PyRaise("ValueError", "unpack", getattr(node, "lineno", None))
            return [v.content.at(z3.IntVal(i)) for i in range(n)]
        else:
            r = self.externs.unpack_hook(self, v, n, node)
            if r is not None:
                return r
            self.unsupported(node, f"unpacking {v!r}")
        if len(items) != n:
            raise PyRaise("ValueError", "unpack", getattr(node, "lineno", None))
        return items

    def setattr(self, base, attr, v, node):
        if isinstance(base, VObj):
            self.check_mutable_target(base, node, f".{attr}")
            r = self.externs.setattr_hook(self, base, attr, v, node)
            if r:
                return
            base.attrs[attr] = v
            return
        self.unsupported(node, f"attribute store on {base!r}")

    def check_mutable_target(self, obj, node, what=""):
        """Inside an R-acc frame, only objects born inside the frame may be mutated in place."""
        self.frame_check(obj, node, what)
        if self.ctx.acc_frames and self.birth_depth(obj) < len(self.ctx.acc_frames):
            self.unsupported(node, f"state-carrying mutation{what} inside an accumulation loop (needs an invariant)")

    def frame_check(self, obj, node, what=""):
        """R-frame: an in-place mutation must target an object created by this call (or one the contract lists under
        `modifies`, or a field of self inside a constructor); anything else is reachable from a parameter, a default
        argument or module state and belongs to the caller."""
        if self.spec_mode or not isinstance(obj, Value) or not obj.mutable:
            return
        if id(obj) in self.birth or id(obj) in self.frame_ok:
            return
        org = getattr(obj, "dict_origin", None)
        if org is not None and (id(org[0]) in self.birth or id(org[0]) in self.frame_ok):
            return
        short = (self.current_qualname or "").replace("pyrepseq.", "")
        name = getattr(obj, "frame_name", None) or type(obj).__name__
        self.ctx.oblige(f"{short}/frame[{name}{what} mutated @L{getattr(node, 'lineno', '?')}]", z3.BoolVal(False),
                        kind="frame", line=getattr(node, "lineno", None))

    def setitem(self, base, idx, v, node):
        if isinstance(base, VDict):
            return self.dict_setitem(base, idx, v, node)
        if isinstance(base, VList):
            self.check_mutable_target(base, node, "[...]")
            r = self.externs.setitem_hook(self, base, idx, v, node)
            if r:
                return
            i = self.norm_index(idx, self.seq_len(base), node)
            old = base.content
            oldv = VList(old, base.kind)
            n = self.seq_len(base)
            base.content = SymSeq(n, lambda k: self.v_ite(k == i, v, self.seq_at(oldv, k)), getattr(old, "elem_kind", None))
            return
        r = self.externs.setitem_hook(self, base, idx, v, node)
        if r:
            return
        self.unsupported(node, f"item store on {base!r}")

    def dict_val_ite(self, cond, a, b):
        """ite over dict values (lists become point-wise ites)"""
        cb = concrete_bool(cond)
        if cb is not None:
            return a if cb else b
        if isinstance(a, VList) and isinstance(b, VList):
            la, lb = self.seq_len(a), self.seq_len(b)
            return VList(SymSeq(z3.If(cond, la, lb), lambda k: self.v_ite(cond, self.seq_at(a, k), self.seq_at(b, k))), a.kind)
        return self.v_ite(cond, a, b)

    def dict_setitem(self, d, k, v, node):
        self.frame_check(d, node, "[...] =")
        if self.ctx.acc_frames and self.birth_depth(d) < len(self.ctx.acc_frames):
            # emit into an outer dict: only sound as a comprehension when keys are distinct per emit;
            # recorded as a site of (key, value) pairs
            self.emit(d, VTuple([k, v]), node)
            return
        if d.items is not None:
            self.dict_store(d.items, k, v)
            return
        self.check_mutable_target(d, node, "[...]")
        old_dom, old_get = d.dom, d.get
        d.dom = lambda key: z3.Or(self.veq(key, k), old_dom(key))
        d.get = lambda key: self.dict_val_ite(self.veq(key, k), v, old_get(key))

    def ex_AugAssign(self, node, env):
        t = node.target
        if isinstance(t, ast.Name):
            cur = self.lookup(t.id, env, t)
            rhs = self.ev(node.value, env)
            if isinstance(cur, VList) and cur.kind == "list" and isinstance(node.op, ast.Add):
                self.mutate_extend(cur, rhs, node)
                return
            r = self.externs.inplace_op(self, type(node.op).__name__, cur, rhs, node)
            if r is not None:
                return
            if isinstance(cur, VList) and cur.kind == "ndarray":
                # numpy in-place arithmetic mutates the array object: a frame obligation unless the array was
                # created by this call
                new = self.binop(node.op, cur, rhs, node)
                if id(cur) not in self.birth and not self.spec_mode:
                    short = (self.current_qualname or "").replace("pyrepseq.", "")
                    self.ctx.oblige(f"{short}/frame[{t.id} mutated in place @L{node.lineno}]", z3.BoolVal(False),
                                    kind="frame", line=node.lineno)
                if isinstance(new, VList):
                    cur.content = new.content
                    if getattr(new, "poly", None) is not None:
                        cur.poly = new.poly
                    return
            if isinstance(cur, Value) and cur.mutable and not isinstance(cur, VObj):
                self.unsupported(node, f"augmented assignment on {cur!r}")
            self.assign(t, self.binop(node.op, cur, rhs, node), env, node)
        elif isinstance(t, ast.Subscript):
            base = self.ev(t.value, env)
            idx = self.ev(t.slice, env)
            cur = self.index(base, idx, t)
            rhs = self.ev(node.value, env)
            self.setitem(base, idx, self.binop(node.op, cur, rhs, node), node)
        elif isinstance(t, ast.Attribute):
            base = self.ev(t.value, env)
            cur = self.getattr(base, t.attr, t)
            rhs = self.ev(node.value, env)
            self.setattr(base, t.attr, self.binop(node.op, cur, rhs, node), node)
        else:
            self.unsupported(node, "augmented assignment target")

    # accumulation primitives ------------------------------------------------
    def emit(self, target, elem, node):
        """Record `elem` as emitted into `target` from inside R-acc frames deeper than its birth."""
        depth = self.birth_depth(target)
        frames = self.ctx.acc_frames[depth:]
        bvars = []
        for fr in frames:
            bvars.extend(fr["bvars"])
        start = frames[0]["pc_mark"]
        entries = list(self.ctx.pc[start:])
        conj = [t for t, _ in entries]
        bids = {v.get_id() for v in bvars}
        fresh = [c for c in frames[0].get("fresh", []) if c.get_id() not in bids]
        used = set()
        for t in conj:
            used |= _const_ids(t)
        used |= _value_const_ids(elem)
        hvars = [c for c in fresh if c.get_id() in used]
        hids = {c.get_id() for c in hvars}
        fids = {f.get_id() for f in frames[0].get("fresh_funs", [])}

        def computed(t):
            return bool(_const_ids(t) & hids) or bool(fids and (_decl_ids(t) & fids))
        # knowledge: facts assumed from callee contracts / library contracts (labelled entries);
        # decisions: branch conditions and loop ranges (unlabelled entries)
        know = [t for t, lab in entries if lab is not None]
        dec_plain = [t for t, lab in entries if lab is None and not computed(t)]
        dec_comp = [t for t, lab in entries if lab is None and computed(t)]
        cond = z3.And(*dec_plain) if dec_plain else z3.BoolVal(True)
        cond_h = z3.And(*know) if know else z3.BoolVal(True)
        cond_d = z3.And(*dec_comp) if dec_comp else z3.BoolVal(True)
        label = f"L{getattr(node, 'lineno', '?')}"
        frames[0]["emits"].append((target, Site(label, bvars, cond, elem, hvars, cond_h, cond_d)))

    def _unused(self):
        pass

    def to_bag(self, content):
        if isinstance(content, CompBag):
            return content
        if isinstance(content, ConcreteSeq):
            return CompBag([Site("init", [], z3.BoolVal(True), x) for x in content.items])
        if isinstance(content, SymSeq):
            k = self.ctx.fresh("k", z3.IntSort())
            return CompBag([Site("seq", [k], z3.And(k >= 0, k < content.length), content.at(k))])
        raise Unsupported("to_bag")

    def mutate_append(self, lst, v, node):
        if not isinstance(lst, VList):
            self.unsupported(node, f"append on {lst!r}")
        self.frame_check(lst, node, ".append")
        if self.ctx.acc_frames and self.birth_depth(lst) < len(self.ctx.acc_frames):
            self.emit(lst, v, node)
            return
        c = lst.content
        org = getattr(lst, "dict_origin", None)
        if org is not None:
            # in-place append to a list stored in a symbolic dict = functional update of the dict at that key
            d, key = org
            n = c.length if isinstance(c, SymSeq) else z3.IntVal(len(c.items))
            old = VList(c)
            newlist = VList(SymSeq(n + 1, lambda k: self.v_ite(k == n, v, self.seq_at(old, k)), getattr(c, "elem_kind", None)))
            lst.content = newlist.content
            old_get = d.get
            d.get = lambda kk: self.dict_val_ite(self.veq(kk, key), newlist, old_get(kk))
            return
        if isinstance(c, ConcreteSeq):
            c.items.append(v)
        elif isinstance(c, SymSeq):
            n = c.length
            old = VList(c)
            lst.content = SymSeq(n + 1, lambda k: self.v_ite(k == n, v, self.seq_at(old, k)), c.elem_kind)
        else:
            c.sites.append(Site(f"L{getattr(node, 'lineno', '?')}", [], z3.BoolVal(True), v))

    def mutate_extend(self, lst, other, node):
        if isinstance(other, (VList, VTuple, VSet)) and (isinstance(other, VTuple) or isinstance(other.content, ConcreteSeq)):
            for x in self.iter_concrete(other, node):
                self.mutate_append(lst, x, node)
            return
        if self.ctx.acc_frames and self.birth_depth(lst) < len(self.ctx.acc_frames):
            # extend by a symbolic iterable inside an accumulation: nested generator
            self.for_values(other, lambda x: self.mutate_append(lst, x, node), node)
            return
        if isinstance(other, VList) and isinstance(lst.content, (ConcreteSeq, SymSeq)) and isinstance(other.content, (ConcreteSeq, SymSeq)):
            lst.content = self.seq_concat(lst.content, other.content, node)
            return
        # becomes a bag
        bag = self.to_bag(lst.content)
        ob = self.to_bag(other.content)
        lst.content = CompBag(bag.sites + ob.sites)

    def mutate_add(self, st, v, node):
        if not isinstance(st, VSet):
            self.unsupported(node, f"add on {st!r}")
        self.frame_check(st, node, ".add")
        if self.ctx.acc_frames and self.birth_depth(st) < len(self.ctx.acc_frames):
            self.emit(st, v, node)
            return
        if st.pred is not None:
            old = st.pred
            st.pred = lambda x: z3.Or(self.veq(x, v), old(x))
            return
        c = st.content
        if isinstance(c, ConcreteSeq):
            for o in c.items:
                if concrete_bool(self.veq(o, v)) is True:
                    return
            c.items.append(v)
        else:
            c.sites.append(Site(f"L{getattr(node, 'lineno', '?')}", [], z3.BoolVal(True), v))

    # loops -------------------------------------------------------------------
    def loop_label(self, node, env):
        """loops are keyed by their ordinal in source order inside the enclosing top-level function
        (robust against edits that merely shift line numbers)"""
        f = env.func
        e = env
        while e is not None and e.parent is not None and e.parent.func is not None:
            e = e.parent
            f = e.func or f
        if f is None:
            return f"L{node.lineno}"
        key = id(f)
        if key not in self._loop_ord:
            loops = [n for n in ast.walk(f) if isinstance(n, (ast.For, ast.While))]
            loops.sort(key=lambda n: (n.lineno, n.col_offset))
            self._loop_ord[key] = {id(n): i + 1 for i, n in enumerate(loops)}
        o = self._loop_ord[key].get(id(node))
        return f"loop{o}" if o else f"L{node.lineno}"

    def ex_For(self, node, env):
        self.loop_counter += 1
        label = self.loop_label(node, env)
        it = self.ev(node.iter, env)
        if node.orelse:
            self.unsupported(node, "for-else")

        def body(e):
            self.exec_block(node.body, e)
        self.for_loop(node.target, it, body, env, node, label)

    def for_values(self, it, fn, node):
        """Apply fn(x) for every element of `it` inside the current R-acc context."""
        tgt = ast.Name(id="__x", ctx=ast.Store())
        env = Env(None)
        self.for_loop(tgt, it, lambda e: fn(e.vars["__x"]), env, node, None, comp=True, child_env=False)

    def concrete_iter(self, it):
        """List of Values if the iterable is concrete (unrollable), else None."""
        if isinstance(it, VTuple):
            return list(it.items)
        if isinstance(it, (VList, VSet)) and isinstance(it.content, ConcreteSeq) and getattr(it, "pred", None) is None:
            return list(it.content.items)
        if isinstance(it, VDict) and it.items is not None:
            return [k for k, _ in it.items]
        cs = concrete_str(it)
        if cs is not None:
            return [VStr(c) for c in cs]
        return None

    def for_loop(self, target, it, body, env, node, label, comp=False, child_env=True):
        c = self.current_contract
        rule = c.loop_rule(label) if (c is not None and label) else None
        items = self.concrete_iter(it)
        if rule is not None and rule.kind == "inv":
            return self.loop_inv(target, it, body, env, node, label, rule)
        if rule is not None and rule.kind == "acc":
            # loop("loopN", "acc"): treat even a concrete iterable by the accumulation / search rule (one arbitrary element)
            # instead of unrolling it -- same meaning, far fewer paths for long constant alphabets
            return self.loop_acc(target, it, body, env, node, label, child_env)
        if items is not None and len(items) <= 64:
            for x in items:
                self.assign(target, x, env, node)
                try:
                    body(env)
                except ContinueSig:
                    continue
                except BreakSig:
                    break
            return
        return self.loop_acc(target, it, body, env, node, label, child_env)

    def element_options(self, it, node):
        """Describe 'an arbitrary element of `it`': list of (bvars, cond, elem Value, order_key|None)."""
        return self.externs.element_options(self, it, node)

    def loop_acc(self, target, it, body, env, node, label, child_env=True):
        """R-acc (+ exits): the body is executed once for an arbitrary element.  Its only effects on
        objects born outside the loop are accumulations (append / add / yield / +=), which become
        comprehension sites of their targets, or leaving the function (return / raise), which
        makes the loop a search: either no element exits, or some element does."""
        ctx = self.ctx
        frame = {"bvars": [], "pc_mark": len(ctx.pc), "emits": [], "label": label}
        ctx.acc_frames.append(frame)

        def run():
            frame["bvars"] = []
            frame["emits"] = []
            frame["fresh"] = []
            frame["fresh_funs"] = []
            frame["witness"] = []
            frame["pc_mark"] = len(ctx.pc)
            opts = self.element_options(it, node)
            if not opts:
                raise PathAbort()
            ci = ctx.choose([z3.BoolVal(True)] * len(opts), label or "") if len(opts) > 1 else 0
            bvars, cond, elem = opts[ci][0], opts[ci][1], opts[ci][2]
            frame["bvars"] = list(bvars)
            ctx.assume(cond, decision=True)
            if len(opts[ci]) > 4:
                ctx.assume(opts[ci][4])
            if callable(elem):
                elem = elem()
            e = Env(env.module, parent=env, func=env.func) if child_env else env
            if child_env:
                e.local_names = set()
                e.globals_decl = env.globals_decl
            self.assign(target, elem, e, node)
            try:
                body(e)
            except ContinueSig:
                pass
            except BreakSig:
                self.unsupported(node, "break inside an accumulation loop (needs an invariant)")
            except ReturnSig as r:
                return ("return", list(frame["bvars"]) + list(frame["witness"]), list(frame["emits"]), r.value)
            except PyRaise as r:
                return ("raise", list(frame["bvars"]) + list(frame["witness"]), list(frame["emits"]), r)
            return ("fall", list(frame["bvars"]), list(frame["emits"]), None)
        try:
            subs = explore_sub(ctx, run)
        finally:
            ctx.acc_frames.pop()
        exits = []
        for delta, obl, res in subs:
            kind, bvars, emits, val = res
            if kind != "fall":
                cond = z3.And(*[t for t, _ in delta]) if delta else z3.BoolVal(True)
                exits.append((bvars, cond, kind, val))
        if exits:
            ex_forms = [z3.Exists(bv, c) if bv else c for bv, c, _, _ in exits]
            none_exit = z3.Not(z3.Or(*ex_forms))
            ch = ctx.choose([none_exit] + [z3.BoolVal(True)] * len(exits), f"exit@{label}")
            if ch > 0:
                bv, cond, kind, val = exits[ch - 1]
                ctx.assume(cond)
                # the exiting element (and the exiting elements of loops nested in it) are existential witnesses for every
                # enclosing search loop: "no element exits" there must range over them too
                for fr in ctx.acc_frames:
                    fr.setdefault("witness", []).extend(bv)
                if kind == "return":
                    raise ReturnSig(val)
                raise val
        falls = [res for delta, obl, res in subs if res[0] == "fall"]
        if not exits and len(falls) == 1 and self.try_ordered_map(it, falls[0], node):
            return
        for kind, bvars, emits, val in falls:
            for tgt, site in emits:
                self.apply_emit(tgt, site)

    def try_ordered_map(self, it, fall, node):
        """A loop over an ordered iterable whose body unconditionally appends exactly one element to each
        target list is an ordered map: target becomes target ++ [elem(k) for k in range(n)]."""
        ov = self.externs.ordered_view(self, it, node)
        if ov is None:
            return False
        n, at = ov
        kind, bvars, emits, val = fall
        if len(bvars) != 1 or not emits:
            return False
        k = bvars[0]
        tgts = {}
        for tgt, site in emits:
            if id(tgt) in tgts or not isinstance(tgt, VList) or site.bvars != [k]:
                return False
            if not isinstance(tgt.content, (ConcreteSeq, SymSeq)):
                return False
            # the site condition must be exactly the range condition of the loop variable
            rng = z3.And(k >= 0, k < n) if not isinstance(it, self.externs.VRange) else z3.And(k >= it.lo, k < it.hi)
            if not z3.eq(z3.simplify(site.cond), z3.simplify(rng)):
                return False
            if not z3.is_true(z3.simplify(site.cond_d)):
                return False          # emission depends on a computed value: not an unconditional map
            tgts[id(tgt)] = (tgt, site)
        for tgt, site in tgts.values():
            base = 0 if not isinstance(it, self.externs.VRange) else it.lo
            elem = site.elem
            hsub = []
            if site.hvars:
                # values computed in the body (callee results, fresh library objects) differ from element to element: they
                # become functions of the loop variable, and what is known about them holds for every element
                funs = [self.ctx.fresh_fun(str(h).replace("!", "_") + "_at", z3.IntSort(), h.sort()) for h in site.hvars]
                hsub = [(h, f) for h, f in zip(site.hvars, funs)]
                kk = z3.Int("k!om")
                known = z3.substitute(site.cond_h, *([(k, kk)] + [(h, f(kk)) for h, f in hsub]))
                rng_kk = z3.substitute(rng, (k, kk))
                if not z3.is_true(z3.simplify(site.cond_h)):
                    self.ctx.assume(z3.ForAll([kk], z3.Implies(rng_kk, known)))
            new = SymSeq(n, lambda j, elem=elem, hsub=hsub: vsubst(
                elem, [(k, j + base if not isinstance(base, int) else j)]
                + [(h, f(j + base if not isinstance(base, int) else j)) for h, f in hsub]))
            tgt.content = self.seq_concat(tgt.content, new, node) if not (
                isinstance(tgt.content, ConcreteSeq) and not tgt.content.items) else new
        return True

    def apply_emit(self, tgt, site):
        if isinstance(tgt, VDict):
            self.specfuns.dict_emit(self, tgt, site)
            return
        if isinstance(tgt, VSet) and tgt.pred is not None:
            old = tgt.pred
            s = site
            def pred(x, old=old, s=s):
                s2 = s.rename(self.ctx)
                body = z3.And(s2.full_cond(), self.veq(s2.elem, x))
                return z3.Or(old(x), z3.Exists(s2.all_vars(), body) if s2.all_vars() else body)
            tgt.pred = pred
            return
        bag = self.to_bag(tgt.content)
        bag.sites.append(site)
        tgt.content = bag

    def loop_search(self, target, it, body, env, node, label, rule):
        self.specfuns.loop_search(self, target, it, body, env, node, label, rule)

    def loop_inv(self, target, it, body, env, node, label, rule):
        self.specfuns.loop_inv(self, target, it, body, env, node, label, rule)

    def ex_While(self, node, env):
        label = self.loop_label(node, env)
        c = self.current_contract
        rule = c.loop_rule(label) if c is not None else None
        if rule is None or rule.kind != "inv":
            # try bounded concrete unrolling
            for _ in range(64):
                t = self.truth(self.ev(node.test, env), node)
                tb = t if isinstance(t, bool) else concrete_bool(t)
                if tb is None:
                    self.unsupported(node, "while loop with symbolic guard needs an invariant")
                if not tb:
                    return
                try:
                    self.exec_block(node.body, env)
                except ContinueSig:
                    continue
                except BreakSig:
                    return
            self.unsupported(node, "while loop not finished after 64 unrollings")
        self.specfuns.while_inv(self, node, env, label, rule)

    def ex_With(self, node, env):
        return self.externs.with_stmt(self, node, env)

    def ex_Import(self, node, env):
        pass

    def ex_ImportFrom(self, node, env):
        pass

    def ex_Delete(self, node, env):
        self.unsupported(node, "del")
