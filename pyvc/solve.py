"""Discharging obligations: one forked process per VC (z3 5.1 through its API on the very term
objects the generator built; cvc5 1.0.3 CLI on the SMT-LIB rendering as second opinion / for
string VCs).  unsat from either solver discharges; sat yields a model decoded into a replay
recipe; unknown / time-out is *undecided*, never a violation by itself.
"""
import multiprocessing as mp
import os
import subprocess
import tempfile
import time
import z3

_OBLIGS = []
_CFG = {}


def _has_strings(terms):
    seen = set()
    stack = list(terms)
    while stack:
        e = stack.pop()
        i = e.get_id()
        if i in seen:
            continue
        seen.add(i)
        if z3.is_quantifier(e):
            stack.append(e.body())
            continue
        try:
            if e.sort().kind() == z3.Z3_SEQ_SORT:
                return True
        except Exception:
            pass
        stack.extend(e.children())
    return False


def _run_cvc5(smt2, timeout_s):
    with tempfile.NamedTemporaryFile("w", suffix=".smt2", delete=False, dir=_CFG.get("tmp")) as f:
        f.write("(set-logic ALL)\n")
        f.write(smt2)
        path = f.name
    try:
        p = subprocess.run(["/usr/bin/cvc5", "--strings-exp", f"--tlimit={int(timeout_s * 1000)}", path],
                           capture_output=True, text=True, timeout=timeout_s + 5)
        out = (p.stdout or "").strip().splitlines()
        res = out[0].strip() if out else "unknown"
        if res not in ("sat", "unsat", "unknown"):
            res = "unknown"
        return res, (p.stderr or "")[:300]
    except subprocess.TimeoutExpired:
        return "unknown", "timeout"
    finally:
        try:
            os.unlink(path)
        except OSError:
            pass


def _solve_one(idx):
    ob = _OBLIGS[idx]
    t0 = time.time()
    timeout = _CFG.get("timeout", 20)
    forms = ob.formula()
    res = {"idx": idx, "name": ob.name, "status": "unknown", "solver": None, "time": 0.0, "model": None, "detail": ""}
    strings = _has_strings(forms)
    s = z3.Solver()
    s.set("timeout", int(timeout * 1000))
    s.set("random_seed", _CFG.get("seed", 0) % 1000)
    for f in forms:
        s.add(f)
    r = s.check()
    if r == z3.unsat:
        res.update(status="unsat", solver="z3-5.1")
    elif r == z3.sat:
        res.update(status="sat", solver="z3-5.1")
        try:
            m = s.model()
            rec = {}
            for name, (ty, val) in (ob.meta.get("inputs") or {}).items():
                rec[name] = ty.decode(m, val)
            res["model"] = rec
        except Exception as e:       # decoding is best effort; the falsifier is the fall-back
            res["detail"] = f"model decode failed: {type(e).__name__}: {e}"
    else:
        res["detail"] = s.reason_unknown()
    need_cvc5 = (r == z3.unknown) or (_CFG.get("cross") and r != z3.unknown)
    if need_cvc5 and _CFG.get("cvc5", True):
        try:
            smt2 = s.to_smt2()
            c, err = _run_cvc5(smt2, timeout)
            res["cvc5"] = c
            if r == z3.unknown and c == "unsat":
                res.update(status="unsat", solver="cvc5-1.0.3")
            elif r == z3.unknown and c == "sat":
                res.update(status="sat", solver="cvc5-1.0.3")
            elif r != z3.unknown and c != "unknown" and c != res["status"]:
                res["detail"] += f" SOLVER DISAGREEMENT z3={res['status']} cvc5={c}"
                res["disagree"] = True
        except Exception as e:
            res["detail"] += f" cvc5 failed: {e}"
    if res["status"] == "unknown" and _CFG.get("instantiate", True):
        # third / fourth attempt: explicit ground instantiation of the quantified hypotheses (sound for unsat)
        try:
            from . import inst
            qf, n_inst, nested = inst.instantiate(forms)
            if n_inst:
                s2 = z3.Solver()
                s2.set("timeout", int(timeout * 1000))
                for f in qf:
                    s2.add(f)
                r2 = s2.check()
                if r2 == z3.unsat:
                    res.update(status="unsat", solver=f"z3-5.1 (after {n_inst} ground instances)")
                elif _CFG.get("cvc5", True):
                    c2, err = _run_cvc5(s2.to_smt2(), timeout)
                    if c2 == "unsat":
                        res.update(status="unsat", solver=f"cvc5-1.0.3 (after {n_inst} ground instances)")
        except Exception as e:
            res["detail"] += f" instantiation failed: {e}"
    res["time"] = round(time.time() - t0, 3)
    res["strings"] = strings
    return res


def solve_all(obligations, timeout=20, workers=None, cross=False, seed=0, cvc5=True, tmp=None):
    global _OBLIGS, _CFG
    _OBLIGS = obligations
    _CFG = {"timeout": timeout, "cross": cross, "seed": seed, "cvc5": cvc5, "tmp": tmp}
    if not obligations:
        return []
    workers = workers or max(1, min(12, (os.cpu_count() or 4) - 2))
    ctx = mp.get_context("fork")
    with ctx.Pool(workers, maxtasksperchild=8) as pool:
        results = pool.map(_solve_one, range(len(obligations)), chunksize=1)
    return results
