"""Discharging obligations: one forked process per VC (z3 5.1 through its API on the very term
objects the generator built; cvc5 1.0.3 CLI on the SMT-LIB rendering as second opinion / for
string VCs).  unsat from either solver discharges; sat yields a model decoded into a replay
recipe; unknown / time-out is *undecided*, never a violation by itself.
"""
import multiprocessing as mp
import os
import subprocess
import tempfile
import time
import z3

_OBLIGS = []
_CFG = {}


def _has_strings(terms):
    seen = set()
    stack = list(terms)
    while stack:
        e = stack.pop()
        i = e.get_id()
        if i in seen:
            continue
        seen.add(i)
        if z3.is_quantifier(e):
            stack.append(e.body())
            continue
        try:
            if e.sort().kind() == z3.Z3_SEQ_SORT:
                return True
        except Exception:
            pass
        stack.extend(e.children())
    return False


def _run_cvc5(smt2, timeout_s):
    import re
    smt2 = re.sub(r"\(\(_ ([A-Za-z_][A-Za-z_0-9]*) 0\)", r"(\1", smt2)      # z3's rendering of define-fun-rec applications
    smt2 = smt2.replace("\\|", "!")          # z3 escapes a '|' inside a quoted symbol; cvc5 does not accept that: rename consistently
    with tempfile.NamedTemporaryFile("w", suffix=".smt2", delete=False, dir=_CFG.get("tmp")) as f:
        f.write("(set-logic ALL)\n")
        f.write(smt2)
        path = f.name
    try:
        p = subprocess.run(["/usr/bin/cvc5", "--strings-exp", f"--tlimit={int(timeout_s * 1000)}", path],
                           capture_output=True, text=True, timeout=timeout_s + 5)
        out = (p.stdout or "").strip().splitlines()
        res = out[0].strip() if out else "unknown"
        if res not in ("sat", "unsat", "unknown"):
            res = "unknown"
        return res, (p.stderr or "")[:300]
    except subprocess.TimeoutExpired:
        return "unknown", "timeout"
    finally:
        try:
            os.unlink(path)
        except OSError:
            pass


def _z3_check(forms, timeout, seed):
    s = z3.Solver()
    s.set("timeout", int(timeout * 1000))
    s.set("random_seed", seed % 1000)
    for f in forms:
        s.add(f)
    return s, s.check()


def _solve_one(idx):
    """Strategies, in order, until one decides: for string VCs cvc5 goes first (it is by far the more
    reliable string solver here), otherwise z3; then the other solver; then both again on the
    explicitly ground-instantiated, quantifier-free weakening (sound for unsat only)."""
    ob = _OBLIGS[idx]
    t0 = time.time()
    timeout = _CFG.get("timeout", 20)
    seed = _CFG.get("seed", 0)
    forms = ob.formula()
    res = {"idx": idx, "name": ob.name, "status": "unknown", "solver": None, "time": 0.0, "model": None, "detail": ""}
    strings = _has_strings(forms)
    res["strings"] = strings
    use_cvc5 = _CFG.get("cvc5", True)
    cross = _CFG.get("cross")
    answers = {}

    def run_z3(fs, tag="", tmo=None):
        s, r = _z3_check(fs, tmo or timeout, seed)
        if r == z3.unsat:
            answers["z3" + tag] = "unsat"
            return "unsat", s
        if r == z3.sat:
            answers["z3" + tag] = "sat"
            return "sat", s
        res["detail"] += f" z3{tag}:{s.reason_unknown()}"
        return "unknown", s

    def run_cvc5(fs, tag="", tmo=None):
        s = z3.Solver()
        for f in fs:
            s.add(f)
        c, err = _run_cvc5(s.to_smt2(), tmo or timeout)
        answers["cvc5" + tag] = c
        return c

    def decode(s):
        try:
            m = s.model()
            rec = {}
            for name, (ty, val) in (ob.meta.get("inputs") or {}).items():
                rec[name] = ty.decode(m, val)
            res["model"] = rec
        except Exception as e:       # decoding is best effort; the falsifier is the fall-back
            res["detail"] += f" model decode failed: {type(e).__name__}: {e}"

    order = ["cvc5", "z3"] if (strings and use_cvc5) else (["z3", "cvc5"] if use_cvc5 else ["z3"])
    for sv in order:
        if res["status"] != "unknown" and not cross:
            break
        # cross-checking (thorough tier): once one solver has decided, the other gets a short budget -- enough to expose a
        # disagreement (sat vs unsat), not a second full attempt
        short = 2 if res["status"] != "unknown" else None
        if sv == "z3":
            r, s = run_z3(forms, tmo=short)
            if r != "unknown" and res["status"] == "unknown":
                res.update(status=r, solver="z3-5.1")
                if r == "sat":
                    decode(s)
        else:
            try:
                r = run_cvc5(forms, tmo=short)
            except Exception as e:
                res["detail"] += f" cvc5 failed: {e}"
                r = "unknown"
            if r != "unknown" and res["status"] == "unknown":
                res.update(status=r, solver="cvc5-1.0.3")
                if r == "sat" and ob.meta.get("inputs"):
                    # get a decodable model from z3 if it can find one quickly
                    r2, s2 = run_z3(forms)
                    if r2 == "sat":
                        decode(s2)
    if "z3" in answers and "cvc5" in answers and {answers["z3"], answers["cvc5"]} == {"sat", "unsat"}:
        res["detail"] += f" SOLVER DISAGREEMENT {answers}"
        res["disagree"] = True
    if res["status"] == "unknown" and _CFG.get("instantiate", True):
        try:
            from . import inst
            qf, n_inst, nested = inst.instantiate(forms)
            if n_inst:
                for sv in order:
                    if sv == "z3":
                        r, _s = run_z3(qf, "+inst")
                    else:
                        r = run_cvc5(qf, "+inst")
                    if r == "unsat":
                        res.update(status="unsat", solver=f"{'z3-5.1' if sv == 'z3' else 'cvc5-1.0.3'} (after {n_inst} ground instances)")
                        break
        except Exception as e:
            res["detail"] += f" instantiation failed: {e}"
    res["answers"] = answers
    res["time"] = round(time.time() - t0, 3)
    return res


class _Part:
    """one leaf of an obligation's goal after decomposition"""

    def __init__(self, ob, hyps, goal, k):
        self.name, self.hyps, self.goal, self.meta, self.k = ob.name, hyps, goal, ob.meta, k

    def formula(self):
        return [h for h, _ in self.hyps] + [z3.Not(self.goal)]


_FRESH = [0]


def _decompose(goal, hyps, depth=0):
    """Goal decomposition (sound and complete): A /\ B -> both; forall x. P -> P[c/x] for fresh c;
    A => B -> prove B under the extra hypothesis A.  Leaves become separate solver queries."""
    if depth > 12:
        return [(hyps, goal)]
    if z3.is_and(goal):
        out = []
        for c in goal.children():
            out.extend(_decompose(c, hyps, depth + 1))
        return out
    if z3.is_quantifier(goal) and goal.is_forall():
        n = goal.num_vars()
        cs = []
        for i in range(n):
            _FRESH[0] += 1
            cs.append(z3.Const(f"{goal.var_name(i)}!g{_FRESH[0]}", goal.var_sort(i)))
        body = z3.substitute_vars(goal.body(), *reversed(cs))
        return _decompose(body, hyps, depth + 1)
    if z3.is_implies(goal):
        a, b = goal.children()
        return _decompose(b, hyps + [(a, None)], depth + 1)
    return [(hyps, goal)]


def solve_all(obligations, timeout=20, workers=None, cross=False, seed=0, cvc5=True, tmp=None, split=True):
    """Goals that are top-level conjunctions are proved conjunct by conjunct (separate queries)."""
    if split and obligations:
        parts, owner = [], []
        for i, ob in enumerate(obligations):
            cs = _decompose(ob.goal, list(ob.hyps)) if ob.meta.get("kind") != "canary" else [(list(ob.hyps), ob.goal)]
            if len(cs) > 40:
                cs = [(list(ob.hyps), ob.goal)]
            for k, (hy, c) in enumerate(cs):
                parts.append(_Part(ob, hy, c, k))
                owner.append(i)
        if True:
            pres = solve_all(parts, timeout, workers, cross, seed, cvc5, tmp, split=False)
            out = []
            for i, ob in enumerate(obligations):
                rs = [r for r, o in zip(pres, owner) if o == i]
                agg = {"idx": i, "name": ob.name, "time": round(sum(r["time"] for r in rs), 3), "model": None,
                       "detail": " | ".join(r["detail"] for r in rs if r["detail"]), "parts": len(rs),
                       "solver": ",".join(sorted({r["solver"] for r in rs if r["solver"]})) or None,
                       "strings": any(r.get("strings") for r in rs), "disagree": any(r.get("disagree") for r in rs)}
                if all(r["status"] == "unsat" for r in rs):
                    agg["status"] = "unsat"
                elif any(r["status"] == "sat" for r in rs):
                    agg["status"] = "sat"
                    agg["model"] = next((r["model"] for r in rs if r["status"] == "sat" and r.get("model")), None)
                    agg["detail"] += " failing conjuncts: " + ",".join(str(k) for k, r in enumerate(rs) if r["status"] != "unsat")
                else:
                    agg["status"] = "unknown"
                    agg["detail"] += " undecided conjuncts: " + ",".join(str(k) for k, r in enumerate(rs) if r["status"] != "unsat")
                out.append(agg)
            return out
    global _OBLIGS, _CFG
    _OBLIGS = obligations
    _CFG = {"timeout": timeout, "cross": cross, "seed": seed, "cvc5": cvc5, "tmp": tmp}
    if not obligations:
        return []
    workers = workers or max(1, min(12, (os.cpu_count() or 4) - 2))
    return _run_tasks(len(obligations), workers, hard_limit=4 * timeout + 20)


def _child(idx, conn):
    try:
        conn.send(_solve_one(idx))
    except BaseException as e:          # noqa: a solver crash is an undecided obligation, never a verdict
        conn.send({"idx": idx, "name": _OBLIGS[idx].name, "status": "unknown", "solver": None, "time": 0.0, "model": None,
                   "detail": f"solver process failed: {type(e).__name__}: {e}"})
    finally:
        conn.close()


def _run_tasks(n, workers, hard_limit):
    """One forked process per VC with a HARD wall-clock limit: z3 occasionally ignores its own time-out inside the sequence /
    quantifier engines, and a solver that never returns must not hang the check.  A killed task is an undecided obligation."""
    ctx = mp.get_context("fork")
    results = [None] * n
    pending = list(range(n))
    running = {}
    while pending or running:
        while pending and len(running) < workers:
            i = pending.pop(0)
            parent, child = ctx.Pipe(duplex=False)
            p = ctx.Process(target=_child, args=(i, child), daemon=True)
            p.start()
            child.close()
            running[i] = (p, parent, time.time())
        done = []
        for i, (p, conn, t0) in running.items():
            if conn.poll(0):
                try:
                    results[i] = conn.recv()
                except (EOFError, OSError):
                    results[i] = None
                done.append(i)
            elif not p.is_alive():
                done.append(i)
            elif time.time() - t0 > hard_limit:
                p.kill()
                results[i] = {"idx": i, "name": _OBLIGS[i].name, "status": "unknown", "solver": None, "time": round(time.time() - t0, 1),
                              "model": None, "detail": f"solver exceeded the hard limit of {hard_limit}s and was killed", "answers": {}}
                done.append(i)
        for i in done:
            p, conn, _ = running.pop(i)
            p.join(timeout=1)
            try:
                conn.close()
            except OSError:
                pass
            if results[i] is None:
                results[i] = {"idx": i, "name": _OBLIGS[i].name, "status": "unknown", "solver": None, "time": 0.0, "model": None,
                              "detail": "solver process died", "answers": {}}
        if not done:
            time.sleep(0.01)
    return results
