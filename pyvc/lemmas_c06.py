"""C06: unbiasedness lemmas over the contracts of pc_n / pc / varpc_n.

The code is tied to closed forms by the per-function obligations; here the closed forms (taken
from the contracts' `returns` expressions, not re-typed) are shown to have the stated
expectations under multinomial sampling.  Expectation is handled algebraically: the contract
expression is shown to be a polynomial a*F3 + b*F2 + c*F2^2 in the factorial-moment statistics
F2 = sum n(n-1), F3 = sum n(n-1)(n-2) (coefficients depend on N only), E is linear, and the
moments of F2, F3, F2^2 are replaced by their multinomial values (ASSUMED axiom, validated
bounded by exact enumeration below).
"""
import itertools
import math
from fractions import Fraction
import z3
from .plugins import plugin
from .ctx import Ctx, Obligation
from .values import *
from . import types as T
from . import vec


def _contract_term(repo, reg, qual):
    from .verify import make_interp
    ctx = Ctx()
    interp = make_interp(repo, ctx, reg)
    interp.current_qualname = qual
    n = T.SeqT(T.RealT(lo=0), "ndarray", min_len=1).fresh("n", ctx)
    c = reg.get(qual)
    env = c.spec_env(interp, {"n": n})
    v = c.eval_spec(interp, c.returns_expr.expr, env)
    sums = ctx.vec_sums
    S1 = sums.get((("n", 1),))
    S2 = sums.get((("n", 2),))
    S3 = sums.get((("n", 3),))
    return to_real(v), S1, S2, S3


def _subst(term, S1, S2, S3, N, F2, F3):
    sub = []
    if S1 is not None:
        sub.append((S1, z3.ToInt(N)))
    if S2 is not None:
        sub.append((S2, z3.ToInt(F2 + N)))
    if S3 is not None:
        sub.append((S3, z3.ToInt(F3 + 3 * F2 + N)))
    return z3.substitute(term, *sub)


def _real_version(term, S1, S2, S3, N, F2, F3):
    """replace ToReal(S) by real expressions (S symbols are Int consts)"""
    sub = []
    for S, e in ((S1, N), (S2, F2 + N), (S3, F3 + 3 * F2 + N)):
        if S is not None:
            sub.append((S, e))
    t = z3.substitute(term, *sub)
    return t


def moment_axiom_bounded(maxN=6, K=3):
    """exact check of E[(n_i)_a (n_j)_b] = (N)_{a+b} p_i^a p_j^b for the moments used (a,b <= 2, i != j; a <= 4)
    by enumerating every count vector: all N <= maxN, K categories, a few rational p."""
    def ff(x, a):
        r = 1
        for t in range(a):
            r *= (x - t)
        return r
    ps = [(Fraction(1, 2), Fraction(1, 3), Fraction(1, 6)), (Fraction(1, 5), Fraction(1, 5), Fraction(3, 5)),
          (Fraction(1, 3), Fraction(2, 3), Fraction(0))]
    checked = 0
    for p in ps:
        for N in range(2, maxN + 1):
            E = {}
            for cnt in itertools.product(range(N + 1), repeat=K):
                if sum(cnt) != N:
                    continue
                pr = Fraction(math.factorial(N))
                for c, q in zip(cnt, p):
                    pr = pr * (q ** c) / math.factorial(c)
                for a in range(0, 5):
                    E[("s", a)] = E.get(("s", a), 0) + pr * ff(cnt[0], a)
                for a in (1, 2):
                    for b in (1, 2):
                        E[("c", a, b)] = E.get(("c", a, b), 0) + pr * ff(cnt[0], a) * ff(cnt[1], b)
            for a in range(0, 5):
                assert E[("s", a)] == ff(N, a) * p[0] ** a, (p, N, a)
                checked += 1
            for a in (1, 2):
                for b in (1, 2):
                    assert E[("c", a, b)] == ff(N, a + b) * p[0] ** a * p[1] ** b, (p, N, a, b)
                    checked += 1
    return checked


@plugin("C06")
def c06_lemmas(repo, reg, prop, tier, seed):
    N, F2, F3, s2, s3 = z3.Reals("N F2 F3 s2 s3")
    obl = []

    def add(name, hyps, goal):
        obl.append(Obligation(name, [(h, None) for h in hyps], goal, dict(kind="lemma", function=None, inputs={})))

    # pc_n
    t, S1, S2, S3 = _contract_term(repo, reg, "pyrepseq.stats.pc_n")
    g = _real_version(t, S1, S2, S3, N, F2, F3)
    g1 = z3.substitute(g, (F2, z3.RealVal(1)))
    add("C06/lemma/pc_n is linear in F2", [N >= 2], g == g1 * F2)
    add("C06/lemma/E[pc_n] = sum p^2", [N >= 2], g1 * (N * (N - 1) * s2) == s2)
    # varpc_n
    t, S1, S2, S3 = _contract_term(repo, reg, "pyrepseq.stats.varpc_n")
    v = _real_version(t, S1, S2, S3, N, F2, F3)

    def at(f2, f3):
        return z3.substitute(v, (F2, z3.RealVal(f2)), (F3, z3.RealVal(f3)))
    a = at(0, 1)
    c = (at(2, 0) - 2 * at(1, 0)) / 2
    b = at(1, 0) - c
    add("C06/lemma/varpc_n = a*F3 + b*F2 + c*F2^2", [N >= 4], v == a * F3 + b * F2 + c * F2 * F2)
    N2 = N * (N - 1)
    N3 = N2 * (N - 2)
    N4 = N3 * (N - 3)
    EF2sq = N4 * s2 * s2 + 4 * N3 * s3 + 2 * N2 * s2
    var_true = EF2sq / (N2 * N2) - s2 * s2
    add("C06/lemma/E[varpc_n] = Var(pc_n)", [N >= 4], a * (N3 * s3) + b * (N2 * s2) + c * EF2sq == var_true)
    # two-sample: contract of pc says cross/(N1*N2); E[cross] = N1*N2*sum(p_i q_i) by independence
    N1, M2, spq = z3.Reals("N1 N2 spq")
    add("C06/lemma/E[pc(a,b)] = sum p q", [N1 >= 1, M2 >= 1], (N1 * M2 * spq) / (N1 * M2) == spq)
    checked = moment_axiom_bounded(6 if tier == "quick" else 8, 3)
    return {
        "name": "c06_lemmas", "obligations": obl,
        "assumed": ["axiom:multinomial factorial moments E[(n_i)_a (n_j)_b] = (N)_{a+b} p_i^a p_j^b (i != j), "
                    "hence E[F2] = (N)_2 s2, E[F3] = (N)_3 s3, E[F2^2] = (N)_4 s2^2 + 4 (N)_3 s3 + 2 (N)_2 s2 "
                    "(uses (n)_2^2 = (n)_4 + 4 (n)_3 + 2 (n)_2); linearity of expectation",
                    "axiom:E[cross(a,b)] = N1*N2*sum p_i q_i for independent samples"],
        "bounded_standins": [{"what": "multinomial factorial-moment axiom checked by exact rational enumeration of all count vectors",
                              "bound": f"N <= {6 if tier == 'quick' else 8}, K = 3, three probability vectors", "cases": checked,
                              "note": "bounded validation of an ASSUMED axiom; not counted as an obligation"}],
    }
