"""Spec vocabulary for the neighbour-search chain: edit distance, deletion variants, and the
imported (Lean-proved) lemmas that connect them.  Lemmas are imported as axioms in a
trigger-friendly form; each use is recorded under `assumed` as "lemma:<name> (Lean)".
"""
import z3
from .values import *
from . import externs as E
from . import spec as S
from . import types as T
from .externs import extern, method, raise_py

STR = z3.StringSort()
INT = z3.IntSort()
IDX = z3.ArraySort(INT, INT)

lev_f = z3.Function("lev", STR, STR, INT)
ham_f = z3.Function("ham", STR, STR, INT)
subseq_f = z3.Function("subseq", STR, STR, z3.BoolSort())        # subseq(v, s): v is a subsequence of s
common_f = z3.Function("common_del", STR, STR, INT, STR)         # Skolem witness of L-symdel
delcnt_f = z3.Function("del_count", STR, STR, INT)               # Skolem witnesses of L-comb (<-)
delidx_f = z3.Function("del_index", STR, STR, IDX)


def delvar_fun():
    """delvar(s, I, e, t, off): s[off:] with the positions I[t], ..., I[e-1] removed
    (same recursion as lean/Spec.lean `delvar`, index list = array + length)"""
    def build(f, s, I, e, t, off):
        return z3.If(t >= e, z3.SubString(s, off, z3.Length(s) - off),
                     z3.Concat(z3.SubString(s, off, I[t] - off), f(s, I, e, t + 1, I[t] + 1)))
    return S._recfun("delvar", [STR, IDX, INT, INT, INT], STR, build)


def in_del(v, s, k):
    """v is obtained from s by deleting at most k characters"""
    return z3.And(subseq_f(v, s), z3.Length(s) <= z3.Length(v) + k, z3.Length(v) <= z3.Length(s))


def adm(s, I, e):
    p, q = z3.Int("p!adm"), z3.Int("q!adm")
    n = z3.Length(s)
    return z3.And(e >= 0, z3.ForAll([p], z3.Implies(z3.And(0 <= p, p < e), z3.And(I[p] >= 0, I[p] < n))),
                  z3.ForAll([p, q], z3.Implies(z3.And(0 <= p, p < q, q < e), I[p] < I[q])))


def axioms(ctx, which):
    """add the imported lemma `which` (once per path)"""
    if ("ax", which) in ctx.axioms_added:
        return
    ctx.axioms_added.add(("ax", which))
    a, b, c, s, v = [z3.Const(n, STR) for n in ("a!x", "b!x", "c!x", "s!x", "v!x")]
    k, e = z3.Int("k!x"), z3.Int("e!x")
    I = z3.Const("I!x", IDX)
    if which == "lev-basic":
        ctx.assume_global(z3.ForAll([a, b], z3.And(lev_f(a, b) >= 0, lev_f(a, b) == lev_f(b, a),
                                            (lev_f(a, b) == 0) == (a == b)), patterns=[lev_f(a, b)]),
                   "lemma:L-lev0 / L-sym (Lean) lev >= 0, lev a b = lev b a, lev a b = 0 <-> a = b")
    elif which == "symdel":
        c0 = common_f(a, b, k)
        ctx.assume_global(z3.ForAll([a, b, k], z3.Implies(z3.And(lev_f(a, b) <= k, k >= 0),
                                                   z3.And(in_del(c0, a, k), in_del(c0, b, k))),
                             patterns=[common_f(a, b, k)]),
                   "lemma:L-symdel (Lean) lev a b <= k -> a common subsequence within k deletions of both")
    elif which == "subseq-refl":
        ctx.assume_global(z3.ForAll([a], subseq_f(a, a), patterns=[subseq_f(a, a)]), "lemma:subseq reflexive (Lean: List.Sublist.refl)")
    elif which == "comb":
        dv = delvar_fun()
        ctx.assume_global(z3.ForAll([s, I, e], z3.Implies(adm(s, I, e),
                                                   z3.And(subseq_f(dv(s, I, e, 0, 0), s),
                                                          z3.Length(dv(s, I, e, 0, 0)) + e == z3.Length(s))),
                             patterns=[dv(s, I, e, 0, 0)]),
                   "lemma:L-comb -> (Lean) deleting admissible positions yields a subsequence shorter by their number")
        ce, cI = delcnt_f(s, v), delidx_f(s, v)
        ctx.assume_global(z3.ForAll([s, v], z3.Implies(z3.And(subseq_f(v, s), z3.Length(v) <= z3.Length(s)),
                                                z3.And(ce == z3.Length(s) - z3.Length(v), adm(s, cI, ce),
                                                       dv(s, cI, ce, 0, 0) == v)),
                             patterns=[delcnt_f(s, v)]),
                   "lemma:L-comb <- (Lean) every subsequence is a deletion variant at admissible positions")


class JoinedList(VList):
    """a list of strings abstracted by the concatenation of its elements (only append and ''.join
    are supported)"""

    def __init__(self, joined):
        super().__init__(ConcreteSeq([]), "list")
        self.joined = joined
        self.content = None


class JoinedListT(T.T):
    def family(self, name, ctx, psorts):
        c = ctx.fresh(name + "_joined", STR)
        return lambda p: JoinedList(c)

    def decode(self, model, value):
        return {"t": "opaque", "tag": "list"}


T.NAMESPACE.update(JoinedListT=JoinedListT)

_orig_append = E.METHODS[("list", "append")]


def _append(interp, sv, args, kwargs, node):
    if isinstance(sv, JoinedList):
        if not isinstance(args[0], VStr):
            raise Unsupported("JoinedList.append of a non-string")
        interp.check_mutable_target(sv, node, ".append")
        sv.joined = z3.Concat(sv.joined, args[0].term)
        return NONE
    return _orig_append(interp, sv, args, kwargs, node)


E.METHODS[("list", "append")] = _append


def _join_sym(interp, sep, it, node):
    if isinstance(it, JoinedList) and concrete_str(sep) == "":
        return VStr(it.joined)
    raise Unsupported("str.join over a symbolic sequence")


S.join_sym = _join_sym


@S.spec("joined")
def _joined(interp, args, kwargs, node):
    v = args[0]
    if isinstance(v, JoinedList):
        return VStr(v.joined)
    items = interp.concrete_iter(v)
    t = z3.StringVal("")
    for x in items:
        t = z3.Concat(t, x.term)
    return VStr(z3.simplify(t))


def _idx_parts(interp, indexes):
    arr = getattr(indexes, "index_array", None)
    if arr is None:
        raise Unsupported("delvar needs an index tuple produced by combinations(range(n), r)")
    return arr, indexes.content.length


@S.spec("delvar")
def _delvar(interp, args, kwargs, node):
    """delvar(seq, indexes, t, off)"""
    seq, indexes, t, off = args
    arr, e = _idx_parts(interp, indexes)
    return VStr(delvar_fun()(seq.term, arr, e, to_int(t), to_int(off)))


@S.spec("index_at")
def _index_at(interp, args, kwargs, node):
    indexes, t = args
    arr, e = _idx_parts(interp, indexes)
    return VInt(arr[to_int(t)])


@S.spec("in_del")
def _in_del(interp, args, kwargs, node):
    v, s, k = args
    axioms(interp.ctx, "subseq-refl")
    return VBool(in_del(v.term, s.term, to_int(k)))


@S.spec("del_set")
def _del_set(interp, args, kwargs, node):
    """the set of deletion variants of s with at most k deletions (including s itself)"""
    s, k = args
    axioms(interp.ctx, "subseq-refl")
    st, kt = s.term, to_int(k)
    r = VSet(pred=lambda v: in_del(v.term, st, kt))
    r.elem_kind = T.Str
    return r


@S.spec("del_count")
def _del_count(interp, args, kwargs, node):
    axioms(interp.ctx, "comb")
    return VInt(delcnt_f(args[0].term, args[1].term))


@S.spec("del_index")
def _del_index(interp, args, kwargs, node):
    axioms(interp.ctx, "comb")
    o = VObj("index_array", None)
    o.term = delidx_f(args[0].term, args[1].term)
    return o


@S.spec("use_lemma")
def _use_lemma(interp, args, kwargs, node):
    for a in args:
        axioms(interp.ctx, concrete_str(a))
    return VBool(True)


@S.spec("lev")
def _lev(interp, args, kwargs, node):
    axioms(interp.ctx, "lev-basic")
    return VInt(lev_f(args[0].term, args[1].term))


@S.spec("common_del")
def _common_del(interp, args, kwargs, node):
    axioms(interp.ctx, "symdel")
    return VStr(common_f(args[0].term, args[1].term, to_int(args[2])))


@extern("rapidfuzz.distance.Levenshtein.distance", "Levenshtein.distance")
def rf_lev(interp, args, kwargs, node):
    a, b = args[0], args[1]
    if not (isinstance(a, VStr) and isinstance(b, VStr)):
        raise Unsupported("levenshtein distance of non-strings")
    if kwargs:
        return interp.born(E.opaque(interp, "rapidfuzz.distance.Levenshtein.distance", args, kwargs, "int"))
    axioms(interp.ctx, "lev-basic")
    interp.ctx.assumed.add("extern:rapidfuzz Levenshtein.distance(a, b) is the unit-cost edit distance lev(a, b)")
    return VInt(lev_f(a.term, b.term))


hcommon_f = z3.Function("common_del_h", STR, STR, INT, STR)


def axioms_h(ctx):
    if ("ax", "hamdel") in ctx.axioms_added:
        return
    ctx.axioms_added.add(("ax", "hamdel"))
    a, b = z3.Const("a!h", STR), z3.Const("b!h", STR)
    k = z3.Int("k!h")
    ctx.assume_global(z3.ForAll([a, b], z3.And(ham_f(a, b) >= 0, ham_f(a, b) == ham_f(b, a),
                                        z3.Implies(z3.Length(a) == z3.Length(b), (ham_f(a, b) == 0) == (a == b))),
                         patterns=[ham_f(a, b)]),
               "lemma:ham basic (Lean) ham >= 0, symmetric, ham a b = 0 <-> a = b for equal lengths")
    axioms(ctx, "lev-basic")
    ctx.assume_global(z3.ForAll([a, b], z3.Implies(z3.Length(a) == z3.Length(b), lev_f(a, b) <= ham_f(a, b)),
                                patterns=[ham_f(a, b)]),
                      "lemma:lev_le_ham (Lean) for equal lengths the edit distance is at most the Hamming distance")
    c0 = hcommon_f(a, b, k)
    ctx.assume_global(z3.ForAll([a, b, k], z3.Implies(z3.And(z3.Length(a) == z3.Length(b), ham_f(a, b) <= k, k >= 0),
                                               z3.And(in_del(c0, a, k), in_del(c0, b, k))),
                         patterns=[hcommon_f(a, b, k)]),
               "lemma:L-hamdel (Lean) equal length and ham a b <= k -> a common subsequence within k deletions of both")


@S.spec("ham")
def _ham(interp, args, kwargs, node):
    axioms_h(interp.ctx)
    return VInt(ham_f(args[0].term, args[1].term))


@S.spec("common_del_h")
def _common_del_h(interp, args, kwargs, node):
    axioms_h(interp.ctx)
    return VStr(hcommon_f(args[0].term, args[1].term, to_int(args[2])))


@extern("rapidfuzz.distance.Hamming.distance")
def rf_ham(interp, args, kwargs, node):
    a, b = args[0], args[1]
    axioms_h(interp.ctx)
    short = (interp.current_qualname or "").replace("pyrepseq.", "")
    # rapidfuzz pads the shorter string (counts the length difference); the contract is only the
    # equal-length case, so equal length is a call pre-condition
    interp.ctx.oblige(f"{short}/call-pre[Hamming.distance.equal-length]@L{getattr(node, 'lineno', '?')}",
                      z3.Length(a.term) == z3.Length(b.term), kind="call-pre", line=getattr(node, "lineno", None))
    interp.ctx.assumed.add("extern:rapidfuzz Hamming.distance(a, b) = number of mismatching positions for equal-length strings")
    return VInt(ham_f(a.term, b.term))


@S.spec("vd_pos")
def _vd_pos(interp, args, kwargs, node):
    """Skolem witness: a position of p in the index list of variant v (named so that callers can give hints)"""
    db, v, p = args
    f = db.attrs.get("__vd_pos")
    if f is None:
        f = interp.ctx.fresh_fun("vd_pos", STR, INT, INT)
        db.attrs["__vd_pos"] = f
    return VInt(f(v.term, to_int(p)))


@S.spec("neighbor_triplets")
def _neighbor_triplets(interp, args, kwargs, node):
    """the specified result of a two-collection search as a comprehension:
    {(q, r, value(Q[q], R[r])) : 0 <= q < |Q|, 0 <= r < |R|, neighbour(Q[q], R[r])}, each once"""
    Q, R, pred, val = args[:4]
    distinct = len(args) > 4 and concrete_bool(interp.as_bool_term(args[4])) is True
    ctx = interp.ctx
    q, r = ctx.fresh("q", INT), ctx.fresh("r", INT)
    nq, nr = interp.seq_len(Q), interp.seq_len(R)
    a, b = interp.seq_at(Q, q), interp.seq_at(R, r)
    cond = z3.And(0 <= q, q < nq, 0 <= r, r < nr, interp.as_bool_term(interp.call(pred, [a, b], {}, node)))
    if distinct:
        cond = z3.And(cond, q != r)
    elem = VTuple([VInt(q), VInt(r), interp.call(val, [a, b], {}, node)])
    out = VList(CompBag([Site("spec", [q, r], cond, elem)]), "list")
    out.setlike = True
    return out


# ---- one-edit relation as an abstract predicate + the Lean lemmas L-step / L-hstep / L-n1 ------------------
BOOL = z3.BoolSort()
n1_f = z3.Function("n1", STR, STR, STR, BOOL)          # n1(x, alphabet, y): y is a one-edit variant of x with letters from alphabet
n1h_f = z3.Function("n1h", STR, STR, STR, BOOL)        # single substitution by a different letter of the alphabet
over_f = z3.Function("over", STR, STR, BOOL)           # over(s, alphabet): every character of s is in alphabet
pred_f = z3.Function("lev_pred", STR, STR, STR)        # Skolem of L-step (B)
predh_f = z3.Function("ham_pred", STR, STR, STR)


def axioms_step(ctx, which):
    if ("ax", which) in ctx.axioms_added:
        return
    ctx.axioms_added.add(("ax", which))
    x, y, y2, A = [z3.Const(n, STR) for n in ("x!s", "y!s", "y2!s", "A!s")]
    if which == "step":
        axioms(ctx, "lev-basic")
        ctx.assume_global(z3.ForAll([x, y, y2, A], z3.Implies(n1_f(y, A, y2), lev_f(x, y2) <= lev_f(x, y) + 1),
                                    patterns=[z3.MultiPattern(n1_f(y, A, y2), lev_f(x, y))]),
                          "lemma:L-step A (Lean) one edit changes the distance to any x by at most 1")
        ctx.assume_global(z3.ForAll([y, y2, A], z3.Implies(n1_f(y, A, y2), z3.And(z3.Implies(over_f(y, A), over_f(y2, A)), y != y2)),
                                    patterns=[n1_f(y, A, y2)]),
                          "lemma:L-n1 (Lean) + alphabet: a one-edit variant over the alphabet of a string over the alphabet is over it, and differs")
        p = pred_f(x, y)
        ctx.assume_global(z3.ForAll([x, y, A], z3.Implies(z3.And(over_f(x, A), over_f(y, A), lev_f(x, y) >= 1),
                                                          z3.And(n1_f(p, A, y), lev_f(x, p) <= lev_f(x, y) - 1, over_f(p, A))),
                                    patterns=[z3.MultiPattern(pred_f(x, y), over_f(y, A))]),
                          "lemma:L-step B (Lean) lev x y >= 1 -> some z over the same letters with lev x z <= lev x y - 1 and one edit z -> y")
    elif which == "hstep":
        axioms_h(ctx)
        L = z3.Length
        ctx.assume_global(z3.ForAll([x, y, y2, A], z3.Implies(z3.And(n1h_f(y, A, y2), L(x) == L(y)),
                                                              ham_f(x, y2) <= ham_f(x, y) + 1),
                                    patterns=[z3.MultiPattern(n1h_f(y, A, y2), ham_f(x, y))]),
                          "lemma:L-hstep A (Lean) one substitution changes the Hamming distance to any x by at most 1")
        ctx.assume_global(z3.ForAll([y, y2, A], z3.Implies(n1h_f(y, A, y2),
                                                           z3.And(L(y) == L(y2), z3.Implies(over_f(y, A), over_f(y2, A)), y != y2)),
                                    patterns=[n1h_f(y, A, y2)]),
                          "lemma:L-hstep (Lean) a substitution keeps the length, stays over the alphabet, and changes the string")
        p = predh_f(x, y)
        ctx.assume_global(z3.ForAll([x, y, A], z3.Implies(z3.And(over_f(x, A), over_f(y, A), L(x) == L(y), ham_f(x, y) >= 1),
                                                          z3.And(n1h_f(p, A, y), ham_f(x, p) <= ham_f(x, y) - 1, over_f(p, A), L(p) == L(x))),
                                    patterns=[z3.MultiPattern(predh_f(x, y), over_f(y, A))]),
                          "lemma:L-hstep B (Lean) ham x y >= 1 -> some z with ham x z <= ham x y - 1 and one substitution z -> y")


@S.spec("over_alphabet")
def _over_alphabet(interp, args, kwargs, node):
    return VBool(over_f(args[0].term, args[1].term))


def _pred_set(interp, pred):
    r = VSet(pred=pred)
    r.elem_kind = T.Str
    return r


@S.spec("one_edit_set")
def _one_edit_set(interp, args, kwargs, node):
    """the strings yielded by levenshtein_neighbors(x, alphabet), as an abstract set (each once)"""
    x, A = args
    axioms_step(interp.ctx, "step")
    xt, At = x.term, A.term
    return _pred_set(interp, lambda y: n1_f(xt, At, y.term))


@S.spec("one_sub_set")
def _one_sub_set(interp, args, kwargs, node):
    x, A = args
    axioms_step(interp.ctx, "hstep")
    xt, At = x.term, A.term
    return _pred_set(interp, lambda y: n1h_f(xt, At, y.term))


@S.spec("lev_pred")
def _lev_pred(interp, args, kwargs, node):
    axioms_step(interp.ctx, "step")
    return VStr(pred_f(args[0].term, args[1].term))


@S.spec("ham_pred")
def _ham_pred(interp, args, kwargs, node):
    axioms_step(interp.ctx, "hstep")
    return VStr(predh_f(args[0].term, args[1].term))


@S.spec("n1")
def _n1(interp, args, kwargs, node):
    axioms_step(interp.ctx, "step")
    return VBool(n1_f(args[0].term, args[1].term, args[2].term))


@S.spec("n1h")
def _n1h(interp, args, kwargs, node):
    axioms_step(interp.ctx, "hstep")
    return VBool(n1h_f(args[0].term, args[1].term, args[2].term))


# ---- amino-acid composition histogram (kdtree pre-filter) ----------------------------------------------------
REAL = z3.RealSort()
AA = "ACDEFGHIKLMNPQRSTVWY"


def aa_index(c):
    return z3.IndexOf(z3.StringVal(AA), c, 0)


def cnt_fun():
    """cnt(s, t, b, comp) = #{p < t : floor(index(s[p]) / comp) = b}"""
    def build(f, s, t, b, comp):
        hit = z3.ToInt(z3.ToReal(aa_index(z3.SubString(s, t - 1, 1))) / comp) == b
        return z3.If(t <= 0, 0, f(s, t - 1, b, comp) + z3.If(hit, 1, 0))
    return S._recfun("cnt", [STR, INT, INT, REAL], INT, build)


@S.spec("cnt")
def _cnt(interp, args, kwargs, node):
    s, t, b, comp = args
    return VInt(cnt_fun()(s.term, to_int(t), to_int(b), to_real(comp)))


def over_def(ctx):
    """meaning of over(s, A): every character of s occurs in A (definition, used where characters are looked up)"""
    if ("ax", "over-def") in ctx.axioms_added:
        return
    ctx.axioms_added.add(("ax", "over-def"))
    s, A = z3.Const("s!o", STR), z3.Const("A!o", STR)
    k = z3.Int("k!o")
    ctx.assume_global(z3.ForAll([s, A, k], z3.Implies(z3.And(over_f(s, A), 0 <= k, k < z3.Length(s)),
                                                      z3.Contains(A, z3.SubString(s, k, 1))),
                                patterns=[z3.MultiPattern(over_f(s, A), z3.SubString(s, k, 1))]),
                      "spec:over(s, A) means every character of s occurs in A")


_orig_over = S.SPEC["over_alphabet"]


def _over_alphabet2(interp, args, kwargs, node):
    over_def(interp.ctx)
    return _orig_over(interp, args, kwargs, node)


S.SPEC["over_alphabet"] = _over_alphabet2

enc_f = z3.Function("enc", STR, REAL, OBJ)                        # the histogram vector of a sequence
sqd_f = z3.Function("sqdist", OBJ, OBJ, REAL)                     # squared Euclidean distance of two vectors


@S.spec("hist_vec")
def _hist_vec(interp, args, kwargs, node):
    s, comp = args
    ctx = interp.ctx
    if ("ax", "enc") not in ctx.axioms_added:
        ctx.axioms_added.add(("ax", "enc"))
        axioms(ctx, "lev-basic")
        a, b = z3.Const("a!e", STR), z3.Const("b!e", STR)
        c = z3.Real("c!e")
        ctx.assume_global(z3.ForAll([a, b, c], z3.Implies(c >= 1, z3.And(
            sqd_f(enc_f(a, c), enc_f(b, c)) >= 0,
            sqd_f(enc_f(a, c), enc_f(b, c)) <= 2 * z3.ToReal(lev_f(a, b)) * z3.ToReal(lev_f(a, b)))),
            patterns=[sqd_f(enc_f(a, c), enc_f(b, c))]),
            "lemma:L-enc (Lean) squared Euclidean distance of composition histograms <= 2 lev^2, for any binning")
    o = VObj("histvec", enc_f(s.term, to_real(comp)))
    return o


# ---- rapidfuzz.process.extract, candidate enumeration, fancy indexing -----------------------------------------

def enumerate_bag(interp, lst):
    """Turn a de-duplicated candidate list held as an unordered comprehension into an (arbitrary but fixed)
    enumeration: a sequence that hits every member exactly once."""
    bag = lst.content
    if not isinstance(bag, CompBag):
        return
    ctx = interp.ctx
    e0 = bag.sites[0].elem if bag.sites else VInt(0)
    if not all(isinstance(s.elem, VInt) for s in bag.sites):
        raise Unsupported("enumeration of a non-integer bag")
    n = ctx.fresh("ncand", INT)
    enum = ctx.fresh_fun("cand", INT, INT)
    pos = ctx.fresh_fun("candpos", INT, INT)
    p, q, x = z3.Int("p!en"), z3.Int("q!en"), z3.Int("x!en")
    mem = lambda t: S.bag_contains(interp, bag, VInt(t))
    ctx.assume(n >= 0)
    ctx.assume(z3.ForAll([p], z3.Implies(z3.And(0 <= p, p < n), mem(enum(p))), patterns=[enum(p)]),
               "python:list(iterable) enumerates the members of the iterable")
    ctx.assume(z3.ForAll([p, q], z3.Implies(z3.And(0 <= p, p < q, q < n), enum(p) != enum(q))))
    ctx.assume(z3.ForAll([x], z3.Implies(mem(x), z3.And(0 <= pos(x), pos(x) < n, enum(pos(x)) == x)), patterns=[pos(x)]))
    lst.content = SymSeq(n, lambda k: VInt(enum(k)), T.Int)
    lst.enum_pos = pos


def _fancy_index(interp, base, idx, node):
    if isinstance(base, VList) and base.kind == "ndarray" and isinstance(idx, VList) and idx.kind == "list" \
            and isinstance(base.content, SymSeq):
        if isinstance(idx.content, CompBag):
            enumerate_bag(interp, idx)
        if isinstance(idx.content, (SymSeq, ConcreteSeq)):
            interp.ctx.assumed.add("extern:numpy fancy indexing a[list] is the array of a[k] for k in list, in order")
            n = interp.seq_len(idx)
            r = VList(SymSeq(n, lambda p: base.content.at(to_int(interp.seq_at(idx, p))), base.content.elem_kind), "ndarray")
            return interp.born(r)
    if isinstance(base, VList) and isinstance(base.content, CompBag) and isinstance(idx, VInt) and base.kind == "list":
        enumerate_bag(interp, base)
        return None
    return None


E.HOOKS["index"].insert(0, _fancy_index)


@extern("rapidfuzz.process.extract")
def rf_extract(interp, args, kwargs, node):
    """extract(query, choices, scorer, score_cutoff, limit=None): (choice, score, index) for exactly the indices with
    score <= score_cutoff, each once (distance-type scorers)"""
    query, choices = args[0], args[1]
    scorer = kwargs.get("scorer")
    cutoff = kwargs.get("score_cutoff")
    limit = kwargs.get("limit", NONE)
    if not isinstance(limit, VNone):
        raise Unsupported("rapidfuzz.process.extract with limit (max_returns) is not modelled")
    ov = E.ordered_view(interp, choices, node)
    if ov is None:
        raise Unsupported("extract over unordered choices")
    n, at = ov
    ctx = interp.ctx
    p = ctx.fresh("xp", INT)
    mark = ctx.mark()
    try:
        ctx.assume(z3.And(0 <= p, p < n))
        score = interp.call(scorer, [query, at(p)], {}, node)
    finally:
        ctx.reset(mark)
    ctx.assumed.add("extern:rapidfuzz.process.extract keeps exactly the choices with score <= score_cutoff, each once, "
                    "as (choice, score, index)")
    cond = z3.And(0 <= p, p < n, interp.order("LtE", score, cutoff, node))
    out = VList(CompBag([Site("extract", [p], cond, VTuple([at(p), score, VInt(p)]))]), "list")
    out.setlike = True
    return interp.born(out)


@S.spec("enum_pos")
def _enum_pos(interp, args, kwargs, node):
    """position of x in the enumeration the code made of a candidate collection (witness hint)"""
    lst, x = args
    f = getattr(lst, "enum_pos", None)
    if f is None:
        raise Unsupported("enum_pos: the collection was not enumerated")
    return VInt(f(to_int(x)))


@S.spec("cand_triplets")
def _cand_triplets(interp, args, kwargs, node):
    """{(i, j, value(s_i, s_j)) : j in cand, j != i, neighbour(s_i, s_j)} -- one query's contribution, each once"""
    i, cand, seqs, pred, val = args
    ctx = interp.ctx
    j = ctx.fresh("j", INT)
    a, b = interp.seq_at(seqs, to_int(i)), interp.seq_at(seqs, j)
    cond = z3.And(interp.contains(cand, VInt(j)), j != to_int(i),
                  interp.as_bool_term(interp.call(pred, [a, b], {}, node)))
    out = VList(CompBag([Site("spec", [j], cond, VTuple([i, VInt(j), interp.call(val, [a, b], {}, node)]))]), "list")
    out.setlike = True
    return out


@S.spec("all_cand_triplets")
def _all_cand_triplets(interp, args, kwargs, node):
    """union over all queries i of cand_triplets(i, y_indices[i], ...)"""
    y_indices, seqs, pred, val = args
    ctx = interp.ctx
    i, j = ctx.fresh("i", INT), ctx.fresh("j", INT)
    n = interp.seq_len(y_indices)
    a, b = interp.seq_at(seqs, i), interp.seq_at(seqs, j)
    cond = z3.And(0 <= i, i < n, interp.contains(interp.seq_at(y_indices, i), VInt(j)), j != i,
                  interp.as_bool_term(interp.call(pred, [a, b], {}, node)))
    out = VList(CompBag([Site("spec", [i, j], cond, VTuple([VInt(i), VInt(j), interp.call(val, [a, b], {}, node)]))]), "list")
    out.setlike = True
    return out


@S.spec("bucket_pos")
def _bucket_pos(interp, args, kwargs, node):
    """Skolem witness: the position of p inside its length bucket (named so that callers can give hints)"""
    d, p = args
    f = getattr(d, "bucket_pos_f", None)
    if f is None:
        f = interp.ctx.fresh_fun("bucket_pos", INT, INT)
        d.bucket_pos_f = f
    return VInt(f(to_int(p)))


# ---- weighted edit distance, rapidfuzz.process.cdist, squareform ---------------------------------------------
wlev_f = z3.Function("wlev", STR, STR, INT, INT, INT, INT)     # wlev(a, b, ins, del, sub): min total weight of edits turning a into b


def wlev_axioms(ctx):
    if ("ax", "wlev") in ctx.axioms_added:
        return
    ctx.axioms_added.add(("ax", "wlev"))
    a, b = z3.Const("a!w", STR), z3.Const("b!w", STR)
    ctx.assume_global(z3.ForAll([a, b], wlev_f(a, b, 1, 1, 1) == lev_f(a, b), patterns=[wlev_f(a, b, 1, 1, 1)]),
                      "spec:wlev with unit weights is the Levenshtein distance")


_rf_lev_plain = E.EXTERNS["rapidfuzz.distance.Levenshtein.distance"]


def rf_lev_weighted(interp, args, kwargs, node):
    if set(kwargs) == {"weights"} and isinstance(kwargs["weights"], VTuple) and len(kwargs["weights"].items) == 3:
        a, b = args
        w = [to_int(x) for x in kwargs["weights"].items]
        wlev_axioms(interp.ctx)
        interp.ctx.assumed.add("extern:rapidfuzz Levenshtein.distance(a, b, weights=(insertion, deletion, substitution)) is the minimum "
                               "total weight of edits turning a into b (C++ extension: assumed)")
        return VInt(wlev_f(a.term, b.term, w[0], w[1], w[2]))
    return _rf_lev_plain(interp, args, kwargs, node)


for _n in ("rapidfuzz.distance.Levenshtein.distance", "rapidfuzz.distance.Levenshtein.distance"):
    E.EXTERNS[_n] = rf_lev_weighted
E.SUBMODULES.update({"rapidfuzz", "rapidfuzz.distance", "rapidfuzz.distance.Levenshtein", "rapidfuzz.process"})


@S.spec("wlev")
def _wlev(interp, args, kwargs, node):
    wlev_axioms(interp.ctx)
    axioms(interp.ctx, "lev-basic")
    a, b, i, d, s = args
    return VInt(wlev_f(a.term, b.term, to_int(i), to_int(d), to_int(s)))


@S.spec("wlev_scorer")
def _wlev_scorer(interp, args, kwargs, node):
    i, d, s = [to_int(x) for x in args]
    wlev_axioms(interp.ctx)

    def call(interp2, a, kw, node2):
        return VInt(wlev_f(a[0].term, a[1].term, i, d, s))
    return VFunc("pyfn", "wlev_scorer", data=call)


@S.spec("apply2")
def _apply2(interp, args, kwargs, node):
    f, a, b = args
    return interp.call(f, [a, b], {}, node)


@extern("rapidfuzz.process.cdist")
def rf_cdist(interp, args, kwargs, node):
    """process.cdist(queries, choices, scorer=s): matrix M[i, j] = s(queries[i], choices[j]) by POSITION; the default dtype is wide
    enough for the scores (no wrap-around).  A dtype argument is not part of the assumed contract."""
    from .ext_numpy import VMatrix
    A, Bc = args[0], args[1]
    scorer = kwargs.get("scorer")
    if "dtype" in kwargs:
        raise Unsupported("rapidfuzz.process.cdist(dtype=...): narrowing dtypes wrap around and are outside the assumed contract")
    va, vb = E.ordered_view(interp, A, node), E.ordered_view(interp, Bc, node)
    if va is None or vb is None:
        raise Unsupported("process.cdist over unordered collections")
    interp.ctx.assumed.add("extern:rapidfuzz.process.cdist(A, B, scorer)[i, j] = scorer(A[i], B[j]) by position, default dtype wide enough")
    return interp.born(VMatrix(va[0], vb[0], lambda r, c: interp.call(scorer, [va[1](r), vb[1](c)], {}, node)))


@S.spec("scorer_matrix")
def _scorer_matrix(interp, args, kwargs, node):
    from .ext_numpy import VMatrix
    f, A, Bc = args
    va, vb = E.ordered_view(interp, A, node), E.ordered_view(interp, Bc, node)
    return VMatrix(va[0], vb[0], lambda r, c: interp.call(f, [va[1](r), vb[1](c)], {}, node))


E.EXTERNS["rapidfuzz.distance.Levenshtein.distance"] = rf_lev_weighted


@S.spec("unit_weighted")
def _unit_weighted(interp, args, kwargs, node):
    """a WeightedLevenshtein instance whose scorer is the unit-cost edit distance"""
    axioms(interp.ctx, "lev-basic")
    o = VObj("WeightedLevenshtein", attrs={"__repo_instance__": True})
    o.attrs["_scorer"] = VFunc("pyfn", "lev_scorer", data=lambda i2, a, kw, n2: VInt(lev_f(a[0].term, a[1].term)))
    return o


@S.spec("condensed_scores")
def _condensed_scores(interp, args, kwargs, node):
    """the SciPy condensed vector of pairwise scores: v[m*i + j - (i+2)(i+1)/2] = f(X[i], X[j]) for i < j"""
    from . import vec
    f, X = args
    n, at = E.ordered_view(interp, X, node)
    ctx = interp.ctx
    g = ctx.fresh_fun("cond_scores", INT, z3.RealSort())
    i, j = z3.Int("i!cs"), z3.Int("j!cs")
    ctx.assume(z3.ForAll([i, j], z3.Implies(z3.And(0 <= i, i < j, j < n),
                                            g(n * i + j - ((i + 2) * (i + 1)) / 2) == to_real(interp.call(f, [at(i), at(j)], {}, node)))))
    return interp.born(VList(SymSeq((n * (n - 1)) / 2, lambda k: VReal(g(k), True), vec.T_RealT(np=True)), "ndarray"))


@S.spec("chain_weights")
def _chain_weights(interp, args, kwargs, node):
    return VObj("ChainWeights", attrs={"__repo_instance__": True, "alpha_weight": args[0], "beta_weight": args[1]})


@S.spec("cdr_weights")
def _cdr_weights(interp, args, kwargs, node):
    return VObj("CdrWeights", attrs={"__repo_instance__": True, "cdr1_weight": args[0], "cdr2_weight": args[1], "cdr3_weight": args[2]})
