"""Type descriptors used in side-car contract signatures.  A descriptor knows how to create a
fresh symbolic value (with its representation invariant assumed) -- possibly as a *family*
indexed by z3 terms (dict values, sequence elements) -- and how to decode a solver model back
into a JSON-able recipe from which the replay harness rebuilds the Python value.
"""
import z3
from .values import *


def mval(model, term):
    return model.eval(term, model_completion=True)


def _uf(ctx, name, psorts, rsort):
    if psorts:
        f = ctx.fresh_fun(name, *(list(psorts) + [rsort]))
        return lambda ps: f(*ps)
    c = ctx.fresh(name, rsort)
    return lambda ps: c


def _forall(params, body):
    if not params:
        return body
    return z3.ForAll(list(params), body)


class T:
    def expand(self):
        """Concrete alternatives (a contract is verified once per combination)."""
        return [self]

    def sort(self):
        raise Unsupported(f"{type(self).__name__} has no scalar sort")

    def family(self, name, ctx, psorts):
        """Declare the symbols once; returns fn(param_terms) -> Value."""
        raise NotImplementedError

    def fresh(self, name, ctx):
        return self.family(name, ctx, [])([])

    def decode(self, model, value):
        raise NotImplementedError

    def wrap(self, term):
        """Value from a z3 term of self.sort()."""
        raise Unsupported(f"wrap for {type(self).__name__}")


class IntT(T):
    def __init__(self, lo=None, hi=None, np=False):
        self.lo, self.hi, self.np = lo, hi, np

    def sort(self):
        return z3.IntSort()

    def wrap(self, term):
        return VInt(term, self.np)

    def constrain(self, t):
        cs = []
        if self.lo is not None:
            cs.append(t >= self.lo)
        if self.hi is not None:
            cs.append(t <= self.hi)
        return cs

    def family(self, name, ctx, psorts):
        f = _uf(ctx, name, psorts, z3.IntSort())
        ps = [z3.Const(f"p{i}", s) for i, s in enumerate(psorts)]
        cs = self.constrain(f(ps))
        if cs:
            ctx.assume(_forall(ps, z3.And(*cs)))
        return lambda p: VInt(f(p), self.np)

    def decode(self, model, value):
        return {"t": "int", "v": mval(model, value.term).as_long()}


class RealT(T):
    def __init__(self, lo=None, hi=None, np=False, integral=False):
        self.lo, self.hi, self.np, self.integral = lo, hi, np, integral

    def sort(self):
        return z3.RealSort()

    def wrap(self, term):
        return VReal(term, self.np)

    def family(self, name, ctx, psorts):
        if self.integral:       # a float holding an integer value: ToReal of an integer symbol
            g = _uf(ctx, name, psorts, z3.IntSort())
            f = lambda p: z3.ToReal(g(p))
        else:
            f = _uf(ctx, name, psorts, z3.RealSort())
        ps = [z3.Const(f"p{i}", s) for i, s in enumerate(psorts)]
        cs = []
        if self.lo is not None:
            cs.append(f(ps) >= self.lo)
        if self.hi is not None:
            cs.append(f(ps) <= self.hi)
        if cs:
            ctx.assume(_forall(ps, z3.And(*cs)))
        return lambda p: VReal(f(p), self.np)

    def decode(self, model, value):
        v = mval(model, value.term)
        if z3.is_rational_value(v):
            return {"t": "frac", "n": v.numerator_as_long(), "d": v.denominator_as_long()}
        return {"t": "float", "v": float(v.approx(12).as_fraction())}


class BoolT(T):
    def sort(self):
        return z3.BoolSort()

    def wrap(self, term):
        return VBool(term)

    def family(self, name, ctx, psorts):
        f = _uf(ctx, name, psorts, z3.BoolSort())
        return lambda p: VBool(f(p))

    def decode(self, model, value):
        return {"t": "bool", "v": z3.is_true(mval(model, value.term))}


class StrT(T):
    def __init__(self, np=False, alphabet=None):
        self.np = np
        self.alphabet = alphabet

    def sort(self):
        return z3.StringSort()

    def wrap(self, term):
        return VStr(term, self.np)

    def family(self, name, ctx, psorts):
        f = _uf(ctx, name, psorts, z3.StringSort())
        if self.alphabet is not None:
            ps = [z3.Const(f"p{i}", s) for i, s in enumerate(psorts)]
            k = z3.Int("k!a")
            ctx.assume(z3.ForAll(ps + [k], z3.Implies(z3.And(k >= 0, k < z3.Length(f(ps))),
                       z3.Contains(z3.StringVal(self.alphabet), z3.SubString(f(ps), k, 1)))))
        return lambda p: VStr(f(p), self.np)

    def decode(self, model, value):
        return {"t": "str", "v": mval(model, value.term).as_string(), "np": self.np}


class NoneT(T):
    def family(self, name, ctx, psorts):
        return lambda p: NONE

    def decode(self, model, value):
        return {"t": "none"}


class ConstT(T):
    def __init__(self, pyval):
        self.pyval = pyval

    def family(self, name, ctx, psorts):
        return lambda p: const_value(self.pyval)

    def decode(self, model, value):
        v = self.pyval
        if isinstance(v, float) and v == float("inf"):
            return {"t": "inf"}
        if isinstance(v, dict):
            return {"t": "dict", "items": {k: {"t": "const", "v": x} for k, x in v.items()}}
        return {"t": "const", "v": v}


class OneOf(T):
    def __init__(self, *alts):
        self.alts = alts

    def expand(self):
        out = []
        for a in self.alts:
            out.extend(a.expand())
        return out


def Opt(t):
    return OneOf(NoneT(), t)


class TupleT(T):
    def __init__(self, *elems):
        self.elems = elems

    def expand(self):
        import itertools
        return [TupleT(*c) for c in itertools.product(*[e.expand() for e in self.elems])]

    def family(self, name, ctx, psorts):
        fs = [e.family(f"{name}_{i}", ctx, psorts) for i, e in enumerate(self.elems)]
        return lambda p: VTuple([f(p) for f in fs])

    def decode(self, model, value):
        return {"t": "tuple", "items": [e.decode(model, v) for e, v in zip(self.elems, value.items)]}


class SeqT(T):
    """Sequence container with symbolic length.  kind: list | tuple | ndarray | generator."""

    def __init__(self, elem, kind="list", min_len=0, distinct=False, increasing=False, **kw):
        self.elem, self.kind, self.min_len = elem, kind, min_len
        self.distinct = distinct
        self.increasing = increasing

    def family(self, name, ctx, psorts):
        ln = _uf(ctx, name + "_len", psorts, z3.IntSort())
        ps = [z3.Const(f"p{i}", s) for i, s in enumerate(psorts)]
        ctx.assume(_forall(ps, ln(ps) >= self.min_len))
        elem = self.elem
        if self.kind == "ndarray" and isinstance(elem, (IntT, RealT, StrT)) and not elem.np:
            elem = type(elem)(**{**elem.__dict__, "np": True})
        at = elem.family(name + "_at", ctx, list(psorts) + [z3.IntSort()])
        i, j = z3.Int("i!s"), z3.Int("j!s")
        if self.distinct or self.increasing:
            a, b = at(ps + [i]), at(ps + [j])
            if self.increasing:
                rel = a.term < b.term
            else:
                rel = a.term != b.term
            ctx.assume(z3.ForAll(ps + [i, j], z3.Implies(z3.And(0 <= i, i < j, j < ln(ps)), rel)))
        kind = self.kind

        def make(p):
            v = VList(SymSeq(ln(p), lambda k, p=p: at(list(p) + [k]), elem), kind)
            v.labels = None
            if not p:
                v.sid = name
            return v
        return make

    def decode(self, model, value):
        c = value.content
        n = mval(model, c.length).as_long() if not isinstance(c, ConcreteSeq) else len(c.items)
        n = max(0, min(n, 48))
        items = []
        for k in range(n):
            v = c.at(z3.IntVal(k)) if not isinstance(c, ConcreteSeq) else c.items[k]
            items.append(self.elem.decode(model, v))
        return {"t": "seq", "kind": self.kind, "items": items}


class SeriesT(SeqT):
    """pandas Series with integer index labels: index='default' (RangeIndex) or 'int' (arbitrary
    pairwise distinct integer labels)."""

    def __init__(self, elem, index="default", min_len=0):
        super().__init__(elem, "Series", min_len)
        self.index = index

    def family(self, name, ctx, psorts):
        base = super().family(name, ctx, psorts)
        if psorts:
            raise Unsupported("Series family")
        v = base([])
        if self.index != "default":
            lab = ctx.fresh_fun(name + "_label", z3.IntSort(), z3.IntSort())
            i, j = z3.Int("i!s"), z3.Int("j!s")
            n = v.content.length
            ctx.assume(z3.ForAll([i, j], z3.Implies(z3.And(0 <= i, i < j, j < n), lab(i) != lab(j))))
            v.labels = lab
        return lambda p: v

    def decode(self, model, value):
        r = super().decode(model, value)
        n = len(r["items"])
        r["index"] = None if value.labels is None else \
            [mval(model, value.labels(z3.IntVal(k))).as_long() for k in range(n)]
        return r


class SetT(T):
    def __init__(self, elem):
        self.elem = elem

    def family(self, name, ctx, psorts):
        es = self.elem.sort()
        f = ctx.fresh_fun(name + "_mem", *(list(psorts) + [es, z3.BoolSort()]))
        elem = self.elem

        def make(p):
            s = VSet(pred=lambda x, p=p: f(*(list(p) + [x.term])))
            s.elem_kind = elem
            s.memfun = f
            if not p:
                # also available as a z3 set term (for cardinalities and set algebra)
                zs = ctx.fresh(name + "_set", z3.SetSort(es))
                x = z3.Const("x!set", es)
                ctx.assume(z3.ForAll([x], z3.IsMember(x, zs) == f(x), patterns=[z3.IsMember(x, zs), f(x)]))
                s.zset = zs
            return s
        return make

    def decode(self, model, value):
        return {"t": "opaque", "tag": "set"}


class DictT(T):
    def __init__(self, key, val):
        self.key, self.val = key, val

    def family(self, name, ctx, psorts):
        ks = self.key.sort()
        dom = ctx.fresh_fun(name + "_dom", *(list(psorts) + [ks, z3.BoolSort()]))
        get = self.val.family(name + "_val", ctx, list(psorts) + [ks])
        key, val = self.key, self.val

        def make(p):
            return VDict(dom=lambda k, p=p: dom(*(list(p) + [k.term])),
                         get=lambda k, p=p: get(list(p) + [k.term]), key_kind=key, val_kind=val)
        return make

    def decode(self, model, value):
        return {"t": "opaque", "tag": "dict"}


class ObjT(T):
    """Opaque library object (DataFrame, ndarray of unknown content, Metric instance ...)."""

    def __init__(self, tag, **attrs):
        self.tag = tag
        self.attrs = attrs

    def sort(self):
        return OBJ

    def wrap(self, term):
        return VObj(self.tag, term)

    def family(self, name, ctx, psorts):
        f = _uf(ctx, name, psorts, OBJ)
        return lambda p: VObj(self.tag, f(p), origin=name)

    def decode(self, model, value):
        return {"t": "opaque", "tag": self.tag}


class InstT(T):
    """instance of a repository class (self): a fresh object with no attributes (for __init__) or with the
    attributes declared by the contract's field(...) clauses"""

    def __init__(self, cls, **fields):
        self.cls = cls
        self.fields = fields

    def family(self, name, ctx, psorts):
        def make(p):
            o = VObj(self.cls, attrs={"__repo_instance__": True})
            for f, t in self.fields.items():
                o.attrs[f] = t.fresh(f"{name}_{f}", ctx)
            return o
        return make

    def decode(self, model, value):
        return {"t": "opaque", "tag": self.cls}


class SameAs(T):
    """the parameter is THE SAME OBJECT as another parameter (aliasing case)"""

    def __init__(self, other):
        self.other = other

    def family(self, name, ctx, psorts):
        raise Unsupported("SameAs is resolved by the verifier")

    def decode(self, model, value):
        return {"t": "alias", "of": self.other}


class KwargsT(T):
    """a **kwargs dict with the given (concrete) keys and symbolic values"""

    def __init__(self, **fields):
        self.fields = fields

    def family(self, name, ctx, psorts):
        def make(p):
            return VDict(items=[[VStr(k), t.fresh(f"{name}_{k}", ctx)] for k, t in self.fields.items()])
        return make

    def decode(self, model, value):
        return {"t": "dict", "items": {concrete_str(k): self.fields[concrete_str(k)].decode(model, v) for k, v in value.items}}


class FnT(T):
    """Uninterpreted callable parameter."""

    def __init__(self, *arg_types, returns=None, symmetric=False, zero_diag=False, nonneg=False, kw=None):
        self.kw = dict(kw or {})
        self.arg_types = arg_types
        self.returns = returns
        self.symmetric = symmetric
        self.zero_diag = zero_diag
        self.nonneg = nonneg

    def family(self, name, ctx, psorts):
        sorts = [a.sort() for a in self.arg_types] + [t.sort() for t in self.kw.values()]
        f = ctx.fresh_fun(name, *(sorts + [self.returns.sort()]))
        xs = [z3.Const(f"x{i}!f", s) for i, s in enumerate(sorts)]
        if self.symmetric:
            ctx.assume(z3.ForAll(xs, f(*xs) == f(*([xs[1], xs[0]] + xs[2:]))))
        if self.zero_diag:
            ctx.assume(z3.ForAll([xs[0]] + xs[2:], f(*([xs[0], xs[0]] + xs[2:])) == 0))
        if self.nonneg:
            ctx.assume(z3.ForAll(xs, f(*xs) >= 0))
        fv = VFunc("uf", name, data={"type": self, "fun": f})
        return lambda p: fv

    def decode(self, model, value):
        return {"t": "callable", "name": value.name}


# shorthands for side-car files
Int = IntT()
Nat = IntT(lo=0)
Pos = IntT(lo=1)
Real = RealT()
Str = StrT()
Bool = BoolT()
NoneType = NoneT()


def Inst(cls, **fields):
    return InstT(cls, **fields)


def Const(v):
    return ConstT(v)


def Obj(tag, **kw):
    return ObjT(tag, **kw)


def Seq(elem, kind="list", **kw):
    return SeqT(elem, kind, **kw)


NAMESPACE = {k: v for k, v in globals().items() if not k.startswith("_") and k not in ("z3",)}


class ListT(TupleT):
    """a Python list of fixed length with individually typed elements (a mutable object of the caller)"""

    def expand(self):
        import itertools
        return [ListT(*c) for c in itertools.product(*[e.expand() for e in self.elems])]

    def family(self, name, ctx, psorts):
        fs = [e.family(f"{name}_{i}", ctx, psorts) for i, e in enumerate(self.elems)]
        return lambda p: VList(ConcreteSeq([f(p) for f in fs]), "list")

    def decode(self, model, value):
        return {"t": "seq", "kind": "list", "items": [e.decode(model, v) for e, v in zip(self.elems, value.content.items)]}


NAMESPACE.update(ListT=ListT)


class NeighborhoodT(T):
    """a callable  str -> iterable of str  (a neighbourhood generator such as hamming_neighbors): abstracted to the SET of strings
    it yields for each argument (an uninterpreted function String -> Set(String)); multiplicities and order are not modelled"""

    def family(self, name, ctx, psorts):
        ssort = z3.SetSort(z3.StringSort())
        f = ctx.fresh_fun(name, z3.StringSort(), ssort)

        def call(interp, args, kwargs, node):
            if len(args) != 1 or kwargs or not isinstance(args[0], VStr):
                raise Unsupported("neighbourhood callable: argument form")
            zs = f(args[0].term)
            r = VSet(pred=lambda y: z3.IsMember(y.term, zs))
            r.zset = zs
            r.elem_kind = StrT()
            return r
        fv = VFunc("pyfn", name, data=call)
        fv.relfun = f
        return lambda p: fv

    def decode(self, model, value):
        return {"t": "callable", "name": value.name}


NAMESPACE.update(NeighborhoodT=NeighborhoodT)
