"""Assumed contracts: pandas (DESIGN section 4) and the abstract 'collection of hashable elements'
used by the set-overlap statistics."""
import z3
from .values import *
from . import externs as E
from . import types as T
from .externs import extern, method, raise_py

ELEM = z3.DeclareSort("Elem")
ELEMSET = z3.SetSort(ELEM)
isna_f = z3.Function("isna", ELEM, z3.BoolSort())
dropna_f = z3.Function("dropna", ELEMSET, ELEMSET)


class ElemT(T.T):
    def sort(self):
        return ELEM

    def wrap(self, term):
        return VObj("elem", term)

    def family(self, name, ctx, psorts):
        f = T._uf(ctx, name, psorts, ELEM)
        return lambda p: VObj("elem", f(p))

    def decode(self, model, value):
        return {"t": "opaque", "tag": "elem"}


class VColl(Value):
    """A collection (list / set / pandas Series) of hashable elements, abstracted to its element
    set; missing values are the elements satisfying isna."""

    def __init__(self, kind, zset):
        self.kind, self.zset = kind, zset

    def py_type(self):
        return {"list": "list", "set": "set", "Series": "pandas.Series", "tuple": "tuple"}[self.kind]


class CollT(T.T):
    def __init__(self, kind):
        self.kind = kind

    def family(self, name, ctx, psorts):
        c = ctx.fresh(name + "_elems", ELEMSET)
        return lambda p: VColl(self.kind, c)

    def decode(self, model, value):
        uni = model.get_universe(ELEM) or []
        items = []
        for i, u in enumerate(uni):
            if z3.is_true(model.eval(z3.IsMember(u, value.zset), model_completion=True)):
                na = z3.is_true(model.eval(isna_f(u), model_completion=True))
                items.append({"t": "nan"} if na else {"t": "int", "v": i})
        return {"t": "seq", "kind": self.kind, "items": items, "index": None}


T.NAMESPACE.update(CollT=CollT, ElemT=ElemT)


def _dropna_axiom(ctx):
    if "dropna" in ctx.axioms_added:
        return
    ctx.axioms_added.add("dropna")
    s = z3.Const("s!d", ELEMSET)
    e = z3.Const("e!d", ELEM)
    ctx.assume(z3.ForAll([s, e], z3.IsMember(e, dropna_f(s)) == z3.And(z3.IsMember(e, s), z3.Not(isna_f(e))),
                         patterns=[z3.IsMember(e, dropna_f(s))]),
               "extern:pandas.Series.dropna (keeps exactly the elements that are not missing)")


def coll_set(interp, zset):
    s = VSet(pred=lambda x: z3.IsMember(x.term, zset))
    s.zset = zset
    s.elem_kind = ElemT()
    return interp.born(s)


def _set_hook(interp, opn, v, node):
    if opn == "set" and isinstance(v, VColl):
        return coll_set(interp, v.zset)
    if opn == "list" and isinstance(v, VColl):
        return VColl("list", v.zset)
    return None


E.HOOKS["unop"].append(_set_hook)


@extern("type:pandas.Series")
def series_ctor(interp, args, kwargs, node):
    v = args[0] if args else kwargs.get("data")
    if isinstance(v, VColl):
        if v.kind == "set":
            interp.ctx.assumed.add("extern:pandas.Series(set) raises TypeError ('set' type is unordered)")
            raise_py(interp, "TypeError", "'set' type is unordered", node)
        interp.ctx.assumed.add("extern:pandas.Series(list-like) holds exactly the elements of its argument")
        return VColl("Series", v.zset)
    return interp.born(E.opaque(interp, "pandas.Series", args, kwargs, "Series"))


def _coll_dropna(interp, sv, args, kwargs, node):
    _dropna_axiom(interp.ctx)
    return VColl(sv.kind, dropna_f(sv.zset))


E.METHODS[("VColl", "dropna")] = _coll_dropna


# spec vocabulary for collections ------------------------------------------------------------
from . import spec as S


@S.spec("eset")
def _eset(interp, args, kwargs, node):
    return coll_set(interp, args[0].zset)


@S.spec("dropna_set")
def _dropna_set(interp, args, kwargs, node):
    _dropna_axiom(interp.ctx)
    return coll_set(interp, dropna_f(args[0].zset))


@S.spec("card")
def _card(interp, args, kwargs, node):
    return VInt(S.card(interp, args[0]))


@S.spec("is_series")
def _is_series(interp, args, kwargs, node):
    return VBool(isinstance(args[0], VColl) and args[0].kind == "Series")


# ---- light DataFrame model: a frame with concretely named columns, each a positional sequence ----

def make_frame(interp, cols):
    f = VObj("DataFrame")
    f.cols = cols            # list of (name str, VList)
    f.sid = "frame(" + ",".join(str(getattr(c, "sid", n)) for n, c in cols) + ")"
    f.nrows = None
    return interp.born(f)


@extern("type:DataFrame")
def dataframe_ctor(interp, args, kwargs, node):
    data = kwargs.get("data", args[0] if args else None)
    columns = kwargs.get("columns")
    if isinstance(data, E.VZip) and isinstance(columns, VTuple) and len(columns.items) == len(data.its):
        interp.ctx.assumed.add("extern:pandas.DataFrame(rows, columns=names): column k holds the k-th component of every row, in order")
        names = [concrete_str(c) for c in columns.items]
        return make_frame(interp, list(zip(names, data.its)))
    return interp.born(E.opaque(interp, "pandas.DataFrame", args, kwargs, "DataFrame"))


def _frame_eq(interp, a, b, node):
    ca, cb = getattr(a, "cols", None), getattr(b, "cols", None)
    if ca is None or cb is None:
        return None
    if [n for n, _ in ca] != [n for n, _ in cb]:
        return z3.BoolVal(False)
    return z3.And(*[interp.seq_eq(x, y, node) for (_, x), (_, y) in zip(ca, cb)])


E.HOOKS["eq"].append(_frame_eq)


@S.spec("is_pair_tuple")
def _is_pair_tuple(interp, args, kwargs, node):
    v = args[0]
    return VBool(isinstance(v, VTuple) and len(v.items) == 2)


@S.spec("paired_frame")
def _paired_frame(interp, args, kwargs, node):
    v = args[0]
    return make_frame(interp, [("CDR3A", v.items[0]), ("CDR3B", v.items[1])])


@extern("warnings.warn")
def _warn(interp, args, kwargs, node):
    return NONE


# ---- symbolic tables with concretely named string columns ---------------------------------

class TableT(T.T):
    """DataFrame with the given column names; every cell is a string (a missing cell is modelled as the
    one distinct empty value '' -- the property's convention); symbolic number of rows; default index."""

    def __init__(self, cols, min_rows=0, nodot=None):
        self.cols, self.min_rows, self.nodot = list(cols), min_rows, nodot

    def family(self, name, ctx, psorts):
        n = ctx.fresh(name + "_nrows", z3.IntSort())
        ctx.assume(n >= self.min_rows)
        cols = []
        for c in self.cols:
            f = ctx.fresh_fun(f"{name}_{c}", z3.IntSort(), z3.StringSort())
            col = VList(SymSeq(n, (lambda f: lambda k: VStr(f(k)))(f), T.Str), "Series")
            col.labels = None
            col.sid = f"{name}.{c}"
            cols.append((c, col))
        fr = VObj("DataFrame")
        fr.cols = cols
        fr.sid = name
        fr.nrows = n
        return lambda p: fr

    def decode(self, model, value):
        n = max(0, min(T.mval(model, value.nrows).as_long(), 24))
        data = {}
        for c, col in value.cols:
            data[c] = [T.mval(model, col.content.at(z3.IntVal(k)).term).as_string() for k in range(n)]
        return {"t": "table", "columns": data}


T.NAMESPACE.update(TableT=TableT)


def _frame_len(interp, v, node):
    if isinstance(v, VObj) and getattr(v, "cols", None):
        return VInt(interp.seq_len(v.cols[0][1]))
    return None


E.LEN_HOOKS.append(_frame_len)


def _frame_index(interp, base, idx, node):
    cols = getattr(base, "cols", None) if isinstance(base, VObj) else None
    if cols is None:
        return None
    d = dict(cols)
    name = concrete_str(idx) if isinstance(idx, VStr) else None
    if name is not None:
        if name not in d:
            raise_py(interp, "KeyError", name, node)
        return d[name]
    names = interp.concrete_iter(idx) if isinstance(idx, (VList, VTuple)) else None
    if names is not None:
        ns = [concrete_str(x) for x in names]
        if any(n is None for n in ns):
            raise Unsupported("symbolic column name")
        for n in ns:
            if n not in d:
                raise_py(interp, "KeyError", n, node)
        fr = VObj("DataFrame")
        fr.cols = [(n, d[n]) for n in ns]
        fr.sid = f"{getattr(base, 'sid', 'df')}[{','.join(ns)}]"
        fr.nrows = getattr(base, "nrows", None)
        return interp.born(fr)
    raise Unsupported(f"DataFrame[...] with {idx!r}")


E.HOOKS["index"].append(_frame_index)


def _frame_contains(interp, container, item, node):
    cols = getattr(container, "cols", None) if isinstance(container, VObj) else None
    if cols is None:
        return None
    name = concrete_str(item)
    if name is None:
        raise Unsupported("symbolic column membership")
    return z3.BoolVal(name in dict(cols))


E.HOOKS["contains"].append(_frame_contains)


@method("DataFrame", "fillna")
def _df_fillna(interp, sv, args, kwargs, node):
    if getattr(sv, "cols", None) is None:
        return interp.born(E.opaque(interp, "DataFrame.fillna", [sv] + args, kwargs, "DataFrame"))
    if "inplace" in kwargs:
        raise Unsupported("fillna(inplace=...)")
    v = args[0] if args else kwargs.get("value")
    if concrete_str(v) != "":
        raise Unsupported("fillna with a value other than ''")
    interp.ctx.assumed.add("extern:DataFrame.fillna('') returns a NEW frame where missing cells hold '' (model: missing == '')")
    fr = VObj("DataFrame")
    fr.cols, fr.sid, fr.nrows = list(sv.cols), sv.sid, getattr(sv, "nrows", None)
    return interp.born(fr)


@method("DataFrame", "apply")
def _df_apply(interp, sv, args, kwargs, node):
    cols = getattr(sv, "cols", None)
    f = args[0] if args else kwargs.get("func")
    ax = kwargs.get("axis", args[1] if len(args) > 1 else VInt(0))
    if cols is None or concrete_int(ax) != 1:
        raise Unsupported("DataFrame.apply is modelled for axis=1 on frames with known columns")
    interp.ctx.assumed.add("extern:DataFrame.apply(f, axis=1): Series of f(row) for every row in order; a row is the Series of its cells in column order")
    n = interp.seq_len(cols[0][1])

    def at(k):
        row = VList(ConcreteSeq([c.content.at(k) for _, c in cols]), "Series")
        row.labels = None
        return interp.call(f, [row], {}, node)
    probe = at(z3.Int("k!canon"))
    ek = T.Str if isinstance(probe, VStr) else None
    r = VList(SymSeq(n, at, ek), "Series")
    r.labels = None
    r.sid = structural_sid(probe, n)
    return interp.born(r)


@method("Series", "astype")
def _series_astype(interp, sv, args, kwargs, node):
    t = args[0]
    if isinstance(t, VType) and t.name == "str" and isinstance(sv.content, ConcreteSeq) and all(isinstance(x, VStr) for x in sv.content.items):
        return sv
    raise Unsupported("Series.astype")


def structural_sid(probe, n):
    """identity of a derived sequence = its defining term at a canonical index (so the same map over the
    same data has the same identity on the code side and on the spec side)"""
    import hashlib
    t = probe.term if hasattr(probe, "term") and probe.term is not None else None
    if t is None:
        raise Unsupported("derived sequence of non-scalar elements")
    return "map:" + hashlib.sha1((z3.simplify(t).sexpr() + "|" + n.sexpr()).encode()).hexdigest()[:12]


def rowkeys(interp, fr):
    """the sequence of row tuples of a frame (spec)"""
    cols = fr.cols
    n = interp.seq_len(cols[0][1])
    r = VList(SymSeq(n, lambda k: VTuple([c.content.at(k) for _, c in cols]), None), "list")
    r.sid = f"rows[{fr.sid}]"
    return r


@S.spec("rows")
def _rows(interp, args, kwargs, node):
    fr = args[0]
    if len(args) > 1:
        fr = _frame_index(interp, fr, args[1], node)
    return rowkeys(interp, fr)


@S.spec("no_cell_contains")
def _no_cell_contains(interp, args, kwargs, node):
    fr, ch = args
    k = z3.Int("k!nc")
    n = interp.seq_len(fr.cols[0][1])
    parts = [z3.Not(z3.Contains(c.content.at(k).term, ch.term)) for _, c in fr.cols]
    return VBool(z3.ForAll([k], z3.Implies(z3.And(k >= 0, k < n), z3.And(*parts))))


@S.spec("is_table")
def _is_table(interp, args, kwargs, node):
    return VBool(isinstance(args[0], VObj) and getattr(args[0], "cols", None) is not None)


@S.spec("sample_keys")
def _sample_keys(interp, args, kwargs, node):
    """what pc counts coincidences of: the elements of a sequence, the rows of a table, the
    (alpha, beta) pairs of the legacy tuple form"""
    x = args[0]
    if isinstance(x, VObj) and getattr(x, "cols", None) is not None:
        return rowkeys(interp, x)
    if isinstance(x, VTuple) and len(x.items) == 2:
        fr = make_frame(interp, [("CDR3A", x.items[0]), ("CDR3B", x.items[1])])
        return rowkeys(interp, fr)
    return x


@S.spec("cells_ok")
def _cells_ok(interp, args, kwargs, node):
    """the property's precondition on tables: no cell text contains the join character"""
    x, ch = args
    if isinstance(x, VObj) and getattr(x, "cols", None) is not None:
        return _no_cell_contains(interp, [x, ch], {}, node)
    if isinstance(x, VTuple) and len(x.items) == 2:
        fr = make_frame(interp, [("CDR3A", x.items[0]), ("CDR3B", x.items[1])])
        return VBool(z3.And(_no_cell_contains(interp, [fr, ch], {}, node).term,
                            interp.seq_len(x.items[0]) == interp.seq_len(x.items[1])))
    return VBool(True)


@S.spec("columns")
def _columns(interp, args, kwargs, node):
    return VList(ConcreteSeq([VStr(n) for n, _ in args[0].cols]))


@S.spec("all_in")
def _all_in(interp, args, kwargs, node):
    xs = interp.iter_concrete(args[0])
    return VBool(z3.And(*[interp.contains(args[1], x) for x in xs]))


@S.spec("joined_rows")
def _joined_rows(interp, args, kwargs, node):
    """row-wise serialisation sep.join(cells) of a table / legacy pair; other samples are returned unchanged"""
    x, sep = args[0], args[1]
    if isinstance(x, VTuple) and len(x.items) == 2:
        x = make_frame(interp, [("CDR3A", x.items[0]), ("CDR3B", x.items[1])])
    if not (isinstance(x, VObj) and getattr(x, "cols", None) is not None):
        return x
    if len(args) > 2:
        x = _frame_index(interp, x, args[2], node)
    cols = x.cols
    n = interp.seq_len(cols[0][1])

    def at(k):
        row = VList(ConcreteSeq([c.content.at(k) for _, c in cols]), "Series")
        return E.METHODS[("str", "join")](interp, sep, [row], {}, node)
    r = VList(SymSeq(n, at, T.Str), "Series")
    r.labels = None
    r.sid = structural_sid(at(z3.Int("k!canon")), n)
    return r


@S.spec("comparable")
def _comparable(interp, args, kwargs, node):
    """two samples whose elements can coincide: both tables of the same width, or both plain sequences"""
    a, b = args

    def width(x):
        if isinstance(x, VObj) and getattr(x, "cols", None) is not None:
            return len(x.cols)
        if isinstance(x, VTuple) and len(x.items) == 2:
            return 2
        return 0
    if isinstance(b, VNone) or isinstance(a, VNone):
        return VBool(True)
    if width(a) != width(b):
        return VBool(False)
    if width(a) == 0:
        ka = type(a.content.elem_kind).__name__ if isinstance(a, VList) and isinstance(a.content, SymSeq) else None
        kb = type(b.content.elem_kind).__name__ if isinstance(b, VList) and isinstance(b.content, SymSeq) else None
        return VBool(ka == kb)
    return VBool(True)


def _series_getitem(interp, base, idx, node):
    """pandas: Series.__getitem__(int) is LABEL based for an integer index (pandas >= 2: no positional fallback)"""
    if not (isinstance(base, VList) and base.kind == "Series" and isinstance(idx, (VInt,)) and isinstance(base.content, SymSeq)):
        return None
    lab = getattr(base, "labels", None)
    ctx = interp.ctx
    n = base.content.length
    i = idx.term
    ctx.assumed.add("extern:pandas.Series.__getitem__(int) looks the integer up among the index LABELS (KeyError if absent)")
    if lab is None:
        if interp.spec_mode:
            return base.content.at(i)
        if not ctx.decide(z3.And(i >= 0, i < n), getattr(node, "lineno", "")):
            raise_py(interp, "KeyError", "label", node)
        return base.content.at(i)
    if interp.spec_mode:
        # contracts speak about positions: seqs[i] in a clause means the element at POSITION i
        return base.content.at(i)
    p = ctx.fresh("labelpos", z3.IntSort())
    q = z3.Int("q!lp")
    found = z3.And(p >= 0, p < n, lab(p) == i)
    absent = z3.ForAll([q], z3.Implies(z3.And(q >= 0, q < n), lab(q) != i))
    c = ctx.choose([found, absent], getattr(node, "lineno", ""))
    if c == 1:
        raise_py(interp, "KeyError", "label", node)
    return base.content.at(p)


E.HOOKS["index"].insert(0, _series_getitem)


@method("DataFrame", "sample")
def _df_sample(interp, sv, args, kwargs, node):
    """DataFrame.sample(n=m): m rows at pairwise distinct positions (requires m <= len)"""
    cols = getattr(sv, "cols", None)
    n = kwargs.get("n", args[0] if args else None)
    if cols is None or n is None:
        return interp.born(E.opaque(interp, "DataFrame.sample", [sv] + list(args), kwargs, "DataFrame"))
    ctx = interp.ctx
    m = to_int(n)
    nrows = interp.seq_len(cols[0][1])
    if not interp.spec_mode and not ctx.decide(z3.And(m >= 0, m <= nrows), getattr(node, "lineno", "")):
        raise_py(interp, "ValueError", "Cannot take a larger sample than population when 'replace=False'", node)
    idx = ctx.fresh_fun("sample_idx", z3.IntSort(), z3.IntSort())
    i, j = z3.Int("i!sm"), z3.Int("j!sm")
    ctx.assume(z3.ForAll([i], z3.Implies(z3.And(0 <= i, i < m), z3.And(idx(i) >= 0, idx(i) < nrows))),
               "extern:DataFrame.sample(n) returns n rows of the frame at pairwise distinct positions")
    ctx.assume(z3.ForAll([i, j], z3.Implies(z3.And(0 <= i, i < j, j < m), idx(i) != idx(j))))
    fr = VObj("DataFrame")
    newcols = []
    for name, c in cols:
        col = VList(SymSeq(m, (lambda c: lambda k: c.content.at(idx(k)))(c), T.Str), "Series")
        col.labels = None
        col.sid = f"sample({c.sid})"
        newcols.append((name, col))
    fr.cols, fr.sid, fr.nrows = newcols, f"sample({sv.sid})", m
    fr.sub_of, fr.sub_idx = sv, idx
    return interp.born(fr)


@S.spec("is_subsample")
def _is_subsample(interp, args, kwargs, node):
    """x consists of m elements (rows) of src taken at pairwise distinct positions"""
    x, src, m = args
    return VBool(z3.And(z3.BoolVal(getattr(x, "sub_of", None) is src and not getattr(x, "with_replacement", False)),
                        (interp.seq_len(x) if isinstance(x, VList) else interp.seq_len(x.cols[0][1])) == to_int(m)))


@S.spec("random_subsample")
def _random_subsample(interp, args, kwargs, node):
    """m elements (rows) of src at pairwise distinct, otherwise arbitrary positions"""
    src, m = args
    if isinstance(src, VObj) and getattr(src, "cols", None) is not None:
        return _df_sample(interp, src, [], {"n": m}, node)
    from .ext_numpy import np_random_choice
    return np_random_choice(interp, [src, m], {"replace": VBool(False)}, node)


# ---- shipped data files: read at verification time from the repository (finite ground data, checked exhaustively) ----
import csv as _csv
import os as _os


@extern("os.path.dirname")
def _dirname(interp, args, kwargs, node):
    s = concrete_str(args[0])
    if s is None:
        raise Unsupported("os.path.dirname of a symbolic path")
    return VStr(_os.path.dirname(s))


@extern("os.path.join")
def _join(interp, args, kwargs, node):
    parts = [concrete_str(a) for a in args]
    if any(p is None for p in parts):
        raise Unsupported("os.path.join of symbolic parts")
    return VStr(_os.path.join(*parts))


@extern("pandas.read_csv")
def _read_csv(interp, args, kwargs, node):
    path = concrete_str(args[0])
    ic = kwargs.get("index_col")
    if path is None or not _os.path.isfile(path) or concrete_int(ic) != 0:
        return interp.born(E.opaque(interp, "pandas.read_csv", args, kwargs, "DataFrame"))
    with open(path, newline="") as f:
        rows = list(_csv.reader(f))
    header, body = rows[0], rows[1:]
    interp.ctx.assumed.add(f"extern:pandas.read_csv(<shipped file>, index_col=0) parses {_os.path.basename(path)} as written "
                           "(first column = index; integer-looking labels become ints)")

    def lab(x):
        try:
            return VInt(int(x))
        except ValueError:
            return VStr(x)
    fr = VObj("DataFrame", z3.Const(f"csv:{_os.path.basename(path)}", OBJ))
    fr.index_list = VList(ConcreteSeq([lab(r[0]) for r in body]))
    fr.index_list.index_of = f"index:{_os.path.basename(path)}"
    fr.columns_list = [h for h in header[1:]]
    fr.nrows_concrete = len(body)
    fr.body = body
    return fr


def _csv_getattr(interp, base, attr, node):
    if isinstance(base, VObj) and hasattr(base, "index_list"):
        if attr == "index":
            return base.index_list
    return None


E.HOOKS["getattr"].append(_csv_getattr)


def _csv_len(interp, v, node):
    if isinstance(v, VObj) and hasattr(v, "nrows_concrete"):
        return VInt(v.nrows_concrete)
    return None


E.LEN_HOOKS.append(_csv_len)


@S.spec("consecutive_from_zero")
def _consecutive_from_zero(interp, args, kwargs, node):
    items = interp.iter_concrete(args[0])
    return VBool(z3.And(*[interp.veq(x, VInt(i)) for i, x in enumerate(items)]) if items else z3.BoolVal(True))


@S.spec("is_shipped_table")
def _is_shipped_table(interp, args, kwargs, node):
    v, name = args
    return VBool(isinstance(v, VObj) and v.term is not None and str(v.term) == f"csv:{concrete_str(name)}")


# ---- frames with named columns: copy / rename / columns / column assignment / Series.map ---------------------------------
# (C18 standardize_dataframe).  Cells are strings; a MISSING cell (None / NaN) is modelled as the distinguished value ''.

def _new_frame(interp, src, cols):
    fr = VObj("DataFrame")
    fr.cols = list(cols)
    fr.sid = getattr(src, "sid", "df")
    fr.nrows = getattr(src, "nrows", None)
    fr.index_id = getattr(src, "index_id", getattr(src, "sid", "df"))      # row labels are carried along
    return interp.born(fr)


@method("DataFrame", "copy")
def _df_copy(interp, sv, args, kwargs, node):
    if getattr(sv, "cols", None) is None:
        return interp.born(E.opaque(interp, "DataFrame.copy", [sv] + args, kwargs, "DataFrame"))
    if "deep" in kwargs:
        raise Unsupported("DataFrame.copy(deep=...)")
    interp.ctx.assumed.add("extern:DataFrame.copy() returns a NEW frame with the same index, columns and cells")
    return _new_frame(interp, sv, sv.cols)


@method("DataFrame", "rename")
def _df_rename(interp, sv, args, kwargs, node):
    mapper = kwargs.get("columns")
    if getattr(sv, "cols", None) is None or mapper is None or args or set(kwargs) - {"columns"}:
        raise Unsupported("DataFrame.rename is modelled for rename(columns=mapping) on frames with known columns")
    if not (isinstance(mapper, VDict) and mapper.items is not None):
        raise Unsupported("rename(columns=<symbolic mapping>)")
    m = {}
    for k, v in mapper.items:
        ks, vs = concrete_str(k), concrete_str(v)
        if ks is None or vs is None:
            raise Unsupported("rename(columns=...) with symbolic names")
        m[ks] = vs
    interp.ctx.assumed.add("extern:DataFrame.rename(columns=m) returns a NEW frame whose column c is called m.get(c, c); cells, order and index unchanged")
    return _new_frame(interp, sv, [(m.get(n, n), c) for n, c in sv.cols])


def _frame_columns_attr(interp, base, attr, node):
    if isinstance(base, VObj) and getattr(base, "cols", None) is not None and attr == "columns":
        return VList(ConcreteSeq([VStr(n) for n, _ in base.cols]), "Index")
    return None


E.HOOKS["getattr"].insert(0, _frame_columns_attr)


def _frame_setitem(interp, base, idx, v, node):
    if isinstance(base, VObj) and getattr(base, "cols", None) is not None and isinstance(idx, VStr):
        name = concrete_str(idx)
        if name is None:
            raise Unsupported("frame[<symbolic name>] = ...")
        if not (isinstance(v, VList) and isinstance(v.content, SymSeq)):
            raise Unsupported("frame[name] = <not a column>")
        interp.check_mutable_target(base, node, f"[{name!r}] =")
        names = [n for n, _ in base.cols]
        if name in names:
            base.cols[names.index(name)] = (name, v)
        else:
            base.cols.append((name, v))
        return True
    return None


E.HOOKS["setitem"].insert(0, _frame_setitem)


@method("Series", "map")
def _series_map(interp, sv, args, kwargs, node):
    """Series.map(f): the Series of f(cell) for every cell in order, same index.  f is evaluated ONCE on an arbitrary cell (all its
    paths), the result is the point-wise definition; a result None (missing) is the distinguished string ''."""
    f = args[0] if args else kwargs.get("arg")
    if not (isinstance(sv.content, SymSeq) and isinstance(f, VFunc)) or set(kwargs) - {"arg"}:
        raise Unsupported("Series.map argument form")
    ctx = interp.ctx
    interp.ctx.assumed.add("extern:Series.map(f) applies f to every cell independently, keeping order and index")
    from .ctx import explore_sub
    x = ctx.fresh("cell", z3.StringSort())
    outs = explore_sub(ctx, lambda: interp.call(f, [VStr(x)], {}, node))
    if not outs:
        raise Unsupported("Series.map: the mapped function has no returning path")
    branches = []
    for delta, _obl, res in outs:
        cond = z3.And(*[t for t, lab in delta if lab is None]) if any(lab is None for _, lab in delta) else z3.BoolVal(True)
        if isinstance(res, VNone):
            val = z3.StringVal("")
        elif isinstance(res, VStr):
            val = res.term
        else:
            raise Unsupported(f"Series.map: mapped function returns {res!r}")
        branches.append((cond, val))
    term = branches[-1][1]
    for cond, val in reversed(branches[:-1]):
        term = z3.If(cond, val, term)
    r = VList(SymSeq(sv.content.length, lambda k: VStr(z3.substitute(term, (x, sv.content.at(k).term))), T.Str), "Series")
    r.labels = getattr(sv, "labels", None)
    r.sid = structural_sid(VStr(z3.substitute(term, (x, sv.content.at(z3.Int("k!canon")).term))), sv.content.length)
    return interp.born(r)


@extern("pandas.isna")
def _pd_isna(interp, args, kwargs, node):
    v = args[0]
    if isinstance(v, VStr):
        interp.ctx.assumed.add("model: a missing table cell (None / NaN) is the distinguished string ''; pandas.isna(cell) <=> cell == ''")
        return VBool(v.term == z3.StringVal(""))
    if isinstance(v, (VNone, VNan)):
        return VBool(True)
    if isinstance(v, (VInt, VReal, VBool)):
        return VBool(False)
    raise Unsupported(f"pandas.isna of {v!r}")


# tidytcells: uninterpreted pure functions of the cell and of the options that can change the result
def _tt(name, *specs):
    sorts = [z3.StringSort()] + [s for _, s in specs]
    f = z3.Function(name, *(sorts + [z3.StringSort()]))

    def h(interp, args, kwargs, node):
        if args:
            raise Unsupported(f"{name}: positional arguments")
        first = kwargs.get("seq") if "seq" in kwargs else kwargs.get("gene")
        if not isinstance(first, VStr):
            raise Unsupported(f"{name}: cell argument")
        ts = [first.term]
        for kw, so in specs:
            v = kwargs.get(kw)
            if v is None:
                raise Unsupported(f"{name}: option {kw} not passed (its default is not modelled)")
            ts.append(interp.as_bool_term(v) if so == z3.BoolSort() else v.term)
        kwargs.get("suppress_warnings")        # looked at: does not change the result
        if name == "tt.aa.standardize":
            of = kwargs.get("on_fail")
            if of is None or concrete_str(of) != "keep":
                raise Unsupported("tt.aa.standardize: only on_fail='keep' is modelled")
        interp.ctx.assumed.add(f"extern:{name} is a deterministic function of the cell and its options (None on failure = missing = '')")
        return VStr(f(*ts))
    return h, f


_TT = {}
for _nm, _ext, _specs in (
        ("tt.junction.standardize", "tidytcells.junction.standardize", [("strict", z3.BoolSort())]),
        ("tt.tr.standardize", "tidytcells.tr.standardize", [("species", z3.StringSort()), ("enforce_functional", z3.BoolSort()), ("precision", z3.StringSort())]),
        ("tt.mh.standardize", "tidytcells.mh.standardize", [("species", z3.StringSort()), ("precision", z3.StringSort())]),
        ("tt.aa.standardize", "tidytcells.aa.standardize", [])):
    _h, _f = _tt(_nm, *_specs)
    E.EXTERNS[_ext] = _h
    _TT[_nm] = _f


def _tt_spec(name):
    def sp(interp, args, kwargs, node):
        f = _TT[name]
        ts = []
        for i, a in enumerate(args):
            ts.append(interp.as_bool_term(a) if f.domain(i) == z3.BoolSort() else a.term)
        return VStr(f(*ts))
    return sp


S.SPEC["tt_junction"] = _tt_spec("tt.junction.standardize")      # tt_junction(cell, strict)
S.SPEC["tt_tr"] = _tt_spec("tt.tr.standardize")                  # tt_tr(cell, species, enforce_functional, precision)
S.SPEC["tt_mh"] = _tt_spec("tt.mh.standardize")                  # tt_mh(cell, species, precision)
S.SPEC["tt_aa_keep"] = _tt_spec("tt.aa.standardize")             # tt_aa_keep(cell)


@S.spec("table_cell")
def _cell_spec(interp, args, kwargs, node):
    """table_cell(table, column name, i): the cell as a string ('' = missing)"""
    t, c, i = args
    return dict(t.cols)[concrete_str(c)].content.at(to_int(i))


@S.spec("column_names")
def _column_names(interp, args, kwargs, node):
    return VList(ConcreteSeq([VStr(n) for n, _ in args[0].cols]))


@S.spec("same_index")
def _same_index(interp, args, kwargs, node):
    a, b = args
    return VBool(getattr(a, "index_id", getattr(a, "sid", 1)) == getattr(b, "index_id", getattr(b, "sid", 2)))


# ---- pandas.merge / functools.reduce (C18 multimerge) ---------------------------------------------------------------
_MERGE_SIG = ["left", "right", "how", "on", "left_on", "right_on", "left_index", "right_index", "sort", "suffixes", "copy", "indicator", "validate"]
_MERGE_DEFAULTS = {"how": VStr("inner"), "on": NONE, "left_index": VBool(False), "right_index": VBool(False)}


@extern("pandas.merge")
def _pd_merge(interp, args, kwargs, node):
    """pandas.merge(left, right, how='inner', on=None, left_on=None, right_on=None, left_index=False, right_index=False, ...):
    arguments are bound like Python binds them against this signature (a keyword that repeats a positional argument is a
    TypeError); the result is an opaque deterministic function of (left, right, how, on, left_index, right_index)."""
    bound = {}
    if len(args) > len(_MERGE_SIG):
        raise_py(interp, "TypeError", "merge() takes at most 13 positional arguments", node)
    for name, a in zip(_MERGE_SIG, args):
        bound[name] = a
    for k in list(kwargs.keys()):
        if k not in _MERGE_SIG:
            raise_py(interp, "TypeError", f"merge() got an unexpected keyword argument '{k}'", node)
        if k in bound:
            raise_py(interp, "TypeError", f"merge() got multiple values for argument '{k}'", node)
        bound[k] = kwargs[k]
    if "left" not in bound or "right" not in bound:
        raise_py(interp, "TypeError", "merge() missing required positional arguments", node)
    extra = set(bound) - {"left", "right", "how", "on", "left_index", "right_index"}
    if extra:
        raise Unsupported(f"pandas.merge options {sorted(extra)} are not modelled")
    full = {k: bound.get(k, _MERGE_DEFAULTS.get(k)) for k in ("how", "on", "left_index", "right_index")}
    return interp.born(E.opaque(interp, "pandas.merge", [bound["left"], bound["right"]], full, "DataFrame"))


@extern("functools.reduce")
def _reduce(interp, args, kwargs, node):
    f, seq_ = args[0], args[1]
    items = interp.concrete_iter(seq_) if isinstance(seq_, (VList, VTuple)) else None
    if items is None or len(args) > 2 or kwargs:
        raise Unsupported("functools.reduce over a sequence of symbolic length / with an initial value")
    items = list(items)
    if not items:
        raise_py(interp, "TypeError", "reduce() of empty iterable with no initial value", node)
    acc = items[0]
    for x in items[1:]:
        acc = interp.call(f, [acc, x], {}, node)
    return acc


S.SPEC["fold_left"] = lambda interp, args, kwargs, node: _reduce(interp, args, kwargs, node)


@method("DataFrame", "set_index")
def _df_set_index(interp, sv, args, kwargs, node):
    if getattr(sv, "cols", None) is not None or len(args) != 1 or kwargs:
        raise Unsupported("DataFrame.set_index form")
    return interp.born(E.opaque(interp, "DataFrame.set_index", [sv] + args, None, "DataFrame"))


@method("DataFrame", "add_suffix")
def _df_add_suffix(interp, sv, args, kwargs, node):
    if getattr(sv, "cols", None) is not None or len(args) != 1 or kwargs:
        raise Unsupported("DataFrame.add_suffix form")
    return interp.born(E.opaque(interp, "DataFrame.add_suffix", [sv] + args, None, "DataFrame"))


@S.spec("joinable")
def _joinable(interp, args, kwargs, node):
    """joinable(dfs, on, suffixes): the tables can be joined without a column-name clash (a fact about the caller's tables: an
    uninterpreted predicate of the opaque tables)"""
    dfs, on, suf = args
    ts = [E._arg_term(interp, x) for x in interp.concrete_iter(dfs)] + [on.term]
    f = z3.Function(f"joinable{len(ts)}", *([t.sort() for t in ts] + [z3.BoolSort()]))
    return VBool(f(*ts))


# ---- more column-wise frame operations (C09: TcrLevenshtein._expand_v_gene_cdrs) ----------------------------------------------

def _frame_col_attr(interp, base, attr, node):
    """df.NAME: the column NAME (AttributeError when there is no such column and NAME is not a DataFrame attribute)"""
    if isinstance(base, VObj) and getattr(base, "cols", None) is not None and not attr.startswith("_"):
        d = dict(base.cols)
        if attr in d:
            return d[attr]
        if attr in ("columns", "copy", "rename", "groupby", "apply", "fillna", "sample", "index", "values", "map", "iloc", "loc", "shape",
                    "set_index", "add_suffix", "filter", "isin", "value_counts", "dropna", "astype", "to_numpy", "empty", "size"):
            return None
        raise_py(interp, "AttributeError", f"'DataFrame' object has no attribute '{attr}'", node)
    return None


E.HOOKS["getattr"].append(_frame_col_attr)


def _frame_setattr(interp, base, attr, v, node):
    if isinstance(base, VObj) and getattr(base, "cols", None) is not None and attr in dict(base.cols):
        if not (isinstance(v, VList) and isinstance(v.content, SymSeq)):
            raise Unsupported("frame.NAME = <not a column>")
        interp.check_mutable_target(base, node, f".{attr} =")
        names = [n for n, _ in base.cols]
        base.cols[names.index(attr)] = (attr, v)
        if getattr(base, "nrows", None) is None:
            base.nrows = v.content.length
        return True
    return None


E.HOOKS["setattr"].append(_frame_setattr)

_df_ctor_prev = E.EXTERNS["type:DataFrame"]


def _df_ctor2(interp, args, kwargs, node):
    cols = kwargs.get("columns")
    if not args and cols is not None and set(kwargs) == {"columns"}:
        names = [concrete_str(c) for c in interp.concrete_iter(cols)]
        if all(n is not None for n in names):
            interp.ctx.assumed.add("extern:pandas.DataFrame(columns=names) is an empty frame with those columns; assigning a Series to a column "
                                   "of an empty frame gives the frame the Series' rows")
            fr = VObj("DataFrame")
            empty = lambda: VList(SymSeq(z3.IntVal(0), lambda k: VStr(""), T.Str), "Series")
            fr.cols = [(n, empty()) for n in names]
            fr.sid = "frame(" + ",".join(names) + ")"
            fr.nrows = None
            return interp.born(fr)
    return _df_ctor_prev(interp, args, kwargs, node)


E.EXTERNS["type:DataFrame"] = _df_ctor2


def _frame_setitem_multi(interp, base, idx, v, node):
    """df[[n1, n2]] = other_frame: the columns of other_frame are assigned positionally to the named columns"""
    if isinstance(base, VObj) and getattr(base, "cols", None) is not None and isinstance(idx, VList) and isinstance(idx.content, ConcreteSeq):
        names = [concrete_str(x) for x in idx.content.items]
        if any(n is None for n in names) or not (isinstance(v, VObj) and getattr(v, "cols", None) is not None and len(v.cols) == len(names)):
            raise Unsupported("frame[[...]] = <value> form")
        interp.check_mutable_target(base, node, f"[{names!r}] =")
        interp.ctx.assumed.add("extern:frame[[n1, n2]] = other (same index) assigns other's columns to n1, n2 in order")
        cur = [n for n, _ in base.cols]
        for n, (_, col) in zip(names, v.cols):
            if n in cur:
                base.cols[cur.index(n)] = (n, col)
            else:
                base.cols.append((n, col))
                cur.append(n)
        return True
    return None


E.HOOKS["setitem"].insert(0, _frame_setitem_multi)

# tidytcells.tr.get_aa_sequence(v): mapping loop name -> amino-acid sequence of the V allele (third-party reference data: uninterpreted)
_has_loop = z3.Function("v_has_loop", z3.StringSort(), z3.StringSort(), z3.BoolSort())
_loop_seq = z3.Function("v_loop_seq", z3.StringSort(), z3.StringSort(), z3.StringSort())


@extern("tidytcells.tr.get_aa_sequence")
def _tt_get_aa(interp, args, kwargs, node):
    v = args[0] if args else kwargs.get("gene")
    if not isinstance(v, VStr) or len(args) + len(kwargs) != 1:
        raise Unsupported("tr.get_aa_sequence argument form")
    interp.ctx.assumed.add("extern:tidytcells.tr.get_aa_sequence(v) is the reference data's dict of sequence regions of allele v (uninterpreted)")
    d = VDict(dom=lambda k: _has_loop(v.term, k.term), get=lambda k: VStr(_loop_seq(v.term, k.term)), key_kind=T.Str, val_kind=T.Str)
    return d


@S.spec("v_loop")
def _v_loop(interp, args, kwargs, node):
    """v_loop(v allele, n): the CDRn loop (n = 1, 2) of the allele according to the gene reference, '' when it has none"""
    v, n = args
    key = z3.StringVal(f"CDR{concrete_int(n)}-IMGT")
    return VStr(z3.If(_has_loop(v.term, key), _loop_seq(v.term, key), z3.StringVal("")))


# ---- groupby on OPAQUE frames (C13): term level.  Group k of (frame, by) is the opaque frame grp(frame, by, k); the number of groups is
# ngroups(frame, by); groupby(by).apply(f) is the Series of f(group k) in group order; groupby(by).filter(p) keeps the rows of the groups
# satisfying p (named by the structure of p evaluated on a generic group).

def _ngroups(interp, fr, by):
    n = E.opaque(interp, "ngroups", [fr, by], None, "int", rsort=z3.IntSort())
    ctx = interp.ctx
    ctx.assume(n >= 0)
    rows = E.opaque(interp, "len", [fr], None, "int", rsort=z3.IntSort())
    ctx.assume(z3.And(rows >= 0, n <= rows, (rows >= 1) == (n >= 1)), "extern:groupby: between 1 and len(frame) groups for a non-empty frame, none for an empty one")
    if True:
        col = E.opaque(interp, "getitem", [fr, by], None, "Series")
        vc = E.opaque(interp, "Series.value_counts", [col], None, "Series")
        nvc = E.opaque(interp, "len", [vc], None, "int", rsort=z3.IntSort())
        ctx.assume(nvc == n, "extern:len(frame[key].value_counts()) is the number of groups of frame.groupby(key)")
    return n


def _group(interp, fr, by, k):
    g = E.opaque(interp, "group", [fr, by, VInt(k)], None, "DataFrame")
    return g


@method("DataFrame", "groupby")
def _df_groupby(interp, sv, args, kwargs, node):
    if getattr(sv, "cols", None) is not None or len(args) != 1 or kwargs:
        raise Unsupported("groupby is modelled for opaque frames and a single positional key")
    o = VObj("GroupBy")
    o.frame, o.by = sv, args[0]
    interp.ctx.assumed.add("extern:DataFrame.groupby(by): the groups partition the rows by the key, enumerated in sorted key order")
    return o


def _generic_group_eval(interp, gb, f, node):
    """evaluate the callable f on a generic group; returns (k constant, result Value)"""
    k = z3.Int("k!grp")
    g = _group(interp, gb.frame, gb.by, k)
    return k, interp.call(f, [interp.born(g)], {}, node)


@method("GroupBy", "apply")
def _gb_apply(interp, sv, args, kwargs, node):
    f = args[0] if args else kwargs.get("func")
    if not isinstance(f, VFunc) or len(args) + len(kwargs) != 1:
        raise Unsupported("GroupBy.apply argument form")
    k, r = _generic_group_eval(interp, sv, f, node)
    m = _ngroups(interp, sv.frame, sv.by)
    interp.ctx.assumed.add("extern:GroupBy.apply(f): the Series / frame of f(group) for every group in group order")
    if isinstance(r, (VReal, VInt)):
        t = to_real(r)
        ser = VList(SymSeq(m, lambda j: VReal(z3.substitute(t, (k, j if not isinstance(j, int) else z3.IntVal(j))), True), T.RealT(np=True)), "Series")
        ser.labels = None
        import hashlib
        ser.sid = "gapply:" + hashlib.sha1((z3.simplify(t).sexpr() + "|" + z3.simplify(m).sexpr()).encode()).hexdigest()[:12]
        ser.vec_name = ser.sid
        return interp.born(ser)
    if isinstance(r, VObj) and r.term is not None:
        # f returns a Series / array per group: the stacked result is an opaque frame determined by (frame, by, f's term on a generic group)
        return interp.born(E.opaque(interp, "GroupBy.apply", [sv.frame, sv.by, VObj("object", r.term)], None, "DataFrame"))
    raise Unsupported(f"GroupBy.apply: the applied function returns {r!r}")


@method("GroupBy", "filter")
def _gb_filter(interp, sv, args, kwargs, node):
    f = args[0] if args else kwargs.get("func")
    if not isinstance(f, VFunc) or len(args) + len(kwargs) != 1:
        raise Unsupported("GroupBy.filter argument form")
    k, r = _generic_group_eval(interp, sv, f, node)
    c = interp.as_bool_term(r, node)
    interp.ctx.assumed.add("extern:GroupBy.filter(p): the frame of the rows whose group satisfies p (row order kept)")
    cond = VObj("object", z3.Function("group_predicate[" + z3.simplify(c).sexpr().replace(" ", "_")[:200] + "]", z3.IntSort(), OBJ)(k))
    out = E.opaque(interp, "GroupBy.filter", [sv.frame, sv.by, cond], None, "DataFrame")
    return interp.born(out)


@S.spec("groups_where")
def _groups_where(interp, args, kwargs, node):
    """groups_where(df, by, lambda g: p(g)): the rows of df whose group (by the key) satisfies p"""
    df, by, f = args
    gb = VObj("GroupBy")
    gb.frame, gb.by = df, by
    return _gb_filter(interp, gb, [f], {}, node)


@S.spec("group_values")
def _group_values(interp, args, kwargs, node):
    """group_values(df, by, lambda g: v(g)): the vector of v(group), one entry per group of df by the key, in group order"""
    df, by, f = args
    gb = VObj("GroupBy")
    gb.frame, gb.by = df, by
    return _gb_apply(interp, gb, [f], {}, node)


@extern("numpy.ones")
def _np_ones(interp, args, kwargs, node):
    n = args[0]
    if not isinstance(n, VInt) or kwargs:
        raise Unsupported("np.ones argument form")
    from . import vec
    v = VList(SymSeq(n.term, lambda k: VReal(z3.RealVal(1), True), T.RealT(np=True)), "ndarray")
    v.poly = {(): z3.RealVal(1)}
    return interp.born(v)
