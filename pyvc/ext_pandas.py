"""Assumed contracts: pandas (DESIGN section 4) and the abstract 'collection of hashable elements'
used by the set-overlap statistics."""
import z3
from .values import *
from . import externs as E
from . import types as T
from .externs import extern, method, raise_py

ELEM = z3.DeclareSort("Elem")
ELEMSET = z3.SetSort(ELEM)
isna_f = z3.Function("isna", ELEM, z3.BoolSort())
dropna_f = z3.Function("dropna", ELEMSET, ELEMSET)


class ElemT(T.T):
    def sort(self):
        return ELEM

    def wrap(self, term):
        return VObj("elem", term)

    def family(self, name, ctx, psorts):
        f = T._uf(ctx, name, psorts, ELEM)
        return lambda p: VObj("elem", f(p))

    def decode(self, model, value):
        return {"t": "opaque", "tag": "elem"}


class VColl(Value):
    """A collection (list / set / pandas Series) of hashable elements, abstracted to its element
    set; missing values are the elements satisfying isna."""

    def __init__(self, kind, zset):
        self.kind, self.zset = kind, zset

    def py_type(self):
        return {"list": "list", "set": "set", "Series": "pandas.Series", "tuple": "tuple"}[self.kind]


class CollT(T.T):
    def __init__(self, kind):
        self.kind = kind

    def family(self, name, ctx, psorts):
        c = ctx.fresh(name + "_elems", ELEMSET)
        return lambda p: VColl(self.kind, c)

    def decode(self, model, value):
        uni = model.get_universe(ELEM) or []
        items = []
        for i, u in enumerate(uni):
            if z3.is_true(model.eval(z3.IsMember(u, value.zset), model_completion=True)):
                na = z3.is_true(model.eval(isna_f(u), model_completion=True))
                items.append({"t": "nan"} if na else {"t": "int", "v": i})
        return {"t": "seq", "kind": self.kind, "items": items, "index": None}


T.NAMESPACE.update(CollT=CollT, ElemT=ElemT)


def _dropna_axiom(ctx):
    if "dropna" in ctx.axioms_added:
        return
    ctx.axioms_added.add("dropna")
    s = z3.Const("s!d", ELEMSET)
    e = z3.Const("e!d", ELEM)
    ctx.assume(z3.ForAll([s, e], z3.IsMember(e, dropna_f(s)) == z3.And(z3.IsMember(e, s), z3.Not(isna_f(e))),
                         patterns=[z3.IsMember(e, dropna_f(s))]),
               "extern:pandas.Series.dropna (keeps exactly the elements that are not missing)")


def coll_set(interp, zset):
    s = VSet(pred=lambda x: z3.IsMember(x.term, zset))
    s.zset = zset
    s.elem_kind = ElemT()
    return interp.born(s)


def _set_hook(interp, opn, v, node):
    if opn == "set" and isinstance(v, VColl):
        return coll_set(interp, v.zset)
    if opn == "list" and isinstance(v, VColl):
        return VColl("list", v.zset)
    return None


E.HOOKS["unop"].append(_set_hook)


@extern("type:pandas.Series")
def series_ctor(interp, args, kwargs, node):
    v = args[0] if args else kwargs.get("data")
    if isinstance(v, VColl):
        if v.kind == "set":
            interp.ctx.assumed.add("extern:pandas.Series(set) raises TypeError ('set' type is unordered)")
            raise_py(interp, "TypeError", "'set' type is unordered", node)
        interp.ctx.assumed.add("extern:pandas.Series(list-like) holds exactly the elements of its argument")
        return VColl("Series", v.zset)
    return interp.born(E.opaque(interp, "pandas.Series", args, kwargs, "Series"))


def _coll_dropna(interp, sv, args, kwargs, node):
    _dropna_axiom(interp.ctx)
    return VColl(sv.kind, dropna_f(sv.zset))


E.METHODS[("VColl", "dropna")] = _coll_dropna


# spec vocabulary for collections ------------------------------------------------------------
from . import spec as S


@S.spec("eset")
def _eset(interp, args, kwargs, node):
    return coll_set(interp, args[0].zset)


@S.spec("dropna_set")
def _dropna_set(interp, args, kwargs, node):
    _dropna_axiom(interp.ctx)
    return coll_set(interp, dropna_f(args[0].zset))


@S.spec("card")
def _card(interp, args, kwargs, node):
    return VInt(S.card(interp, args[0]))


@S.spec("is_series")
def _is_series(interp, args, kwargs, node):
    return VBool(isinstance(args[0], VColl) and args[0].kind == "Series")
