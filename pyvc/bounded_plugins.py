"""Bounded stand-ins (never counted as proved): checks of the real code on a stated finite range for clauses the
deductive argument cannot reach (floating point)."""
import json
import os
from .plugins import plugin
from . import frontend

VERIF = os.path.dirname(os.path.dirname(os.path.abspath(__file__)))


def _harness(cmd, req):
    import subprocess
    env = dict(os.environ)
    env.setdefault("PYREPSEQ_REPO", frontend.REPO)
    p = subprocess.run(["/venv/bin/python", os.path.join(VERIF, "replay", "harness.py"), cmd], input=json.dumps(req),
                       capture_output=True, text=True, env=env, timeout=900, cwd=VERIF)
    try:
        return json.loads(p.stdout)
    except Exception:
        return {"error": p.stdout[-300:] + p.stderr[-600:]}


def radius(repo, reg, prop, tier, seed):
    N = 2000 if tier == "quick" else 20000
    out = _harness("radius", {"N": N})
    res = {"name": "kdtree_radius_bounded", "bounded_standins": [{
        "what": "kdtree ball radius in IEEE doubles: fl(radius(k))^2 >= 2 k^2 (exact rational comparison) for the radius expression of the real _kdtree_leven",
        "bound": f"max_edits = 1..{N}", "cases": out.get("checked"), "expr": out.get("expr"), "result": "holds" if out.get("ok") else out,
        "note": "bounded stand-in for the floating-point part of the lossless pre-filter; not counted as an obligation"}]}
    if out.get("ok") is False:
        # a definite failing input on the real code: reported as a violation of the (bounded) check
        name = f"nn._kdtree_leven/bounded[radius in floating point, max_edits={out['bad'][0]}]"
        w = out.get("witness", {})
        res["checked"] = [{"name": name, "function": "pyrepseq.nn.kdtree", "kind": "bounded", "status": "refuted", "instances": 1,
                           "solvers": ["exact rational arithmetic on IEEE doubles"], "time_s": 0.0,
                           "detail": f"radius expression {out.get('expr')} rounds below sqrt(2)*k for max_edits in {out['bad']}; kdtree({w.get('seqs')}, max_edits={w.get('max_edits')}) returned {w.get('kdtree')}",
                           "replay": {"qualname": "pyrepseq.nn.kdtree", "found": bool(out.get("witness_confirms")),
                                      "args": {"seqs": {"t": "seq", "kind": "list", "items": [{"t": "str", "v": s} for s in w.get("seqs", [])]},
                                               "max_edits": {"t": "int", "v": w.get("max_edits", 1)}, "max_returns": {"t": "none"},
                                               "n_cpu": {"t": "int", "v": 1}, "custom_distance": {"t": "none"},
                                               "max_custom_distance": {"t": "inf"}, "output_type": {"t": "const", "v": "triplets"},
                                               "compression": {"t": "int", "v": 1}},
                                      "report": out}}]
    elif out.get("ok") is None or "error" in out:
        res["errors"] = [("kdtree_radius_bounded", str(out)[:300])]
    return res


plugin("C04")(radius)
plugin("C11")(radius)


def vtables(repo, reg, prop, tier, seed):
    """Ground obligations on the shipped V-gene distance tables (finite data, checked exhaustively on every run)."""
    import csv
    checked = []
    for name in ("vdists_alpha.csv", "vdists_beta.csv"):
        path = os.path.join(frontend.REPO, "pyrepseq", "data", name)
        item = {"name": f"data/{name}/ground[symmetric, zero diagonal, index = columns]", "function": None, "kind": "ground",
                "instances": 1, "solvers": ["exhaustive check of the shipped file"], "time_s": 0.0}
        try:
            rows = list(csv.reader(open(path, newline="")))
            cols = rows[0][1:]
            idx = [r[0] for r in rows[1:]]
            M = [[float(x) for x in r[1:]] for r in rows[1:]]
            n = len(idx)
            problems = []
            if idx != cols:
                problems.append("index differs from columns")
            for i in range(n):
                if M[i][i] != 0:
                    problems.append(f"diagonal {idx[i]} = {M[i][i]}")
                for j in range(i):
                    if M[i][j] != M[j][i]:
                        problems.append(f"asymmetric {idx[i]},{idx[j]}")
            item["status"] = "discharged" if not problems else "refuted"
            item["instances"] = n * n
            item["detail"] = f"{n} alleles" if not problems else "; ".join(problems[:5])
        except Exception as e:
            item["status"] = "undecided"
            item["detail"] = f"{type(e).__name__}: {e}"
        checked.append(item)
    return {"name": "vgene_tables", "checked": checked}


plugin("C14")(vtables)


def neighbor_pairs_bounded(repo, reg, prop, tier, seed):
    """find_neighbor_pairs is not under a discharged contract (see contracts/distance_utils.py): its contract clauses are evaluated on the
    real code for every set of strings of a bounded universe (bounded stand-in, never counted as proved)."""
    budget = 600 if tier == "quick" else 6000
    out = _harness("falsify", {"qualname": "pyrepseq.distance.find_neighbor_pairs", "scope": "neighbor_pairs_sets", "seed": seed, "budget": budget})
    res = {"name": "find_neighbor_pairs_bounded", "bounded_standins": [{
        "what": "find_neighbor_pairs: sound / complete / each-pair-once clauses of its (trusted, not discharged) contract evaluated on the real code",
        "bound": f"first {budget} inputs of the scope neighbor_pairs_sets: every subset (as a list, in two orders) of the strings of length <= 3 over "
                 "{A, C} up to 5 elements, then random lists over a 3-letter alphabet with duplicates; Hamming and Levenshtein neighbourhoods",
        "cases": out.get("tried"), "result": "holds" if out.get("found") is False else out,
        "note": "bounded stand-in; not counted as an obligation"}]}
    if out.get("found"):
        name = f"distance.find_neighbor_pairs/bounded[{','.join(out['report']['violations'])[:80]}]"
        res["checked"] = [{"name": name, "function": "pyrepseq.distance.find_neighbor_pairs", "kind": "bounded", "status": "refuted", "instances": 1,
                           "solvers": ["concrete evaluation of the contract on the real code"], "time_s": 0.0, "detail": str(out["report"])[:400],
                           "replay": {"qualname": "pyrepseq.distance.find_neighbor_pairs", "found": True, "args": out["args"], "report": out["report"]}}]
    elif "error" in out or out.get("found") is None:
        res["errors"] = [("find_neighbor_pairs_bounded", str(out)[:300])]
    return res




def isdist3_bounded(repo, reg, prop, tier, seed):
    budget = 600 if tier == "quick" else 6000
    out = _harness("falsify", {"qualname": "pyrepseq.distance._isdist3_hamming", "scope": "isdist_hamming_calls", "seed": seed, "budget": budget})
    res = {"name": "isdist3_bounded", "bounded_standins": [{
        "what": "_isdist3_hamming: 'true iff a three-substitution variant is a reference' evaluated on the real code (the contract is discharged "
                "deductively by the thorough tier only; in the quick tier it is trusted)",
        "bound": f"{budget} random inputs: strings over {{A, C}} of length 0..4 with 2..6 references of the same length or of the universe",
        "cases": out.get("tried"), "result": "holds" if out.get("found") is False else out, "note": "bounded stand-in; not counted as an obligation"}]}
    if out.get("found"):
        name = f"distance._isdist3_hamming/bounded[{','.join(out['report']['violations'])[:80]}]"
        res["checked"] = [{"name": name, "function": "pyrepseq.distance._isdist3_hamming", "kind": "bounded", "status": "refuted", "instances": 1,
                           "solvers": ["concrete evaluation of the contract on the real code"], "time_s": 0.0, "detail": str(out["report"])[:400],
                           "replay": {"qualname": "pyrepseq.distance._isdist3_hamming", "found": True, "args": out["args"], "report": out["report"]}}]
    elif "error" in out or out.get("found") is None:
        res["errors"] = [("isdist3_bounded", str(out)[:300])]
    return res




def trusted_bounded(repo, reg, prop, tier, seed):
    """Every contract of the property that is `trusted` (never discharged, or discharged in the thorough tier only) is evaluated on the
    real code over its falsifier scope: a BOUNDED stand-in, never counted as proved."""
    budget = 400 if tier == "quick" else 4000
    res = {"name": "trusted_contracts_bounded", "bounded_standins": [], "checked": [], "errors": []}
    for q, c in sorted(reg.contracts.items()):
        if prop not in c.props or not c.trusted or c.inline or not c.scope:
            continue
        out = _harness("falsify", {"qualname": q, "scope": c.scope, "seed": seed, "budget": budget})
        res["bounded_standins"].append({
            "what": f"{q}: the clauses of its contract (NOT discharged deductively" + (" in the quick tier" if getattr(c, "trusted_in_quick", False) else "")
                    + ") evaluated on the real code", "bound": f"first {budget} inputs of the falsifier scope {c.scope} (replay/scopes.py)",
            "cases": out.get("tried"), "result": "holds" if out.get("found") is False else {k: out.get(k) for k in ("found", "note", "error")},
            "evaluation_errors": out.get("harness_errors"), "note": "bounded stand-in; not counted as an obligation"})
        if out.get("found"):
            name = f"{q.replace('pyrepseq.', '')}/bounded[{','.join(out['report']['violations'])[:80]}]"
            res["checked"].append({"name": name, "function": q, "kind": "bounded", "status": "refuted", "instances": 1,
                                   "solvers": ["concrete evaluation of the contract on the real code"], "time_s": 0.0,
                                   "detail": str(out["report"])[:400],
                                   "replay": {"qualname": q, "found": True, "args": out["args"], "report": out["report"]}})
        elif "error" in out or out.get("found") is None:
            res["errors"].append((f"bounded:{q}", str(out)[:300]))
    return res


for _p in ("C12", "C13"):
    plugin(_p)(trusted_bounded)
