"""Element-wise polynomial abstraction of 1-D numeric arrays (DESIGN 2.4).

A numeric vector is a polynomial in named base vectors with scalar coefficients; it keeps both
views: point-wise (`at(k)`) and summed (np.sum maps the monomial prod b_i^e_i to the
uninterpreted symbol S[monomial]).  Only linearity of the sum and point-wise ring laws are used,
plus the stated axioms about sums of non-negative integer vectors.
"""
import z3
from .values import *
from . import externs as E


def _is_numvec(v):
    return isinstance(v, VList) and isinstance(v.content, SymSeq) and getattr(v, "poly", None) is not None


def _num_kind(v):
    return isinstance(v.content, SymSeq) and isinstance(getattr(v.content, "elem_kind", None), (T_IntT, T_RealT))


from .types import IntT as T_IntT, RealT as T_RealT, SeqT as T_SeqT


def base_poly(interp, v):
    """Make v (a symbolic numeric sequence) a base vector of the abstraction."""
    if getattr(v, "poly", None) is not None:
        return v.poly
    ctx = interp.ctx
    if not hasattr(ctx, "vec_bases"):
        ctx.vec_bases = {}
    ek = getattr(v.content, "elem_kind", None)
    if not isinstance(ek, (T_IntT, T_RealT)):
        raise Unsupported(f"not a numeric vector: {v!r}")
    bid = getattr(v, "vec_name", None) or getattr(v, "sid", None) or f"v{len(ctx.vec_bases)}"
    ctx.vec_bases[bid] = v
    v.vec_name = bid
    v.poly = {((bid, 1),): z3.IntVal(1)}
    return v.poly


def _coeff_mul(a, b):
    if a.sort() != b.sort():
        a = z3.ToReal(a) if a.sort() == z3.IntSort() else a
        b = z3.ToReal(b) if b.sort() == z3.IntSort() else b
    return z3.simplify(a * b)


def _coeff_add(a, b):
    if a.sort() != b.sort():
        a = z3.ToReal(a) if a.sort() == z3.IntSort() else a
        b = z3.ToReal(b) if b.sort() == z3.IntSort() else b
    return z3.simplify(a + b)


def poly_add(p, q, sign=1):
    out = dict(p)
    for m, c in q.items():
        c2 = c if sign == 1 else z3.simplify(-c)
        out[m] = _coeff_add(out[m], c2) if m in out else c2
    return out


def mono_mul(m1, m2):
    d = {}
    for b, e in m1 + m2:
        d[b] = d.get(b, 0) + e
    return tuple(sorted(d.items()))


def poly_mul(p, q):
    out = {}
    for m1, c1 in p.items():
        for m2, c2 in q.items():
            m = mono_mul(m1, m2)
            c = _coeff_mul(c1, c2)
            out[m] = _coeff_add(out[m], c) if m in out else c
    return out


def scalar_poly(v):
    t = v.term if isinstance(v, (VInt, VReal)) else to_int(v)
    return {(): t}


def make_vec(interp, poly, length, like):
    """Vector value from a polynomial; point-wise view derived from the bases."""
    ctx = interp.ctx
    if not hasattr(ctx, "vec_bases"):
        ctx.vec_bases = {}
    bases = ctx.vec_bases

    def at(k):
        total = None
        is_int = True
        for m, c in poly.items():
            term = c
            for b, e in m:
                x = bases[b].content.at(k)
                xt = x.term
                for _ in range(e):
                    term = _coeff_mul(term, xt)
            total = term if total is None else _coeff_add(total, term)
        if total is None:
            total = z3.IntVal(0)
        return VInt(total, True) if total.sort() == z3.IntSort() else VReal(total, True)
    ek = T_IntT(np=True) if all(c.sort() == z3.IntSort() for c in poly.values()) and \
        all(isinstance(bases[b].content.elem_kind, T_IntT) for m in poly for b, _ in m) else T_RealT(np=True)
    v = VList(SymSeq(length, at, ek), "ndarray")
    v.poly = poly
    return interp.born(v)


def sum_symbol(interp, mono):
    ctx = interp.ctx
    if not hasattr(ctx, "vec_sums"):
        ctx.vec_sums = {}
    if mono in ctx.vec_sums:
        return ctx.vec_sums[mono]
    if not hasattr(ctx, "vec_bases"):
        ctx.vec_bases = {}
    bases = ctx.vec_bases
    if mono == ():
        raise Unsupported("sum of the constant monomial is the length")
    all_int = all(isinstance(bases[b].content.elem_kind, T_IntT) for b, _ in mono)
    name = "S[" + "*".join(f"{b}^{e}" if e > 1 else b for b, e in mono) + "]"
    s = z3.Const(name, z3.IntSort() if all_int else z3.RealSort())
    ctx.vec_sums[mono] = s
    nonneg = all(getattr(bases[b].content.elem_kind, "lo", None) is not None
                 and bases[b].content.elem_kind.lo >= 0 for b, _ in mono)
    if nonneg:
        ctx.assume(s >= 0, "vector-sum axiom: a sum of non-negative entries is non-negative")
    if len(mono) == 1 and all_int and nonneg:
        b, e = mono[0]
        n = bases[b].content.length
        # sums of powers of one non-negative integer vector: x^p <= x^q (p<=q), sum x^2 <= (sum x)^2
        for (m2, s2) in list(ctx.vec_sums.items()):
            if len(m2) == 1 and m2[0][0] == b and m2 != mono:
                e2 = m2[0][1]
                lo, hi = (s, s2) if e < e2 else (s2, s)
                ctx.assume(lo <= hi, "vector-sum axiom: x^p <= x^q for integers x >= 0 and 1 <= p <= q")
        s1 = ctx.vec_sums.get(((b, 1),))
        if e == 2:
            if s1 is None:
                s1 = sum_symbol(interp, ((b, 1),))
            ctx.assume(s <= s1 * s1, "vector-sum axiom: sum x^2 <= (sum x)^2 for x >= 0")
        ctx.assume(z3.Implies(n == 0, s == 0), "vector-sum axiom: the empty sum is 0")
    return s


def vec_sum(interp, v):
    """np.sum of a numeric vector as a linear combination of sum symbols."""
    if isinstance(v, VList) and isinstance(v.content, ConcreteSeq):
        import ast as _ast
        r = VInt(0)
        for x in v.content.items:
            r = interp.binop(_ast.Add(), r, x)
        return r
    poly = getattr(v, "poly", None) or base_poly(interp, v)
    total = None
    for m, c in poly.items():
        if m == ():
            term = _coeff_mul(c, v.content.length)
        else:
            term = _coeff_mul(c, sum_symbol(interp, m))
        total = term if total is None else _coeff_add(total, term)
    if total is None:
        total = z3.IntVal(0)
    interp.ctx.assumed.add("extern:numpy.sum (linear; exact over Z / R)")
    return VInt(total, True) if total.sort() == z3.IntSort() else VReal(total, True)


def _as_poly(interp, x):
    if isinstance(x, VList):
        if x.kind not in ("ndarray", "Series") and not interp.spec_mode:
            return None
        if not isinstance(x.content, SymSeq):
            return None
        ek = getattr(x.content, "elem_kind", None)
        if not isinstance(ek, (T_IntT, T_RealT)):
            return None
        return getattr(x, "poly", None) or base_poly(interp, x), x.content.length
    if isinstance(x, (VInt, VReal, VBool)):
        return scalar_poly(x), None
    return None


def vec_binop(interp, opn, a, b, node):
    if not ((isinstance(a, VList) and (a.kind == "ndarray" or interp.spec_mode)) or
            (isinstance(b, VList) and (b.kind == "ndarray" or interp.spec_mode))):
        return None
    pa, pb = _as_poly(interp, a), _as_poly(interp, b)
    if pa is None or pb is None:
        return None
    length = pa[1] if pa[1] is not None else pb[1]
    if pa[1] is not None and pb[1] is not None and not interp.spec_mode:
        # numpy requires equal lengths (broadcasting of length-1 arrays is not modelled)
        interp.ctx.oblige(f"{interp.current_qualname.replace('pyrepseq.', '')}/same-length@L{getattr(node, 'lineno', '?')}",
                          pa[1] == pb[1], kind="call-pre", line=getattr(node, "lineno", None))
    if opn == "Add":
        return make_vec(interp, poly_add(pa[0], pb[0]), length, a)
    if opn == "Sub":
        return make_vec(interp, poly_add(pa[0], pb[0], -1), length, a)
    if opn == "Mult":
        return make_vec(interp, poly_mul(pa[0], pb[0]), length, a)
    if opn == "Pow" and pb[1] is None:
        n = concrete_int(b) if isinstance(b, VInt) else None
        if n is not None and n >= 0:
            p = {(): z3.IntVal(1)}
            for _ in range(n):
                p = poly_mul(p, pa[0])
            return make_vec(interp, p, length, a)
    if opn == "Div" and pb[1] is None:
        y = to_real(b)
        interp.nonzero(y, True, node)
        return make_vec(interp, poly_mul(pa[0], {(): z3.simplify(1 / y)}), length, a)
    return None


E.HOOKS["binop"].append(vec_binop)


# ---- point-wise fallback for vectors that are not polynomials in base vectors (powers with real exponents, logs, floors) ----

def _pw_view(interp, x):
    """(length | None, at(k) -> scalar Value) for a numeric vector or a scalar"""
    if isinstance(x, VList) and isinstance(x.content, SymSeq):
        return x.content.length, x.content.at
    if isinstance(x, (VInt, VReal, VBool)):
        return None, (lambda k: x)
    return None


def pointwise(interp, length, at, like_int=False):
    v = VList(SymSeq(length, at, T_RealT(np=True) if not like_int else T_IntT(np=True)), "ndarray")
    v.poly = None
    v.pointwise = True
    return interp.born(v)


def pw_binop(interp, op, a, b, node):
    va, vb = _pw_view(interp, a), _pw_view(interp, b)
    if va is None or vb is None:
        return None
    length = va[0] if va[0] is not None else vb[0]
    if length is None:
        return None
    return pointwise(interp, length, lambda k: interp.binop(op, va[1](k), vb[1](k), node))


_poly_binop = vec_binop


def vec_binop2(interp, opn, a, b, node):
    is_vec = lambda x: isinstance(x, VList) and (x.kind in ("ndarray", "Series") or interp.spec_mode) and isinstance(x.content, SymSeq) \
        and isinstance(getattr(x.content, "elem_kind", None), (T_IntT, T_RealT))
    if not (is_vec(a) or is_vec(b)):
        return None
    nopoly = lambda x: is_vec(x) and getattr(x, "pointwise", False)
    if not (nopoly(a) or nopoly(b)):
        r = _poly_binop(interp, opn, a, b, node)
        if r is not None:
            return r
    import ast as _ast
    op = getattr(_ast, opn)()
    return pw_binop(interp, op, a, b, node)


E.HOOKS["binop"].remove(vec_binop)
E.HOOKS["binop"].append(vec_binop2)


def structural_sum(interp, v):
    """np.sum of a point-wise defined vector: an uninterpreted symbol named by the defining term at a canonical index
    (so the same expression over the same data has the same sum on the code side and on the spec side)"""
    import hashlib
    t = v.content.at(z3.Int("k!canon")).term
    key = hashlib.sha1((z3.simplify(t).sexpr() + "|" + z3.simplify(v.content.length).sexpr()).encode()).hexdigest()[:12]
    return z3.Const(f"Sum[{key}]", z3.RealSort() if t.sort() == z3.RealSort() else z3.IntSort())


_vec_sum_poly = vec_sum


def vec_sum2(interp, v):
    if isinstance(v, VList) and getattr(v, "pointwise", False):
        s = structural_sum(interp, v)
        interp.ctx.assumed.add("extern:numpy.sum of a point-wise defined vector is an uninterpreted function of the defining expression")
        return VReal(s, True) if s.sort() == z3.RealSort() else VInt(s, True)
    return _vec_sum_poly(interp, v)


vec_sum = vec_sum2
