"""Property-level plug-ins: obligations that are not per-path function VCs (lemmas over
contracts, frame analysis, ground checks on shipped data, Lean re-checks)."""
PLUGINS = {}
NOT_DECIDED = {
    "C04": ["lossless pre-filter in floating point: floats are treated as reals (radius sqrt(2)*k exact)"],
    "C08": ["that rapidfuzz's number is the minimum-weight edit script (C++ extension; assumed contract)"],
    "C11": ["independence from process schedules: reduced to the assumed contract of multiprocessing.Pool.map",
            "max_returns = m clause: rapidfuzz extract(limit=) and sorted()[:limit] are not modelled (max_returns is None in the verified domain)"],
    "C14": ["nearest_neighbor_tcrdist: pwseqdist is not installed; the TCRdist part is outside the functions under contract"],
    "C06": ["the multinomial factorial-moment identity is an assumed axiom about the sampling model (bounded exact validation reported)"],
}


def plugin(*props):
    def deco(f):
        for p in props:
            PLUGINS.setdefault(p, []).append(f)
        return f
    return deco


def for_property(prop):
    return list(PLUGINS.get(prop, []))
