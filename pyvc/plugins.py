"""Property-level plug-ins: obligations that are not per-path function VCs (lemmas over
contracts, frame analysis, ground checks on shipped data, Lean re-checks)."""
PLUGINS = {}
NOT_DECIDED = {
    "C04": ["lossless pre-filter in floating point: floats are treated as reals (radius sqrt(2)*k exact)"],
    "C08": ["that rapidfuzz's number is the minimum-weight edit script (C++ extension; assumed contract)"],
    "C11": ["independence from process schedules: reduced to the assumed contract of multiprocessing.Pool.map",
            "max_returns = m clause: rapidfuzz extract(limit=) and sorted()[:limit] are not modelled (max_returns is None in the verified domain)"],
    "C14": ["nearest_neighbor_tcrdist: pwseqdist is not installed; the TCRdist part is outside the functions under contract"],
    "C18": ["what tidytcells' standardisers return for a cell (third-party; uninterpreted functions of the cell and the options passed): the contract "
            "fixes which standardiser is applied to which column with which options, cell by cell",
            "pandas.merge's join semantics (third-party; an opaque deterministic function bound like its real signature): 'returns the join' is "
            "decided as 'applies pandas.merge left to right with these key / how / suffix arguments'",
            "tables are enumerated over three column layouts (all nine standard columns + an extra one; misnamed columns with a col_mapper; a "
            "partial table) with any number of rows; cells are strings with '' standing for a missing cell"],
    "C09": ["what rapidfuzz's weighted Levenshtein and process.cdist compute (C++ extension; assumed contracts as in C08) and what tidytcells' gene "
            "reference holds for a V allele (uninterpreted v_loop)",
            "tables are enumerated over column layouts (paired, beta-only with an extra column, alpha-only, a non-TCR table, a non-table); cells are "
            "strings; index labels are not part of the table model, so 'independent of index labels and row order' holds by construction of the "
            "model (positional) and is additionally exercised by the thorough tier's concrete runs with non-default / duplicated indices",
            "a TCR table lacking a column the metric needs raises pandas' KeyError (outside the stated property; excluded by precondition)"],
    "C12": [            "_isdist3_hamming: discharged by the thorough tier only (about 15 min of path enumeration); trusted + bounded stand-in in the quick tier",
            "that the index forms ('k substitutions at k strictly increasing positions by different letters') are Hamming distance exactly k is the "
            "Lean lemma file HamIndexForms (k = 1, 2, 3); that the one-edit index form is Levenshtein distance exactly 1 is L-n1 / L-step (Lean); the "
            "SMT clauses and the Lean statements are related by hand transcription",
            "the utilities are verified for an ARBITRARY neighbourhood callable abstracted to the set of strings it yields; order and multiplicity "
            "of what a generator yields are not modelled for callables passed as arguments"],
    "C13": ["TERM LEVEL: tables are opaque; pc / pc_joint / pcDelta / stdpc / stdpc_joint of an opaque table or group are uninterpreted applications "
            "of those functions (their own contracts are discharged under C02 / C05 / C06 on modelled tables); pandas groupby / filter / apply are "
            "assumed contracts (groups in sorted key order; apply = per-group values in group order; filter = rows of the groups satisfying the predicate)",
            "pc_grouped_cross and pcDelta_grouped_cross (loops over itertools.combinations feeding squareform): contracts NOT discharged, evaluated on the "
            "real code as bounded stand-ins (listed under bounded_standins); pcDelta_grouped_cross is covered for the scalar bins=0 form only (the "
            "square form is undefined for vector results, see DESIGN section 5/C13)",
            "stdpc_joint is an uninterpreted statistic here (its body is not verified)"],
    "C19": ["NOT under contract (no obligation covers them): density_scatter's continuous (histogram-interpolation) mode, seqlogos for sequences of unequal length (external aligner) and seqlogos_vj, "
            "similarity_clustermap / ClusterGridSplit -- their statements are about what a rendered figure shows or about colour look-up tables built "
            "with seaborn / matplotlib objects; only C20's frame obligations (no argument / default mutated) cover them",
            "labels_to_colors_hls: that seaborn.hls_palette(n) returns n pairwise different non-black colours is an assumed contract of seaborn",
            "what matplotlib renders: rankfrequency is decided as 'these data reach Axes.step, these scales are set' (term level)",
            "seqs_to_regex: the post-condition is structural (per position the single observed residue or the bracketed sorted set of observed "
            "residues); that such an expression fully matches exactly the strings built from the observed residues is the standard reading of "
            "a character-class regex and is not mechanised; align=True (external mafft) and gapped alignments are outside the contract's domain",
            "logomaker's count matrix (cell = number of sequences showing the residue at the position; idxmax = a most frequent residue) is an "
            "assumed contract"],
    "C15": ["what igraph computes: 'connected_components().membership labels two vertices alike exactly when a path of edges joins them' and "
            "'community_* never merges different components' are ASSUMED contracts of igraph (third-party C library), not decided",
            "what SciPy's linkage / fcluster compute, and the cross-module clause 'single linkage cut at t = connected components of the max_edits = t "
            "neighbour graph': an assumed fact about SciPy's single linkage together with C01/C08's post-conditions; not decided here",
            "the 'DBSCAN' branch of graph_clustering (undocumented method, needs an ndarray adjacency): outside the contract's domain"],
    "C17": ["that every individual item is EQUALLY LIKELY to be kept (subsample / downsample): a statement about the distribution of numpy's "
            "generator; numpy.random.choice / DataFrame.sample are assumed to draw uniformly, no contract decides it",
            "powerlaw_mle_alpha 'exact': that scipy's bounded search returns the GLOBAL minimiser is an assumed contract of "
            "scipy.optimize.minimize_scalar (the objective is convex in alpha, so local = global); what is proved is that the objective handed "
            "to it is minus the discrete log-likelihood of the counts >= cmin with the documented default bounds"],
    "C06": ["the multinomial factorial-moment identity is an assumed axiom about the sampling model (bounded exact validation reported)"],
}


def plugin(*props):
    def deco(f):
        for p in props:
            PLUGINS.setdefault(p, []).append(f)
        return f
    return deco


def for_property(prop):
    return list(PLUGINS.get(prop, []))
