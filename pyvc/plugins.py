"""Property-level plug-ins: obligations that are not per-path function VCs (lemmas over
contracts, frame analysis, ground checks on shipped data, Lean re-checks)."""
PLUGINS = {}
NOT_DECIDED = {}


def plugin(*props):
    def deco(f):
        for p in props:
            PLUGINS.setdefault(p, []).append(f)
        return f
    return deco


def for_property(prop):
    return list(PLUGINS.get(prop, []))
