"""Assumed contracts: matplotlib drawing calls (C19).  TERM LEVEL: arrays are opaque; a drawing method called on an Axes is recorded as
an EFFECT (receiver, method, arguments); contracts state which data reach which drawing call.  What the renderer does with them is
outside the code under contract."""
import z3
from .values import *
from . import externs as E
from . import spec as S
from .externs import extern, method, pure, opaque

pure("numpy.isnan", "boolarray")
pure("numpy.sort", "ndarray")


def _effects(interp):
    if not hasattr(interp.ctx, "effects"):
        interp.ctx.effects = []
    return interp.ctx.effects


@extern("matplotlib.pyplot.gca")
def _gca(interp, args, kwargs, node):
    if args or kwargs:
        raise Unsupported("plt.gca arguments")
    return VObj("Axes", z3.Const("current_axes", OBJ))


for _m in ("step", "plot", "scatter", "set_xscale", "set_yscale", "set_xlabel", "set_ylabel", "set_xlim", "set_ylim"):
    def _mk(m):
        def h(interp, sv, args, kwargs, node):
            if not interp.spec_mode:
                _effects(interp).append((sv, m, list(args), dict(kwargs.items())))
            return interp.born(opaque(interp, f"Axes.{m}", [sv] + list(args), dict(kwargs.items()), "object"))
        return h
    E.METHODS[("Axes", _m)] = _mk(_m)


def _unop(interp, opn, v, node):
    if opn in ("invert", "neg") and isinstance(v, VObj) and v.term is not None and v.tag in ("ndarray", "boolarray", "Series"):
        return interp.born(opaque(interp, f"op.{opn}", [v], None, v.tag))
    return None


E.HOOKS["unop"].append(_unop)


def _size_attr(interp, base, attr, node):
    if attr == "size" and isinstance(base, VObj) and base.term is not None and base.tag in ("ndarray", "boolarray"):
        n = opaque(interp, "attr.size", [base], None, "int", rsort=z3.IntSort())
        interp.ctx.assume(n >= 0)
        return VInt(n)
    return None


E.HOOKS["getattr"].insert(0, _size_attr)


@S.spec("drawn")
def _drawn(interp, args, kwargs, node):
    """drawn(ax, method): the positional arguments of THE call ax.method(...) made by the function (a tuple); if the function made no
    such call or several, an unconstrained marker that equals nothing"""
    ax, m = args
    name = concrete_str(m)
    calls = [e for e in _effects(interp) if e[1] == name and (e[0] is ax or (isinstance(ax, VObj) and isinstance(e[0], VObj)
                                                                             and e[0].term is not None and ax.term is not None
                                                                             and z3.eq(e[0].term, ax.term)))]
    if len(calls) != 1:
        return VTuple([VObj("object", interp.ctx.fresh("no_such_single_call", OBJ))])
    return VTuple(list(calls[0][2]))


@S.spec("times_drawn")
def _times_drawn(interp, args, kwargs, node):
    ax, m = args
    name = concrete_str(m)
    return VInt(len([e for e in _effects(interp) if e[1] == name and (e[0] is ax or (
        isinstance(ax, VObj) and isinstance(e[0], VObj) and e[0].term is not None and ax.term is not None and z3.eq(e[0].term, ax.term)))]))


@S.spec("the_axes")
def _the_axes(interp, args, kwargs, node):
    """the Axes the function draws on: the one given, else matplotlib's current Axes"""
    ax = args[0]
    return ax if not isinstance(ax, VNone) else VObj("Axes", z3.Const("current_axes", OBJ))


# ---- logomaker.alignment_to_matrix: the per-position count table of an alignment (C19: seqs_to_regex / seqs_to_consensus) ----------
def _lm_syms(seqs):
    sid = getattr(seqs, "sid", None) or "seqs"
    STR, INT = z3.StringSort(), z3.IntSort()
    return {"sid": sid,
            "cnt": z3.Function(f"colcount[{sid}]", INT, STR, INT),        # number of sequences showing residue c at position i
            "rowsum": z3.Function(f"nongap[{sid}]", INT, INT),            # number of sequences with a residue (not a gap) at position i
            "mode": z3.Function(f"idxmax[{sid}]", INT, STR),              # a most frequent residue at position i (first on ties)
            "obs": z3.Function(f"observed[{sid}]", INT, STR)}             # the residues observed at position i, sorted, as one string


def _pat(term, bound):
    """a trigger only if z3 accepts the term as one (it must mention every bound variable and no interpreted arithmetic on top)"""
    try:
        z3.ForAll(bound, z3.BoolVal(True) == (term == term), patterns=[term])
        return {"patterns": [term]}
    except z3.Z3Exception:
        return {}


def _lm_axioms(interp, seqs, sy):
    ctx = interp.ctx
    key = ("ax", "lm", sy["sid"], id(seqs.content))
    if key in ctx.axioms_added:
        return
    ctx.axioms_added.add(key)
    n = seqs.content.length
    i, k = z3.Int("i!lm"), z3.Int("k!lm")
    c = z3.Const("c!lm", z3.StringSort())
    lab = ("extern:logomaker.alignment_to_matrix(seqs): rows = positions, columns = residues in sorted order, cell = number of sequences "
           "showing the residue at the position ('-' and '.' are gaps and not counted); row.sum / row.idxmax / row[row > 0].index as in pandas")
    cnt, rowsum, mode, obs = sy["cnt"], sy["rowsum"], sy["mode"], sy["obs"]
    at = lambda kk: seqs.content.at(kk).term
    gapless = z3.ForAll([k], z3.Implies(z3.And(0 <= k, k < n), z3.And(z3.SubString(at(k), i, 1) != z3.StringVal("-"),
                                                                       z3.SubString(at(k), i, 1) != z3.StringVal("."))))
    ctx.assume_global(z3.ForAll([i, c], z3.And(cnt(i, c) >= 0, cnt(i, c) <= n), patterns=[cnt(i, c)]), lab)
    ctx.assume_global(z3.ForAll([i], z3.And(rowsum(i) >= 0, rowsum(i) <= n, z3.Implies(gapless, rowsum(i) == n)), patterns=[rowsum(i)]), lab)
    ctx.assume_global(z3.ForAll([i], z3.Implies(rowsum(i) >= 1, z3.And(z3.Length(mode(i)) == 1, cnt(i, mode(i)) >= 1,
                                                                       z3.ForAll([c], cnt(i, mode(i)) >= cnt(i, c)))), patterns=[mode(i)]), lab)
    ctx.assume_global(z3.ForAll([i], z3.Implies(rowsum(i) >= 1, z3.Length(obs(i)) >= 1), patterns=[obs(i)]), lab)
    ctx.assume_global(z3.ForAll([i, k], z3.Implies(z3.And(0 <= k, k < n, 0 <= i, i < z3.Length(at(k)),
                                                          z3.SubString(at(k), i, 1) != z3.StringVal("-"), z3.SubString(at(k), i, 1) != z3.StringVal(".")),
                                                   z3.And(cnt(i, z3.SubString(at(k), i, 1)) >= 1, z3.Contains(obs(i), z3.SubString(at(k), i, 1)))),
                                **_pat(z3.SubString(at(k), i, 1), [i, k])), lab)


@extern("logomaker.alignment_to_matrix")
def _lm_matrix(interp, args, kwargs, node):
    seqs = args[0] if args else kwargs.get("sequences")
    if not (isinstance(seqs, VList) and isinstance(seqs.content, SymSeq)) or len(args) + len(kwargs) != 1:
        raise Unsupported("alignment_to_matrix argument form")
    ctx = interp.ctx
    n = seqs.content.length
    short = (interp.current_qualname or "").replace("pyrepseq.", "")
    line = getattr(node, "lineno", None)
    k = z3.Int("k!lm")
    if not interp.spec_mode:
        ctx.oblige(f"{short}/call-pre[alignment_to_matrix: at least one non-empty sequence, all of the same length]@L{line}",
                   z3.And(n >= 1, z3.Length(seqs.content.at(z3.IntVal(0)).term) >= 1, z3.ForAll([k], z3.Implies(z3.And(0 <= k, k < n),
                                                            z3.Length(seqs.content.at(k).term) == z3.Length(seqs.content.at(z3.IntVal(0)).term)))),
                   kind="call-pre", line=line)
    sy = _lm_syms(seqs)
    _lm_axioms(interp, seqs, sy)
    o = VObj("CountMatrix")
    o.seqs, o.sy, o.L = seqs, sy, z3.Length(seqs.content.at(z3.IntVal(0)).term)
    return o


def _row(m, i):
    r = VObj("CountRow")
    r.m, r.i = m, i
    return r


@method("CountMatrix", "iterrows")
def _iterrows(interp, sv, args, kwargs, node):
    return VList(SymSeq(sv.L, lambda i: VTuple([VInt(i), _row(sv, i)])), "generator")


@method("CountRow", "sum")
def _row_sum(interp, sv, args, kwargs, node):
    return VInt(sv.m.sy["rowsum"](sv.i), True)


@method("CountRow", "idxmax")
def _row_idxmax(interp, sv, args, kwargs, node):
    if not interp.spec_mode:
        short = (interp.current_qualname or "").replace("pyrepseq.", "")
        interp.ctx.oblige(f"{short}/call-pre[idxmax of a row with at least one residue]@L{getattr(node, 'lineno', '?')}",
                          sv.m.sy["rowsum"](sv.i) >= 1, kind="call-pre", line=getattr(node, "lineno", None))
    return VStr(sv.m.sy["mode"](sv.i))


def _row_cmp(interp, opn, a, b, node):
    if isinstance(a, VObj) and a.tag == "CountRow" and opn == "Gt" and concrete_int(b) == 0:
        o = VObj("CountRowPositive")
        o.row = a
        return o
    return None


E.HOOKS["cmp"].insert(0, _row_cmp)


def _row_index(interp, base, idx, node):
    if isinstance(base, VObj) and base.tag == "CountRow" and isinstance(idx, VObj) and idx.tag == "CountRowPositive" and idx.row.i is base.i:
        o = VObj("CountRowSelected")
        o.row = base
        return o
    return None


E.HOOKS["index"].insert(0, _row_index)


def _row_attr(interp, base, attr, node):
    if isinstance(base, VObj) and base.tag == "CountRowSelected" and attr == "index":
        o = VObj("ObservedResidues")
        o.row = base.row
        return o
    return None


E.HOOKS["getattr"].insert(0, _row_attr)

_join_prev = E.METHODS[("str", "join")]


def _join2(interp, sv, args, kwargs, node):
    it = args[0] if args else None
    if isinstance(it, VObj) and it.tag == "ObservedResidues" and concrete_str(sv) == "":
        return VStr(it.row.m.sy["obs"](it.row.i))
    return _join_prev(interp, sv, args, kwargs, node)


E.METHODS[("str", "join")] = _join2


@S.spec("column_count")
def _column_count(interp, args, kwargs, node):
    """column_count(seqs, i, c): the number of sequences showing residue c at position i (logomaker's count matrix)"""
    seqs, i, c = args
    sy = _lm_syms(seqs)
    _lm_axioms(interp, seqs, sy)
    return VInt(sy["cnt"](to_int(i), c.term))


@S.spec("observed_residues")
def _observed(interp, args, kwargs, node):
    seqs, i = args
    sy = _lm_syms(seqs)
    _lm_axioms(interp, seqs, sy)
    return VStr(sy["obs"](to_int(i)))


@S.spec("regex_prefix")
def _regex_prefix(interp, args, kwargs, node):
    """regex_prefix(seqs, i): the expression for positions 0 .. i-1: per position the single observed residue, or [residues] when
    several are observed, followed by ? when some sequence has a gap there"""
    seqs, i = args
    sy = _lm_syms(seqs)
    _lm_axioms(interp, seqs, sy)
    n = seqs.content.length
    obs, rowsum = sy["obs"], sy["rowsum"]
    S_ = z3.StringVal

    def build(f, k):
        piece = z3.If(z3.Length(obs(k - 1)) > 1, z3.Concat(S_("["), obs(k - 1), S_("]")), obs(k - 1))
        piece = z3.Concat(piece, z3.If(rowsum(k - 1) != n, S_("?"), S_("")))
        return z3.If(k <= 0, S_(""), z3.Concat(f(k - 1), piece))
    f = S._recfun(f"regex_prefix[{sy['sid']};{z3.simplify(n).sexpr()}]", [z3.IntSort()], z3.StringSort(), build)
    return VStr(f(to_int(i)))


# ---- colour look-up tables (labels_to_colors_hls) ----------------------------------------------------------------------------
BLACK = None


def _black(interp):
    return E._arg_term(interp, VList(ConcreteSeq([VInt(0), VInt(0), VInt(0)])))


@extern("seaborn.hls_palette")
def _hls_palette(interp, args, kwargs, node):
    """hls_palette(n, l=, s=): n colours evenly spaced in hue: pairwise different, none of them black (for s > 0, l > 0)"""
    n = args[0] if args else kwargs.get("n_colors")
    if not isinstance(n, VInt) or len(args) > 1:
        raise Unsupported("hls_palette argument form")
    kw = {k: kwargs[k] for k in sorted(kwargs.keys()) if k != "n_colors"}
    ctx = interp.ctx
    ts = [n.term] + [E._arg_term(interp, v) for v in kw.values()]
    f = z3.Function("hls_colour[" + ",".join(kw) + ";" + ",".join(str(t.sort()) for t in ts) + "]", *([t.sort() for t in ts] + [z3.IntSort(), OBJ]))
    j, j2 = z3.Int("j!hls"), z3.Int("j2!hls")
    col = lambda q: f(*(ts + [q]))
    ctx.assume(z3.ForAll([j, j2], z3.Implies(z3.And(0 <= j, j < j2, j2 < n.term), col(j) != col(j2))),
               "extern:seaborn.hls_palette(n, ...) returns n pairwise different colours, none of them black [0, 0, 0] (assumed of seaborn)")
    ctx.assume(z3.ForAll([j], z3.Implies(z3.And(0 <= j, j < n.term), col(j) != _black(interp)), patterns=[col(j)]))
    return interp.born(VList(SymSeq(n.term, lambda q: VObj("colour", col(q)), None), "list"))


_dict_prev = E.BUILTINS["dict"]


def _dict2(interp, args, kwargs, node):
    """dict(zip(keys, values)) over symbolic sequences with pairwise distinct string keys: k -> values[position of k]"""
    if len(args) == 1 and not kwargs and isinstance(args[0], E.VZip) and len(args[0].its) == 2:
        ks, vs = args[0].its
        vk, vv = E.ordered_view(interp, ks, node), E.ordered_view(interp, vs, node)
        if vk is not None and vv is not None and isinstance(getattr(ks.content, "elem_kind", None), T_StrT):
            ctx = interp.ctx
            n = z3.If(vk[0] < vv[0], vk[0], vv[0])
            pos = ctx.fresh_fun("key_pos", z3.StringSort(), z3.IntSort())
            j = z3.Int("j!dz")
            kat = lambda q: vk[1](q).term
            ctx.assume(z3.ForAll([j], z3.Implies(z3.And(0 <= j, j < n), pos(kat(j)) == j), patterns=[kat(j)]),
                       "python:dict(zip(keys, values)) with pairwise distinct keys maps keys[j] to values[j]")
            i, i2 = z3.Int("i!dz"), z3.Int("i2!dz")
            if not interp.spec_mode:
                short = (interp.current_qualname or "").replace("pyrepseq.", "")
                ctx.oblige(f"{short}/call-pre[dict(zip(...)): keys pairwise distinct]@L{getattr(node, 'lineno', '?')}",
                           z3.ForAll([i, i2], z3.Implies(z3.And(0 <= i, i < i2, i2 < n), kat(i) != kat(i2))), kind="call-pre",
                           line=getattr(node, "lineno", None))
            dom = lambda k: z3.Exists([j], z3.And(0 <= j, j < n, kat(j) == k.term))
            d = VDict(dom=lambda k: z3.And(0 <= pos(k.term), pos(k.term) < n, kat(pos(k.term)) == k.term),
                      get=lambda k: vv[1](pos(k.term)), key_kind=T_Str, val_kind=None)
            return interp.born(d)
    return _dict_prev(interp, args, kwargs, node)


from .types import StrT as T_StrT, Str as T_Str
E.BUILTINS["dict"] = _dict2


@S.spec("occurrences")
def _occurrences(interp, args, kwargs, node):
    """occurrences(labels, x): how often x occurs in labels (the count numpy.unique reports for x)"""
    labels, x = args
    from .ext_numpy import seq_id
    f = z3.Function(f"occurrences[{seq_id(labels)}]", z3.StringSort(), z3.IntSort())
    return VInt(f(x.term))


@S.spec("is_black")
def _is_black(interp, args, kwargs, node):
    v = args[0]
    return VBool(E._arg_term(interp, v) == _black(interp))


# ---- density_scatter (discrete mode): term level ---------------------------------------------------------------------------
_np_unique_prev = E.EXTERNS["numpy.unique"]


def _np_unique_opaque(interp, args, kwargs, node):
    arr = args[0] if args else None
    if isinstance(arr, VObj) and arr.term is not None and arr.tag in ("ndarray", "object"):
        rc = kwargs.get("return_counts")
        kw = {k: kwargs[k] for k in kwargs.keys() if k != "return_counts"}
        vals = interp.born(opaque(interp, "numpy.unique", [arr], kw, "ndarray"))
        if rc is not None and concrete_bool(interp.as_bool_term(rc)) is True:
            cnt = interp.born(opaque(interp, "numpy.unique.counts", [arr], kw, "ndarray"))
            interp.ctx.assumed.add("extern:numpy.unique(a, return_counts=True, axis=0): the distinct rows of a (sorted) and how often each occurs")
            return VTuple([vals, cnt])
        return vals
    return _np_unique_prev(interp, args, kwargs, node)


E.EXTERNS["numpy.unique"] = _np_unique_opaque

_list_prev = E.BUILTINS["list"]


def _list_zip_opaque(interp, args, kwargs, node):
    if len(args) == 1 and isinstance(args[0], E.VZip) and all(isinstance(v, VObj) and v.term is not None for v in args[0].its):
        return interp.born(opaque(interp, "list.zip", list(args[0].its), None, "object"))
    return _list_prev(interp, args, kwargs, node)


E.BUILTINS["list"] = _list_zip_opaque


@method("ndarray", "argsort")
def _argsort(interp, sv, args, kwargs, node):
    if not (isinstance(sv, VObj) and sv.term is not None) or args or kwargs:
        raise Unsupported("argsort form")
    return interp.born(opaque(interp, "ndarray.argsort", [sv], None, "ndarray"))


@extern("matplotlib.pyplot.colorbar")
def _colorbar(interp, args, kwargs, node):
    if not interp.spec_mode:
        _effects(interp).append((VObj("pyplot", z3.Const("pyplot", OBJ)), "colorbar", list(args), dict(kwargs.items())))
    return interp.born(opaque(interp, "pyplot.colorbar", list(args), dict(kwargs.items()), "object"))


@S.spec("drawn_kw")
def _drawn_kw(interp, args, kwargs, node):
    """drawn_kw(ax, method, keyword): the keyword argument of THE call ax.method(...)"""
    ax, m, kw = args
    name, key = concrete_str(m), concrete_str(kw)
    calls = [e for e in _effects(interp) if e[1] == name and (e[0] is ax or (isinstance(ax, VObj) and isinstance(e[0], VObj)
                                                                             and e[0].term is not None and ax.term is not None
                                                                             and z3.eq(e[0].term, ax.term)))]
    if len(calls) != 1 or key not in calls[0][3]:
        return VObj("object", interp.ctx.fresh("no_such_single_call", OBJ))
    return calls[0][3][key]


# ---- seqlogos: the count matrix handed to logomaker.Logo and returned --------------------------------------------------------
def _cm_attr(interp, base, attr, node):
    if isinstance(base, VObj) and base.tag == "CountMatrix" and attr == "shape":
        ncols = opaque(interp, "count_matrix_columns", [VObj("object", z3.Const(f"seq:{base.sy['sid']}", OBJ))], None, "int", rsort=z3.IntSort())
        return VTuple([VInt(base.L), VInt(ncols)])
    if isinstance(base, VObj) and base.tag == "Axes" and attr == "spines":
        return interp.born(opaque(interp, "attr.spines", [base], None, "object"))
    return None


E.HOOKS["getattr"].insert(0, _cm_attr)


@extern("matplotlib.pyplot.subplots")
def _subplots(interp, args, kwargs, node):
    kwargs.get("figsize")
    if args or set(kwargs.keys()) - {"figsize"}:
        raise Unsupported("plt.subplots arguments")
    fig = VObj("Figure", z3.Const("new_figure", OBJ))
    ax = VObj("Axes", z3.Const("new_axes", OBJ))
    return VTuple([fig, ax])


@extern("logomaker.Logo")
def _lm_logo(interp, args, kwargs, node):
    if not interp.spec_mode:
        _effects(interp).append((kwargs.get("ax"), "Logo", list(args), dict(kwargs.items())))
    else:
        kwargs.items()
    return VObj("Logo", z3.Const("logo", OBJ))


for _m in ("set_xticks", "set_yticks"):
    E.METHODS[("Axes", _m)] = (lambda m: (lambda interp, sv, args, kwargs, node: (_effects(interp).append((sv, m, list(args), dict(kwargs.items())))
                                                                                 if not interp.spec_mode else None, NONE)[1]))(_m)


@method("object", "set_visible")
def _set_visible(interp, sv, args, kwargs, node):
    return NONE


@S.spec("is_count_matrix_of")
def _is_cm_of(interp, args, kwargs, node):
    """m is logomaker's count matrix of exactly these sequences (cell [i, c] = number of sequences showing residue c at position i)"""
    m, seqs = args
    return VBool(isinstance(m, VObj) and m.tag == "CountMatrix" and m.seqs is seqs)


@S.spec("logo_drawn_on")
def _logo_drawn_on(interp, args, kwargs, node):
    """the single logomaker.Logo call of the function drew matrix m on axes ax"""
    m, ax = args
    calls = [e for e in _effects(interp) if e[1] == "Logo"]
    if len(calls) != 1:
        return VBool(False)
    e = calls[0]
    same_ax = e[0] is ax or (isinstance(e[0], VObj) and isinstance(ax, VObj) and e[0].term is not None and ax.term is not None and z3.eq(e[0].term, ax.term))
    return VBool(bool(e[2]) and e[2][0] is m and same_ax)


@S.spec("new_axes")
def _new_axes(interp, args, kwargs, node):
    return VObj("Axes", z3.Const("new_axes", OBJ))


# ---- labels_to_colors_tableau: matplotlib's tab20 colours cycled over the labels ----------------------------------------------
E.SUBMODULES.update({"matplotlib.pyplot.cm", "matplotlib.pyplot.cm.tab20"})


def _tab20():
    cols = []
    for j in range(20):
        cols.append(VObj("colour", z3.Const(f"tab20[{j}]", OBJ)))
    return VTuple(cols)


E.CONSTANTS["matplotlib.pyplot.cm.tab20.colors"] = _tab20


@extern("matplotlib.pyplot.cycler")
def _cycler(interp, args, kwargs, node):
    """plt.cycler(c=colours)() : an endless iterator of {'c': colour} dicts cycling through the colours in order"""
    c = kwargs.get("c")
    items = interp.concrete_iter(c) if c is not None else None
    if args or items is None or set(kwargs.keys()) != {"c"} or not items:
        raise Unsupported("plt.cycler form")
    o = VObj("Cycler")
    o.colors = list(items)
    ctx = interp.ctx
    for x in o.colors:
        ctx.assume(E._arg_term(interp, x) != _black(interp), "extern:matplotlib's tab20 colours are (r, g, b) tuples, none of them the list [0, 0, 0]")
    return o


@method("Cycler", "__call__")
def _cycler_call(interp, sv, args, kwargs, node):
    it = VObj("CycleIter")
    it.colors = sv.colors
    return it


def _cycle_value(interp, it, j):
    """the j-th dict of the endless cycle: {'c': colours[j mod n]}"""
    n = len(it.colors)
    t = E._arg_term(interp, it.colors[-1])
    for k in range(n - 2, -1, -1):
        t = z3.If(j % n == k, E._arg_term(interp, it.colors[k]), t)
    return VDict(items=[[VStr("c"), VObj("colour", t)]])


_dict_prev2 = E.BUILTINS["dict"]


def _dict3(interp, args, kwargs, node):
    if len(args) == 1 and not kwargs and isinstance(args[0], E.VZip) and len(args[0].its) == 2 and isinstance(args[0].its[1], VObj) \
            and args[0].its[1].tag == "CycleIter":
        ks, it = args[0].its
        vk = E.ordered_view(interp, ks, node)
        if vk is not None and isinstance(getattr(ks.content, "elem_kind", None), T_StrT):
            ctx = interp.ctx
            n = vk[0]
            pos = ctx.fresh_fun("key_pos", z3.StringSort(), z3.IntSort())
            j = z3.Int("j!dz")
            kat = lambda q: vk[1](q).term
            ctx.assume(z3.ForAll([j], z3.Implies(z3.And(0 <= j, j < n), pos(kat(j)) == j), patterns=[kat(j)]),
                       "python:dict(zip(keys, values)) with pairwise distinct keys maps keys[j] to values[j]")
            i, i2 = z3.Int("i!dz"), z3.Int("i2!dz")
            if not interp.spec_mode:
                short = (interp.current_qualname or "").replace("pyrepseq.", "")
                ctx.oblige(f"{short}/call-pre[dict(zip(...)): keys pairwise distinct]@L{getattr(node, 'lineno', '?')}",
                           z3.ForAll([i, i2], z3.Implies(z3.And(0 <= i, i < i2, i2 < n), kat(i) != kat(i2))), kind="call-pre",
                           line=getattr(node, "lineno", None))
            d = VDict(dom=lambda k: z3.And(0 <= pos(k.term), pos(k.term) < n, kat(pos(k.term)) == k.term),
                      get=lambda k: _cycle_value(interp, it, pos(k.term)), key_kind=T_Str, val_kind=None)
            return interp.born(d)
    return _dict_prev2(interp, args, kwargs, node)


E.BUILTINS["dict"] = _dict3
