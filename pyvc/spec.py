"""Specification vocabulary (symbolic reading) and the loop rules that need side-car help.

Every function in SPEC has an executable twin of the same name in replay/specref.py, so that a
contract clause is one source with two readings (solver / concrete evaluation on replays).
"""
import ast
import z3
from .values import *
from . import types as T
from .ctx import PathAbort, explore_sub

SPEC = {}


def spec(name, override=False):
    def deco(f):
        if name in SPEC and not override:
            raise RuntimeError(f"spec function {name!r} is defined twice")
        SPEC[name] = f
        return f
    return deco


def B(interp, v, node=None):
    return interp.as_bool_term(v, node)


# ----------------------------------------------------------------------------- logic

@spec("implies")
def _implies(interp, args, kwargs, node):
    return VBool(z3.Implies(B(interp, args[0]), B(interp, args[1])))


@spec("iff")
def _iff(interp, args, kwargs, node):
    return VBool(B(interp, args[0]) == B(interp, args[1]))


@spec("ite")
def _ite(interp, args, kwargs, node):
    return interp.v_ite(B(interp, args[0]), args[1], args[2], node)


@spec("isnan")
def _isnan(interp, args, kwargs, node):
    return VBool(isinstance(args[0], VNan))


@spec("isinf")
def _isinf(interp, args, kwargs, node):
    return VBool(isinstance(args[0], VInf))


@spec("is_none")
def _is_none(interp, args, kwargs, node):
    return VBool(isinstance(args[0], VNone))


@spec("isreal")
def _isreal(interp, args, kwargs, node):
    return VBool(isinstance(args[0], (VInt, VReal)))


@spec("close")
def _close(interp, args, kwargs, node):
    """numeric equality (exact over the reals; the harness compares with relative tolerance)"""
    a, b = args
    if isinstance(a, VNan) or isinstance(b, VNan):
        return VBool(isinstance(a, VNan) and isinstance(b, VNan))
    return VBool(interp.veq(a, b, node))


def _lambda_quant(interp, args, node, is_forall, kwargs=None):
    """forall(T1, T2, ..., lambda x1, x2, ...: body)"""
    lam = args[-1]
    tys = args[:-1]
    if not (isinstance(lam, VFunc) and lam.kind == "closure" and isinstance(lam.node, ast.Lambda)):
        raise Unsupported("forall/exists needs a lambda")
    names = [a.arg for a in lam.node.args.args]
    bvs, vals = [], []
    for nm, ty in zip(names, tys):
        if isinstance(ty, VFunc) and ty.kind == "spec":
            ty = SPEC[ty.name](interp, [], {}, node)
        t = ty.data if isinstance(ty, VFunc) and ty.kind == "spectype" else None
        if t is None:
            raise Unsupported("forall/exists: type expected")
        c = interp.ctx.fresh(nm, t.sort())
        bvs.append(c)
        vals.append(t.wrap(c))
    body = B(interp, interp.call(lam, vals, {}, node), node)
    if is_forall:
        return VBool(z3.ForAll(bvs, body))
    ex = z3.Exists(bvs, body)
    hints = kwargs.get("hints") if kwargs else None
    if hints is not None:
        # exists x. P(x) is equivalent to P(h1) \/ ... \/ exists x. P(x): explicit instances help the solver
        insts = []
        for h in interp.iter_concrete(hints):
            hv = list(h.items) if isinstance(h, VTuple) else [h]
            insts.append(B(interp, interp.call(lam, hv, {}, node), node))
        return VBool(z3.Or(*(insts + [ex])))
    return VBool(ex)


@spec("forall")
def _forall(interp, args, kwargs, node):
    return _lambda_quant(interp, args, node, True)


@spec("exists")
def _exists(interp, args, kwargs, node):
    return _lambda_quant(interp, args, node, False, kwargs)


for _n, _t in (("Int", T.Int), ("Str", T.Str), ("Real", T.Real), ("Bool", T.Bool), ("Nat", T.Nat)):
    SPEC["T" + _n] = (lambda t: (lambda interp, args, kwargs, node: VFunc("spectype", "T", data=t)))(_t)


def spectype_value(t):
    return VFunc("spectype", "T", data=t)


# ----------------------------------------------------------------------------- bags / sets

def bag_of(interp, v):
    if isinstance(v, (VList, VSet)) and getattr(v, "pred", None) is None:
        return interp.to_bag(v.content)
    if isinstance(v, VTuple):
        return CompBag([Site("t", [], z3.BoolVal(True), x) for x in v.items])
    raise Unsupported(f"bag view of {v!r}")


def bag_contains(interp, bag, item):
    parts = []
    for s in bag.sites:
        s2 = s.rename(interp.ctx)
        body = s2.exists_body(interp.veq(s2.elem, item))
        parts.append(z3.Exists(s2.bvars, body) if s2.bvars else body)
    return z3.Or(*parts) if parts else z3.BoolVal(False)


def member(interp, container, item):
    return interp.contains(container, item)


@spec("forall_in")
def _forall_in(interp, args, kwargs, node):
    """forall_in(collection, lambda e: P(e))"""
    coll, lam = args
    bag = bag_of(interp, coll) if not (isinstance(coll, VSet) and coll.pred is not None) else None
    if bag is None:
        ek = coll.elem_kind
        x = interp.ctx.fresh("e", ek.sort())
        xv = ek.wrap(x)
        return VBool(z3.ForAll([x], z3.Implies(coll.pred(xv), B(interp, interp.call(lam, [xv], {}, node)))))
    parts = []
    for s in bag.sites:
        s2 = s.rename(interp.ctx)
        interp.ctx.spec_hyps.append(s2.full_cond())
        try:
            body = z3.Implies(s2.full_cond(), B(interp, interp.call(lam, [s2.elem], {}, node)))
        finally:
            interp.ctx.spec_hyps.pop()
        parts.append(z3.ForAll(s2.all_vars(), body) if s2.all_vars() else body)
    return VBool(z3.And(*parts) if parts else z3.BoolVal(True))


@spec("exists_in")
def _exists_in(interp, args, kwargs, node):
    coll, lam = args
    bag = bag_of(interp, coll)
    parts = []
    for s in bag.sites:
        s2 = s.rename(interp.ctx)
        p = B(interp, interp.call(lam, [s2.elem], {}, node))
        body = s2.exists_body(p)
        parts.append(z3.Exists(s2.bvars, body) if s2.bvars else body)
    return VBool(z3.Or(*parts) if parts else z3.BoolVal(False))


@spec("no_duplicates")
def _no_duplicates(interp, args, kwargs, node):
    """Pairwise distinctness of the emitted elements of a bag (two alpha-renamed copies per pair of
    sites; same site: equal elements force equal generator variables)."""
    if (isinstance(args[0], VSet) or getattr(args[0], "setlike", False)):
        # a set (or a list made from one) holds each distinct element once: duplicates by key exist
        # iff two different elements share a key
        if len(args) == 1:
            return VBool(True)
        return _functional_on(interp, [args[0], args[1]], {}, node)
    bag = bag_of(interp, args[0])
    key = args[1] if len(args) > 1 else None
    parts = []
    sites = bag.sites
    for i, s in enumerate(sites):
        for j, t in enumerate(sites):
            if j < i:
                continue
            a, b = s.rename(interp.ctx), t.rename(interp.ctx)
            ea = interp.call(key, [a.elem], {}, node) if key else a.elem
            eb = interp.call(key, [b.elem], {}, node) if key else b.elem
            same = interp.veq(ea, eb, node)
            if i == j:
                if not a.bvars:
                    continue
                eqv = z3.And(*[_bv_eq(x, y, a, interp) for x, y in zip(a.bvars, b.bvars)])
                body = z3.Implies(z3.And(a.full_cond(), b.full_cond(), same), eqv)
            else:
                body = z3.Implies(z3.And(a.full_cond(), b.full_cond()), z3.Not(same))
            vs = a.all_vars() + b.all_vars()
            parts.append(z3.ForAll(vs, body) if vs else body)
    return VBool(z3.And(*parts) if parts else z3.BoolVal(True))


def _bv_eq(x, y, site, interp):
    if z3.is_array(x):
        # index tuples: equal as far as they are used is expressed by the site through its elem;
        # plain extensional equality is stronger than needed but sound for distinctness claims
        return x == y
    return x == y


def card(interp, v):
    """Cardinality of a set / len of a bag as an uninterpreted function of its defining sites.
    Only congruence-level facts are available (card >= 0); equalities of cards follow from
    extensional equality of the underlying z3 set terms where those exist."""
    st = set_term(interp, v)
    if st is not None:
        f = z3.Function("card", st.sort(), z3.IntSort())
        c = f(st)
        interp.ctx.assume(c >= 0)
        e = z3.Const("e!c", st.sort().domain())
        interp.ctx.assume((c == 0) == (st == z3.EmptySet(st.sort().domain())))
        return c
    raise Unsupported(f"cardinality of {v!r}")


def set_term(interp, v):
    zs = getattr(v, "zset", None)
    if zs is not None:
        return zs
    zb = getattr(v, "zset_builder", None)
    if zb is not None:
        return zb()
    if isinstance(v, VSet):
        # a set given by predicate / comprehension sites: name it by a fresh set constant with its membership as defining axiom
        # (a snapshot of the set's CURRENT content; not cached, the object may be mutated later)
        ek = getattr(v, "elem_kind", None)
        if ek is None and isinstance(v.content, CompBag) and v.content.sites:
            e0 = v.content.sites[0].elem
            ek = T.Str if isinstance(e0, VStr) else T.Int if isinstance(e0, VInt) else None
        if ek is None and isinstance(v.content, ConcreteSeq) and v.content.items:
            e0 = v.content.items[0]
            ek = T.Str if isinstance(e0, VStr) else T.Int if isinstance(e0, VInt) else None
        if ek is None:
            return None
        ctx = interp.ctx
        zs = ctx.fresh("set", z3.SetSort(ek.sort()))
        x = z3.Const("x!set", ek.sort())
        mem = interp.contains(v, ek.wrap(x))
        mem = mem.term if isinstance(mem, VBool) else mem
        ctx.assume(z3.ForAll([x], z3.IsMember(x, zs) == mem, patterns=[z3.IsMember(x, zs)]))
        return zs
    return None


def set_eq(interp, a, b):
    ta, tb = set_term(interp, a), set_term(interp, b)
    if ta is not None and tb is not None:
        return ta == tb
    # extensional equality via membership
    ek = getattr(a, "elem_kind", None) or getattr(b, "elem_kind", None)
    if ek is None:
        raise Unsupported("set equality without element kind")
    x = interp.ctx.fresh("e", ek.sort())
    xv = ek.wrap(x)
    return z3.ForAll([x], interp.contains(a, xv) == interp.contains(b, xv))


def sym_set_op(interp, opn, a, b):
    ta, tb = set_term(interp, a), set_term(interp, b)
    if ta is not None and tb is not None:
        r = VSet(pred=None)
        # membership is stated element-wise (no set-algebra term: cvc5 does not read z3's set operators); the set TERM is only built
        # when a cardinality is asked for (set_term)
        ma = lambda x: z3.IsMember(x.term, ta)
        mb = lambda x: z3.IsMember(x.term, tb)
        r.pred = {"BitAnd": (lambda x: z3.And(ma(x), mb(x))), "BitOr": (lambda x: z3.Or(ma(x), mb(x))),
                  "Sub": (lambda x: z3.And(ma(x), z3.Not(mb(x))))}[opn]
        r.zset_builder = lambda: {"BitAnd": z3.SetIntersect, "BitOr": z3.SetUnion, "Sub": z3.SetDifference}[opn](ta, tb)
        r.elem_kind = getattr(a, "elem_kind", None)
        return r
    pa = lambda x: interp.contains(a, x)
    pb = lambda x: interp.contains(b, x)
    if opn == "BitAnd":
        p = lambda x: z3.And(pa(x), pb(x))
    elif opn == "BitOr":
        p = lambda x: z3.Or(pa(x), pb(x))
    else:
        p = lambda x: z3.And(pa(x), z3.Not(pb(x)))
    r = VSet(pred=p)
    r.elem_kind = getattr(a, "elem_kind", None) or getattr(b, "elem_kind", None)
    return r


def set_remove(interp, s, x, node, strict):
    from .symex import PyRaise
    interp.check_mutable_target(s, node, ".remove")
    if strict and not interp.spec_mode:
        if not interp.ctx.decide(interp.contains(s, x), getattr(node, "lineno", "")):
            raise PyRaise("KeyError", "remove", getattr(node, "lineno", None))
    if s.pred is None and isinstance(s.content, ConcreteSeq):
        keep = []
        for y in s.content.items:
            c = concrete_bool(interp.veq(x, y))
            if c is None:
                keep = None
                break
            if not c:
                keep.append(y)
        if keep is not None:
            s.content = ConcreteSeq(keep)
            return
    old = (lambda s0: (lambda y: interp.contains(s0, y)))(VSet(content=s.content, pred=s.pred))
    ek = getattr(s, "elem_kind", None)
    s.pred = lambda y: z3.And(old(y), z3.Not(interp.veq(x, y)))
    s.content = None
    if ek is None and isinstance(x, VStr):
        s.elem_kind = T.Str
    elif ek is None and isinstance(x, VInt):
        s.elem_kind = T.Int


def dict_emit(interp, d, site):
    raise Unsupported("accumulating into a dict from a symbolic loop (needs an invariant)")


def class_mro(interp, cls):
    out = []
    stack = [cls]
    from .symex import Env, PyRaise
    while stack:
        c = stack.pop(0)
        out.append(c.name)
        for b in c.node.bases:
            try:
                bv = interp.ev(b, Env(c.data["module"]))
            except (PyRaise, Unsupported):
                continue
            if isinstance(bv, VFunc) and bv.kind == "class":
                stack.append(bv)
            elif isinstance(bv, VType):
                out.append(bv.name)
    return out


def is_pure_callable(interp, f):
    return isinstance(f, VFunc) and f.kind in ("uf", "extern", "closure", "repo", "method")


def apply_uf(interp, fv, args, node):
    ft = fv.data["type"]
    f = fv.data["fun"]
    ts = []
    for a, at in zip(args, list(ft.arg_types) + list(ft.kw.values())):
        if isinstance(at, T.StrT) and isinstance(a, VObj) and a.tag == "anyelem":
            ts.append(a.sterm)      # only reached after the element was checked to be a string
            continue
        if isinstance(at, T.StrT) and not isinstance(a, VStr):
            raise Unsupported(f"uninterpreted callable applied to {a!r}")
        ts.append(a.term if not isinstance(at, T.RealT) else to_real(a))
    return ft.returns.wrap(f(*ts))


def sorted_of(interp, v, kwargs, node):
    """sorted(iterable, key=...) is a permutation of its elements: as a bag it is the same collection
    (the order itself is not modelled: indexing / slicing the result is rejected).
    Exception: sorted(<set of strings>) without key / reverse is modelled as an ORDERED sequence: strictly increasing in code-point
    order, holding exactly the elements of the set."""
    if isinstance(v, VSet) and not kwargs and getattr(v, "zset", None) is not None and isinstance(getattr(v, "elem_kind", None), T.StrT):
        ctx = interp.ctx
        zs = v.zset
        if not hasattr(ctx, "memo"):
            ctx.memo = {}
        mkey = ("sorted", z3.simplify(zs).sexpr())
        if mkey in ctx.memo:
            m_, at_ = ctx.memo[mkey]
            r = VList(SymSeq(m_, lambda k: VStr(at_(k)), T.Str), "list")
            return interp.born(r)
        m = ctx.fresh("nsorted", z3.IntSort())
        at = ctx.fresh_fun("sorted_at", z3.IntSort(), z3.StringSort())
        pos = ctx.fresh_fun("sorted_pos", z3.StringSort(), z3.IntSort())
        a, b = z3.Int("a!so"), z3.Int("b!so")
        y = z3.Const("y!so", z3.StringSort())
        lab = "python:sorted(set of str) lists exactly the elements of the set in strictly increasing code-point order"
        ctx.assume(m >= 0, lab)
        ctx.assume(z3.ForAll([a, b], z3.Implies(z3.And(0 <= a, a < b, b < m), at(a) < at(b))), lab)
        ctx.assume(z3.ForAll([a], z3.Implies(z3.And(0 <= a, a < m), z3.And(z3.IsMember(at(a), zs), pos(at(a)) == a)), patterns=[at(a)]), lab)
        ctx.assume(z3.ForAll([y], z3.Implies(z3.IsMember(y, zs), z3.And(0 <= pos(y), pos(y) < m, at(pos(y)) == y)),
                             patterns=[pos(y), z3.IsMember(y, zs)]), lab)
        # order isomorphism, stated over positions (integer reasoning instead of transitivity of the string order)
        u, w = z3.Const("u!so", z3.StringSort()), z3.Const("w!so", z3.StringSort())
        ctx.assume(z3.ForAll([u, w], z3.Implies(z3.And(z3.IsMember(u, zs), z3.IsMember(w, zs)), (u < w) == (pos(u) < pos(w))),
                             patterns=[z3.MultiPattern(pos(u), pos(w))]), lab)
        ctx.memo[mkey] = (m, at)
        r = VList(SymSeq(m, lambda k: VStr(at(k)), T.Str), "list")
        r.sorted_of_set = (zs, at, pos)
        return interp.born(r)
    if isinstance(v, (VList, VSet)) and getattr(v, "pred", None) is None and v.content is not None:
        bag = interp.to_bag(v.content)
        interp.ctx.assumed.add("python:sorted() returns a permutation of its argument (order not modelled)")
        r = VList(CompBag(list(bag.sites)), "list")
        r.setlike = isinstance(v, VSet) or getattr(v, "setlike", False)
        return interp.born(r)
    raise Unsupported("sorted() of a symbolic collection")


def join_sym(interp, sep, it, node):
    raise Unsupported("str.join over a symbolic sequence (use a loop invariant with `joined`)")


def list_index(interp, lst, x, node):
    """lst.index(x) on a symbolic list: the FIRST position holding x (ValueError when there is none).  One uninterpreted function per
    (list, content version) with its defining axiom."""
    if not (isinstance(lst, VList) and isinstance(lst.content, SymSeq) and isinstance(x, (VStr, VInt))):
        raise Unsupported("list.index on this kind of list")
    ctx = interp.ctx
    if not hasattr(ctx, "memo"):
        ctx.memo = {}
    cont = lst.content
    key = ("firstpos", getattr(lst, "sid", None) or id(lst), id(cont))
    xs = x.term.sort()
    if key not in ctx.memo:
        n_ = sum(1 for k_ in ctx.memo if isinstance(k_, tuple) and k_ and k_[0] == "firstpos")
        f = z3.Function(f"firstpos[{getattr(lst, 'sid', 'list')}]" + (f"#{n_}" if n_ else ""), xs, z3.IntSort())
        y = z3.Const("y!fp", xs)
        k, q = z3.Int("k!fp"), z3.Int("q!fp")
        inl = z3.Exists([k], z3.And(0 <= k, k < cont.length, cont.at(k).term == y))
        ctx.assume(z3.ForAll([y], z3.Implies(inl, z3.And(0 <= f(y), f(y) < cont.length, cont.at(f(y)).term == y,
                                                         z3.ForAll([q], z3.Implies(z3.And(0 <= q, q < f(y)), cont.at(q).term != y)))),
                             patterns=[f(y)]), "python:list.index(x) is the first position holding x")
        ctx.assume(z3.ForAll([k], z3.Implies(z3.And(0 <= k, k < cont.length), f(cont.at(k).term) <= k), patterns=[cont.at(k).term]))
        ctx.memo[key] = f
    f = ctx.memo[key]
    if not interp.spec_mode:
        k = z3.Int("k!fp")
        inl = z3.Exists([k], z3.And(0 <= k, k < cont.length, cont.at(k).term == x.term))
        if not ctx.decide(inl, getattr(node, "lineno", "")):
            from .symex import PyRaise
            raise PyRaise("ValueError", "x is not in list", getattr(node, "lineno", None))
    return VInt(f(x.term))


# ----------------------------------------------------------------------------- loop rules needing side-car help

def _eval_kw(interp, rule, key, env, default=None):
    if key not in rule.kw:
        return default
    return rule.kw[key]


def _havoc(interp, rule, env, label):
    """Havoc the loop-carried state named in rule.kw['modifies'] = {"name or attr path": TypeExpr}.
    Returns dict name -> pre-loop snapshot Value."""
    c = interp.current_contract
    mods = rule.kw.get("modifies")
    pre = {}
    if mods is None:
        return pre
    if not isinstance(mods, ast.Dict):
        raise Unsupported("loop(..., modifies={...}) must be a dict literal")
    for k, texpr in zip(mods.keys, mods.values):
        path = ast.literal_eval(k)
        ty = c.type_of(texpr)
        base, _, attr = path.rpartition(".")
        fresh = interp.born(ty.fresh(f"{path.replace('.', '_')}@{label}", interp.ctx))
        if base:
            obj = interp.lookup(base, env)
            pre[path] = obj.attrs.get(attr)
            obj.attrs[attr] = fresh
        else:
            try:
                pre[path] = interp.lookup(path, env)
            except Exception:
                pre[path] = None
            env.store(path, fresh)
    return pre


def _snapshot(v):
    """Immutable snapshot of a value for `old` references."""
    if isinstance(v, VList):
        c = v.content
        if isinstance(c, ConcreteSeq):
            r = VList(ConcreteSeq(list(c.items)), v.kind)
        elif isinstance(c, SymSeq):
            r = VList(SymSeq(c.length, c.at, c.elem_kind), v.kind)
        else:
            r = VList(CompBag(list(c.sites)), v.kind)
        return r
    if isinstance(v, VDict):
        if v.items is not None:
            return VDict(items=[[k, x] for k, x in v.items])
        return VDict(dom=v.dom, get=v.get, key_kind=v.key_kind, val_kind=v.val_kind)
    if isinstance(v, VSet):
        r = VSet(content=ConcreteSeq(list(v.content.items)) if isinstance(v.content, ConcreteSeq) else v.content, pred=v.pred)
        if hasattr(v, "elem_kind"):
            r.elem_kind = v.elem_kind
        return r
    return v


def _inv_env(interp, env, extra):
    from .symex import Env
    e = Env(env.module, parent=env, func=env.func)
    e.vars.update(extra)
    return e


def _inv_terms(interp, rule, env, extra):
    c = interp.current_contract
    invs = rule.kw.get("inv")
    if invs is None:
        return []
    exprs = invs.elts if isinstance(invs, (ast.List, ast.Tuple)) else [invs]
    e = _inv_env(interp, env, extra)
    out = []
    for i, ex in enumerate(exprs):
        v = c.eval_spec(interp, ex, e)
        out.append((i + 1, B(interp, v)))
    return out


def loop_inv(interp, target, it, body, env, node, label, rule):
    """R-inv for `for`: ordered iterables use the ghost index `_i` (number of completed
    iterations); unordered ones (sets, bags: R-set) use the ghost set `_done`."""
    from .symex import ContinueSig, BreakSig, ReturnSig, PyRaise
    from . import externs
    ctx = interp.ctx
    short = interp.current_qualname.replace("pyrepseq.", "")
    ov = externs.ordered_view(interp, it, node)
    # snapshots of the state at loop entry, available to invariants as <name>_0
    pre_snap = {}
    mods = rule.kw.get("modifies")
    if isinstance(mods, ast.Dict):
        for k in mods.keys:
            path = ast.literal_eval(k)
            try:
                base, _, attr = path.rpartition(".")
                cur = interp.lookup(base, env).attrs.get(attr) if base else interp.lookup(path, env)
            except Exception:
                cur = None
            if cur is not None:
                pre_snap[path.replace(".", "_") + "_0"] = _snapshot(cur)
    if ov is not None:
        n, at = ov
        ghost0 = {"_i": VInt(0), "_n": VInt(n)}
        ghost0.update(pre_snap)
        # 1. initiation
        for i, t in _inv_terms(interp, rule, env, ghost0):
            ctx.oblige(f"{short}/inv[{label}.{i}]/init", t, kind="inv-init", line=node.lineno, assume_after=False)
        # 2. fork: arbitrary iteration (preservation) vs exit
        which = ctx.choose([z3.BoolVal(True), z3.BoolVal(True)], f"inv@{label}")
        _havoc(interp, rule, env, label)
        if which == 0:
            k = ctx.fresh("_i", z3.IntSort())
            ctx.assume(z3.And(k >= 0, k < n))
            g = {"_i": VInt(k), "_n": VInt(n)}
            g.update(pre_snap)
            for i, t in _inv_terms(interp, rule, env, g):
                ctx.assume(t)
            interp.assign(target, at(k), env, node)
            try:
                body(env)
            except ContinueSig:
                pass
            except BreakSig:
                raise Unsupported(f"{short}:{label}: break in an invariant loop")
            g2 = {"_i": VInt(k + 1), "_n": VInt(n)}
            g2.update(pre_snap)
            for i, t in _inv_terms(interp, rule, env, g2):
                ctx.oblige(f"{short}/inv[{label}.{i}]/preserve", t, kind="inv-preserve", line=node.lineno, assume_after=False)
            raise PathAbort()
        g = {"_i": VInt(n), "_n": VInt(n)}
        g.update(pre_snap)
        for i, t in _inv_terms(interp, rule, env, g):
            ctx.assume(t)
        return
    # ---- unordered (R-set)
    opts_probe = None
    ek = getattr(it, "elem_kind", None)
    if ek is None:
        ekx = rule.kw.get("elem")
        if ekx is None:
            raise Unsupported(f"{short}:{label}: unordered invariant loop needs elem=<type>")
        ek = interp.current_contract.type_of(ekx)
    mem = lambda x: interp.contains(it, x)
    empty = VSet(pred=lambda x: z3.BoolVal(False))
    empty.elem_kind = ek
    g0 = {"_done": empty}
    g0.update(pre_snap)
    for i, t in _inv_terms(interp, rule, env, g0):
        ctx.oblige(f"{short}/inv[{label}.{i}]/init", t, kind="inv-init", line=node.lineno, assume_after=False)
    which = ctx.choose([z3.BoolVal(True), z3.BoolVal(True)], f"inv@{label}")
    _havoc(interp, rule, env, label)
    if which == 0:
        P = ctx.fresh_fun("_done", ek.sort(), z3.BoolSort())
        y = z3.Const("y!d", ek.sort())
        ctx.assume(z3.ForAll([y], z3.Implies(P(y), mem(ek.wrap(y)))))
        done = VSet(pred=lambda x: P(x.term))
        done.elem_kind = ek
        g = {"_done": done}
        g.update(pre_snap)
        for i, t in _inv_terms(interp, rule, env, g):
            ctx.assume(t)
        x = ctx.fresh("_x", ek.sort())
        xv = ek.wrap(x)
        ctx.assume(z3.And(mem(xv), z3.Not(P(x))))
        interp.assign(target, xv, env, node)
        try:
            body(env)
        except ContinueSig:
            pass
        done2 = VSet(pred=lambda z: z3.Or(P(z.term), z.term == x))
        done2.elem_kind = ek
        g2 = {"_done": done2}
        g2.update(pre_snap)
        for i, t in _inv_terms(interp, rule, env, g2):
            ctx.oblige(f"{short}/inv[{label}.{i}]/preserve", t, kind="inv-preserve", line=node.lineno, assume_after=False)
        raise PathAbort()
    full = VSet(pred=mem)
    full.elem_kind = ek
    g = {"_done": full}
    g.update(pre_snap)
    for i, t in _inv_terms(interp, rule, env, g):
        ctx.assume(t)


def while_inv(interp, node, env, label, rule):
    from .symex import ContinueSig, BreakSig
    ctx = interp.ctx
    short = interp.current_qualname.replace("pyrepseq.", "")
    pre_snap = {}
    for i, t in _inv_terms(interp, rule, env, pre_snap):
        ctx.oblige(f"{short}/inv[{label}.{i}]/init", t, kind="inv-init", line=node.lineno, assume_after=False)
    which = ctx.choose([z3.BoolVal(True), z3.BoolVal(True)], f"inv@{label}")
    _havoc(interp, rule, env, label)
    for i, t in _inv_terms(interp, rule, env, pre_snap):
        ctx.assume(t)
    guard = interp.truth(interp.ev(node.test, env), node)
    guard = z3.BoolVal(guard) if isinstance(guard, bool) else guard
    if which == 0:
        ctx.assume(guard)
        var0 = None
        vx = rule.kw.get("variant")
        c = interp.current_contract
        if vx is not None:
            var0 = to_int(c.eval_spec(interp, vx, env))
        try:
            interp.exec_block(node.body, env)
        except ContinueSig:
            pass
        except BreakSig:
            raise Unsupported("break in invariant while")
        for i, t in _inv_terms(interp, rule, env, pre_snap):
            ctx.oblige(f"{short}/inv[{label}.{i}]/preserve", t, kind="inv-preserve", line=node.lineno, assume_after=False)
        if vx is not None:
            var1 = to_int(c.eval_spec(interp, vx, env))
            ctx.oblige(f"{short}/variant[{label}]", z3.And(var0 >= 0, var1 < var0), kind="variant", line=node.lineno)
        raise PathAbort()
    ctx.assume(z3.Not(guard))


def loop_search(interp, target, it, body, env, node, label, rule):
    """R-search: the body has no effect on outer state except leaving the function (return / raise).
    Sub-explore the body for an arbitrary element; then either some element exits (ordered
    iterables: the first such element) or none does."""
    from .symex import ContinueSig, BreakSig, ReturnSig, PyRaise, Env
    from . import externs
    ctx = interp.ctx
    ov = externs.ordered_view(interp, it, node)

    def run_with(optsel):
        def run():
            opts = externs.element_options(interp, it, node)
            ci = ctx.choose([z3.BoolVal(True)] * len(opts), label) if len(opts) > 1 else 0
            if not opts:
                raise PathAbort()
            bvars, cond, elem, order = opts[ci]
            ctx.assume(cond)
            e = Env(env.module, parent=env, func=env.func)
            e.globals_decl = env.globals_decl
            interp.ctx.acc_frames.append({"bvars": list(bvars), "pc_mark": len(ctx.pc), "emits": [], "label": label})
            try:
                interp.assign(target, elem, e, node)
                try:
                    body(e)
                except ContinueSig:
                    return ("fall", bvars, order, None)
                except ReturnSig as r:
                    return ("return", bvars, order, r.value)
                except PyRaise as r:
                    return ("raise", bvars, order, r)
                return ("fall", bvars, order, None)
            finally:
                fr = interp.ctx.acc_frames.pop()
                if fr["emits"]:
                    raise Unsupported(f"{label}: search loop body accumulates")
        return run
    subs = explore_sub(ctx, run_with(None))
    falls = []
    exits = []
    for delta, obl, res in subs:
        kind, bvars, order, val = res
        cond = z3.And(*[t for t, _ in delta]) if delta else z3.BoolVal(True)
        if kind == "fall":
            falls.append((bvars, cond))
        else:
            exits.append((bvars, cond, order, kind, val))
    # "no element exits":  forall elements, some fall-through path condition holds.
    # Path conditions of sub-runs partition the element space, so no-exit == not exists exit.
    def exit_formula(bv, cond):
        return z3.Exists(bv, cond) if bv else cond
    none_exit = z3.And(*[z3.Not(exit_formula(bv, c)) for bv, c, _, _, _ in exits]) if exits else z3.BoolVal(True)
    options = [none_exit] + [z3.BoolVal(True)] * len(exits)
    ch = ctx.choose(options, f"search@{label}")
    if ch == 0:
        return
    bv, cond, order, kind, val = exits[ch - 1]
    ctx.assume(cond)
    if kind == "return":
        raise ReturnSig(val)
    raise val


# ----------------------------------------------------------------------------- numeric vectors

@spec("vsum")
def _vsum(interp, args, kwargs, node):
    from . import vec
    return vec.vec_sum(interp, args[0])


@spec("post")
def _post(interp, args, kwargs, node):
    """post("qualname", args...) : the value the named function's contract says it returns"""
    q = concrete_str(args[0])
    c = interp.registry.get(q)
    if c is None or c.returns_expr is None:
        raise Unsupported(f"post({q}): no functional contract")
    names = [a.arg for a in c.fnode.args.posonlyargs + c.fnode.args.args + c.fnode.args.kwonlyargs]
    bound = dict(zip(names, args[1:]))
    bound.update(kwargs)
    env = c.spec_env(interp, bound)
    return c.eval_spec(interp, c.returns_expr.expr, env)


@spec("isbool")
def _isbool(interp, args, kwargs, node):
    return VBool(isinstance(args[0], VBool))


@spec("isstr")
def _isstr(interp, args, kwargs, node):
    return VBool(isinstance(args[0], VStr))


@spec("isnumber")
def _isnumber(interp, args, kwargs, node):
    return VBool(isinstance(args[0], (VInt, VReal, VNan, VInf)) and not isinstance(args[0], VBool))


@spec("all_chars_in")
def _all_chars_in(interp, args, kwargs, node):
    s, alpha = args
    k = z3.Int("k!ac")
    letters = concrete_str(alpha)
    ch = z3.SubString(s.term, k, 1)
    return VBool(z3.ForAll([k], z3.Implies(z3.And(k >= 0, k < z3.Length(s.term)),
                                           z3.Or(*[z3.StringVal(c) == ch for c in letters]))))


@spec("is_list")
def _is_list(interp, args, kwargs, node):
    return VBool(isinstance(args[0], VList) and args[0].kind == "list")


@spec("same_elements")
def _same_elements(interp, args, kwargs, node):
    """the two ordered collections hold the same elements position by position (under some enumeration of a set)"""
    a, b = args
    if a is b:
        return VBool(True)
    from . import externs
    va, vb = externs.ordered_view(interp, a, node), externs.ordered_view(interp, b, node)
    if va is None or vb is None:
        raise Unsupported("same_elements on unordered collections")
    k = interp.ctx.fresh("k", z3.IntSort())
    return VBool(z3.And(va[0] == vb[0], z3.ForAll([k], z3.Implies(z3.And(k >= 0, k < va[0]),
                                                                   interp.veq(va[1](k), vb[1](k))))))


# ----------------------------------------------------------------------------- membership with witness hints

def open_exists(formula, hint_tuples, depth=0):
    """Rewrite every `exists xs. B` whose variable sorts match a hint tuple into `B[hint/xs] \/ exists xs. B`
    (an equivalent formula: the explicit instance only helps the solver)."""
    if depth > 40 or not hint_tuples:
        return formula
    if z3.is_quantifier(formula):
        if formula.is_exists():
            n = formula.num_vars()
            sorts = [formula.var_sort(i) for i in range(n)]
            insts = []
            for ht in hint_tuples:
                if len(ht) == n and all(h.sort() == so for h, so in zip(ht, sorts)):
                    insts.append(z3.substitute_vars(formula.body(), *reversed(ht)))
            if insts:
                return z3.Or(*(insts + [formula]))
        return formula
    if z3.is_and(formula) or z3.is_or(formula):
        ch = [open_exists(c, hint_tuples, depth + 1) for c in formula.children()]
        return z3.And(*ch) if z3.is_and(formula) else z3.Or(*ch)
    if z3.is_not(formula) and z3.is_not(formula.children()[0]):
        return open_exists(formula.children()[0].children()[0], hint_tuples, depth + 1)
    return formula


@spec("member")
def _member(interp, args, kwargs, node):
    """member(collection, y, h1, h2, ...): y is produced by some emitting site of the collection.
    With hints, the site's generator variables are instantiated positionally by the hint terms
    (quantifier-free; sound: an explicit witness); without hints the existential is left to the solver."""
    coll, y = args[0], args[1]
    hints = args[2:]
    bag = bag_of(interp, coll)
    if not hints:
        return VBool(bag_contains(interp, bag, y))
    parts = []
    for s in bag.sites:
        if len(s.bvars) != len(hints):
            continue
        sub = []
        ok = True
        for bv, h in zip(s.bvars, hints):
            ht = getattr(h, "term", None)
            if ht is None or ht.sort() != bv.sort():
                ok = False
                break
            sub.append((bv, ht))
        if not ok:
            continue
        s2 = s.rename(interp.ctx) if s.hvars else s
        sub = [(bv2, ht) for (bv2, (_, ht)) in zip(s2.bvars, sub)]
        inst = Site(s2.label, [], z3.substitute(s2.cond, *sub), vsubst(s2.elem, sub), s2.hvars,
                    z3.substitute(s2.cond_h, *sub), z3.substitute(s2.cond_d, *sub))
        if kwargs and "inner" in kwargs:
            tuples = []
            for h in interp.iter_concrete(kwargs["inner"]):
                hv = list(h.items) if isinstance(h, VTuple) else [h]
                tuples.append([x.term for x in hv])
            inst.cond = open_exists(inst.cond, tuples)
            inst.cond_d = open_exists(inst.cond_d, tuples)
        parts.append(inst.exists_body(interp.veq(inst.elem, y)))
    return VBool(z3.Or(*parts) if parts else z3.BoolVal(False))


@spec("delete_at")
def _delete_at(interp, args, kwargs, node):
    x, i = args
    it = to_int(i)
    return VStr(z3.Concat(z3.SubString(x.term, 0, it), z3.SubString(x.term, it + 1, z3.Length(x.term) - it - 1)))


@spec("sub_at")
def _sub_at(interp, args, kwargs, node):
    x, i, a = args
    it = to_int(i)
    return VStr(z3.Concat(z3.SubString(x.term, 0, it), a.term, z3.SubString(x.term, it + 1, z3.Length(x.term) - it - 1)))


@spec("ins_at")
def _ins_at(interp, args, kwargs, node):
    x, i, a = args
    it = to_int(i)
    return VStr(z3.Concat(z3.SubString(x.term, 0, it), a.term, z3.SubString(x.term, it, z3.Length(x.term) - it)))


@spec("char_at")
def _char_at(interp, args, kwargs, node):
    return VStr(z3.SubString(args[0].term, to_int(args[1]), 1))


def _recfun(name, sorts, rsort, build):
    """memoised z3 RecFunction (define-fun-rec)"""
    key = name
    if key in _RECFUNS:
        return _RECFUNS[key]
    f = z3.RecFunction(name, *(sorts + [rsort]))
    vs = [z3.Const(f"{name}!a{i}", s) for i, s in enumerate(sorts)]
    z3.RecAddDefinition(f, vs, build(f, *vs))
    _RECFUNS[key] = f
    return f


_RECFUNS = {}


@spec("runstart")
def _runstart(interp, args, kwargs, node):
    """first position of the run of equal letters that ends at position i of x"""
    x, i = args
    f = _recfun("runstart", [z3.StringSort(), z3.IntSort()], z3.IntSort(),
                lambda f, s, k: z3.If(z3.And(k > 0, z3.SubString(s, k, 1) == z3.SubString(s, k - 1, 1)), f(s, k - 1), k))
    return VInt(f(x.term, to_int(i)))


@spec("insstart")
def _insstart(interp, args, kwargs, node):
    """smallest insertion position giving the same string as inserting letter a at position i of x"""
    x, i, a = args
    f = _recfun("insstart", [z3.StringSort(), z3.IntSort(), z3.StringSort()], z3.IntSort(),
                lambda f, s, k, c: z3.If(z3.And(k > 0, c == z3.SubString(s, k - 1, 1)), f(s, k - 1, c), k))
    return VInt(f(x.term, to_int(i), a.term))


@spec("by_induction")
def _by_induction(interp, args, kwargs, node):
    """by_induction(lambda i: P(i)):  in a `lemma` being proved this is the induction schema
    P(0) and (forall i >= 1: P(i-1) => P(i)); where the lemma is used it is forall i >= 0: P(i)."""
    lam = args[0]
    i = interp.ctx.fresh("i_ind", z3.IntSort())
    Pi = B(interp, interp.call(lam, [VInt(i)], {}, node))
    if getattr(interp, "lemma_mode", "use") == "prove":
        P0 = B(interp, interp.call(lam, [VInt(0)], {}, node))
        Pprev = B(interp, interp.call(lam, [VInt(i - 1)], {}, node))
        return VBool(z3.And(P0, z3.ForAll([i], z3.Implies(z3.And(i >= 1, Pprev), Pi))))
    return VBool(z3.ForAll([i], z3.Implies(i >= 0, Pi)))


@spec("distinct_letters")
def _distinct_letters(interp, args, kwargs, node):
    a = args[0].term
    i, j = z3.Int("i!dl"), z3.Int("j!dl")
    return VBool(z3.ForAll([i, j], z3.Implies(z3.And(0 <= i, i < j, j < z3.Length(a)),
                                              z3.SubString(a, i, 1) != z3.SubString(a, j, 1))))


@spec("same_object")
def _same_object(interp, args, kwargs, node):
    return VBool(args[0] is args[1])


# ----------------------------------------------------------------------------- search results

@spec("search_output")
def _search_output(interp, args, kwargs, node):
    """abstract value of _make_output(triplets, output_type, seqs, seqs2): the triplet collection itself for
    'triplets', otherwise a matrix object remembering which triplets it encodes, its kind and shape"""
    trip, ot, seqs, seqs2 = args
    kind = concrete_str(ot)
    if kind == "triplets":
        if isinstance(trip, VList) and trip.kind == "list":
            return trip
        r = VList(trip.content if trip.content is not None else None, "list")
        if trip.content is None:
            raise Unsupported("search_output of a predicate set")
        r.setlike = isinstance(trip, VSet) or getattr(trip, "setlike", False)
        return r
    o = VObj("search_matrix")
    o.triplets = trip
    o.kind = ot
    n1 = interp.seq_len(seqs)
    n2 = n1 if isinstance(seqs2, VNone) else interp.seq_len(seqs2)
    o.shape = (n1, n2)
    return o


@spec("triplets_of")
def _triplets_of(interp, args, kwargs, node):
    r = args[0]
    if isinstance(r, VObj) and r.tag == "search_matrix":
        return r.triplets
    return r


@spec("output_kind")
def _output_kind(interp, args, kwargs, node):
    r = args[0]
    if isinstance(r, VObj) and r.tag == "search_matrix":
        return r.kind
    return VStr("triplets")


@spec("output_shape")
def _output_shape(interp, args, kwargs, node):
    r = args[0]
    if isinstance(r, VObj) and r.tag == "search_matrix":
        return VTuple([VInt(r.shape[0]), VInt(r.shape[1])])
    return NONE


@spec("functional_on")
def _functional_on(interp, args, kwargs, node):
    """functional_on(collection, key): two members with equal key are equal (so a set / de-duplicated list
    holds at most one member per key)"""
    bag = bag_of(interp, args[0])
    key = args[1]
    parts = []
    for i, s in enumerate(bag.sites):
        for j, t in enumerate(bag.sites):
            if j < i:
                continue
            a, b = s.rename(interp.ctx), t.rename(interp.ctx)
            ka = interp.call(key, [a.elem], {}, node)
            kb = interp.call(key, [b.elem], {}, node)
            body = z3.Implies(z3.And(a.full_cond(), b.full_cond(), interp.veq(ka, kb, node)), interp.veq(a.elem, b.elem, node))
            vs = a.all_vars() + b.all_vars()
            parts.append(z3.ForAll(vs, body) if vs else body)
    return VBool(z3.And(*parts) if parts else z3.BoolVal(True))


@spec("is_setlike")
def _is_setlike(interp, args, kwargs, node):
    v = args[0]
    return VBool(isinstance(v, VSet) or getattr(v, "setlike", False))


@spec("local")
def _local(interp, args, kwargs, node):
    """value of a local variable of the verified function at its exit (only meaningful inside witness hints)"""
    env = getattr(interp, "exit_env", None)
    if env is None:
        raise Unsupported("local(): no function environment")
    return interp.lookup(concrete_str(args[0]), env, node)


@spec("bag_equal")
def _bag_equal(interp, args, kwargs, node):
    a, b = args
    if a is b or (getattr(a, "content", 0) is getattr(b, "content", 1)):
        return VBool(True)
    ba, bb = bag_of(interp, a), bag_of(interp, b)
    parts = []
    for src, dst in ((ba, bb), (bb, ba)):
        for s in src.sites:
            s2 = s.rename(interp.ctx)
            # candidate witness: the same generator variables in a site of the other bag with matching variable sorts
            # (an explicit instance of the existential; equivalent formula)
            insts = []
            for t in dst.sites:
                if len(t.bvars) == len(s2.bvars) and all(x.sort() == y.sort() for x, y in zip(t.bvars, s2.bvars)):
                    t2 = t.rename(interp.ctx)
                    sub = list(zip(t2.bvars, s2.bvars))
                    inst = Site(t2.label, [], z3.substitute(t2.cond, *sub), vsubst(t2.elem, sub), t2.hvars,
                                z3.substitute(t2.cond_h, *sub), z3.substitute(t2.cond_d, *sub))
                    insts.append(inst.exists_body(interp.veq(inst.elem, s2.elem)))
            body = z3.Implies(s2.full_cond(), z3.Or(*(insts + [bag_contains(interp, dst, s2.elem)])))
            parts.append(z3.ForAll(s2.all_vars(), body) if s2.all_vars() else body)
    return VBool(z3.And(*parts) if parts else z3.BoolVal(True))


@spec("with_witness")
def _with_witness(interp, args, kwargs, node):
    """with_witness(t1, ..., tn, phi) == phi; the terms t_i are named by fresh constants (w_i == t_i => phi),
    which puts them into the solver's term universe so that quantified hypotheses get instantiated at them."""
    *terms, phi = args
    hyps = []
    for t in terms:
        tt = getattr(t, "term", None)
        if tt is None:
            continue
        w = interp.ctx.fresh("w", tt.sort())
        hyps.append(w == tt)
    return VBool(z3.Implies(z3.And(*hyps), B(interp, phi)) if hyps else B(interp, phi))


@spec("bag_subset")
def _bag_subset(interp, args, kwargs, node):
    """every element produced by a is produced by b (candidate witness: the same generator variables in a site of b with
    matching variable sorts; otherwise the existential is left to the solver)"""
    a, b = args
    ba, bb = bag_of(interp, a), bag_of(interp, b)
    parts = []
    for s in ba.sites:
        s2 = s.rename(interp.ctx)
        insts = []
        for t in bb.sites:
            if len(t.bvars) == len(s2.bvars) and all(x.sort() == y.sort() for x, y in zip(t.bvars, s2.bvars)):
                t2 = t.rename(interp.ctx)
                sub = list(zip(t2.bvars, s2.bvars))
                inst = Site(t2.label, [], z3.substitute(t2.cond, *sub), vsubst(t2.elem, sub), t2.hvars,
                            z3.substitute(t2.cond_h, *sub), z3.substitute(t2.cond_d, *sub))
                insts.append(inst.exists_body(interp.veq(inst.elem, s2.elem)))
        body = z3.Implies(s2.full_cond(), z3.Or(*(insts + [bag_contains(interp, bb, s2.elem)])))
        parts.append(z3.ForAll(s2.all_vars(), body) if s2.all_vars() else body)
    return VBool(z3.And(*parts) if parts else z3.BoolVal(True))


@spec("one_edit_bag")
def _one_edit_bag(interp, args, kwargs, node):
    """all one-edit variants of x in index form (unfiltered: with repetitions): deletions, substitutions by a different letter of
    the alphabet, insertions of a letter of the alphabet"""
    x, A = args
    ctx = interp.ctx
    n, m = z3.Length(x.term), z3.Length(A.term)
    i0 = ctx.fresh("i", z3.IntSort())
    i1, k1 = ctx.fresh("i", z3.IntSort()), ctx.fresh("k", z3.IntSort())
    i2, k2 = ctx.fresh("i", z3.IntSort()), ctx.fresh("k", z3.IntSort())
    ch = lambda k: VStr(z3.SubString(A.term, k, 1))
    sites = [
        Site("del", [i0], z3.And(0 <= i0, i0 < n), _delete_at(interp, [x, VInt(i0)], {}, node)),
        Site("sub", [i1, k1], z3.And(0 <= i1, i1 < n, 0 <= k1, k1 < m, z3.SubString(A.term, k1, 1) != z3.SubString(x.term, i1, 1)),
             _sub_at(interp, [x, VInt(i1), ch(k1)], {}, node)),
        Site("ins", [i2, k2], z3.And(0 <= i2, i2 <= n, 0 <= k2, k2 < m), _ins_at(interp, [x, VInt(i2), ch(k2)], {}, node)),
    ]
    return VList(CompBag(sites), "list")


@spec("one_sub_bag")
def _one_sub_bag(interp, args, kwargs, node):
    x, A = args
    ctx = interp.ctx
    n, m = z3.Length(x.term), z3.Length(A.term)
    i1, k1 = ctx.fresh("i", z3.IntSort()), ctx.fresh("k", z3.IntSort())
    ch = VStr(z3.SubString(A.term, k1, 1))
    return VList(CompBag([Site("sub", [i1, k1], z3.And(0 <= i1, i1 < n, 0 <= k1, k1 < m,
                                                        z3.SubString(A.term, k1, 1) != z3.SubString(x.term, i1, 1)),
                               _sub_at(interp, [x, VInt(i1), ch], {}, node))]), "list")


@spec("is_integral")
def _is_integral(interp, args, kwargs, node):
    v = args[0]
    if isinstance(v, (VInt, VBool)):
        return VBool(True)
    t = to_real(v)
    return VBool(t == z3.ToReal(z3.ToInt(t)))


@spec("related")
def _related(interp, args, kwargs, node):
    """related(neighborhood, x, y): y is among the strings neighborhood(x) yields (for an abstract neighbourhood: membership in
    its set; for a repository generator: membership in the set its contract returns)"""
    nb, x, y = args
    f = getattr(nb, "relfun", None)
    if f is not None:
        return VBool(z3.IsMember(y.term, f(x.term)))
    r = interp.call(nb, [x], {}, node)
    c = interp.contains(r, y)
    return c if isinstance(c, VBool) else VBool(c)


@spec("is_int")
def _is_int(interp, args, kwargs, node):
    return VBool(isinstance(args[0], VInt))


@spec("is_new_object")
def _is_new_object(interp, args, kwargs, node):
    r = SPEC["same_object"](interp, args, kwargs, node)
    return VBool(z3.Not(interp.as_bool_term(r, node)))


@spec("created")
def _created(interp, args, kwargs, node):
    """created("SymdelDB"): THE instance of that repository class constructed by the verified function (independent of the name of
    the local variable holding it); only meaningful inside witness hints and term-level clauses"""
    want = concrete_str(args[0])
    objs = [o for o in getattr(interp, "instances_created", []) if isinstance(o, VObj) and o.tag == want]
    if len(objs) != 1:
        raise Unsupported(f"created({want!r}): {len(objs)} instances were constructed")
    return objs[0]


@spec("call_result")
def _call_result(interp, args, kwargs, node):
    """call_result("pyrepseq.nn.nearest_neighbor"[, k]): the value returned by the k-th (default: only) call of that function made by the
    verified function (independent of the local variable it was bound to)"""
    q = concrete_str(args[0])
    calls = [c for c in interp.contract_calls if c[0] == q]
    k = concrete_int(args[1]) if len(args) > 1 else None
    if k is None:
        if len(calls) != 1:
            raise Unsupported(f"call_result({q!r}): {len(calls)} calls were made")
        return calls[0][2]
    if k >= len(calls):
        raise Unsupported(f"call_result({q!r}, {k}): only {len(calls)} calls were made")
    return calls[k][2]
