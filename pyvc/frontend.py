"""Front end: reads the *real* sources from $PYREPSEQ_REPO (default /repo) on every run, parses
them with `ast`, and resolves names (imports, module constants, functions, classes).
Nothing under /repo is imported or executed by the engine.
"""
import ast
import hashlib
import os

REPO = os.environ.get("PYREPSEQ_REPO", "/repo")

MODULE_FILES = {
    "pyrepseq.nn": "pyrepseq/nn.py",
    "pyrepseq.distance": "pyrepseq/distance.py",
    "pyrepseq.stats": "pyrepseq/stats.py",
    "pyrepseq.io": "pyrepseq/io.py",
    "pyrepseq.util": "pyrepseq/util.py",
    "pyrepseq.entropy": "pyrepseq/entropy.py",
    "pyrepseq.clustering": "pyrepseq/clustering.py",
    "pyrepseq.plotting": "pyrepseq/plotting.py",
    "pyrepseq.metric.metric": "pyrepseq/metric/metric.py",
    "pyrepseq.metric.levenshtein": "pyrepseq/metric/levenshtein.py",
    "pyrepseq.metric.tcr_metric.tcr_metric": "pyrepseq/metric/tcr_metric/tcr_metric.py",
    "pyrepseq.metric.tcr_metric.tcr_levenshtein": "pyrepseq/metric/tcr_metric/tcr_levenshtein.py",
}

# package re-exports (from .x import *) used to resolve `from pyrepseq.metric import Levenshtein`
PACKAGE_EXPORTS = {
    "pyrepseq.metric": ["pyrepseq.metric.metric", "pyrepseq.metric.levenshtein"],
    "pyrepseq.metric.tcr_metric": ["pyrepseq.metric.tcr_metric.tcr_metric",
                                   "pyrepseq.metric.tcr_metric.tcr_levenshtein"],
    "pyrepseq": ["pyrepseq.io", "pyrepseq.distance", "pyrepseq.stats", "pyrepseq.nn", "pyrepseq.util",
                 "pyrepseq.clustering", "pyrepseq.entropy"],
}


class ModuleInfo:
    def __init__(self, name, path):
        self.name = name
        self.path = path
        with open(path) as f:
            self.source = f.read()
        self.sha = hashlib.sha256(self.source.encode()).hexdigest()[:16]
        self.tree = ast.parse(self.source, filename=path)
        self.imports = {}      # local name -> ("extern", dotted) | ("repo", module, name) | ("module", dotted) | ("repomodule", name)
        self.star_imports = [] # repo modules imported with *
        self.functions = {}    # name -> FunctionDef
        self.classes = {}      # name -> ClassDef
        self.constants = {}    # name -> ast expr
        self._scan()

    def _abs(self, mod, level):
        if level == 0:
            return mod
        base = self.name.split(".")
        # a module file x/y.py named pkg.y: level 1 -> pkg
        base = base[: len(base) - level]
        return ".".join(base + ([mod] if mod else []))

    def _scan(self):
        for node in self.tree.body:
            self._scan_node(node)

    def _scan_node(self, node):
        if isinstance(node, ast.Import):
            for a in node.names:
                local = a.asname or a.name.split(".")[0]
                dotted = a.name if a.asname else a.name.split(".")[0]
                self.imports[local] = ("module", dotted)
        elif isinstance(node, ast.ImportFrom):
            mod = self._abs(node.module, node.level)
            is_repo = mod == "pyrepseq" or mod.startswith("pyrepseq.")
            for a in node.names:
                if a.name == "*":
                    if is_repo:
                        self.star_imports.append(mod)
                    continue
                local = a.asname or a.name
                if is_repo:
                    self.imports[local] = ("repo", mod, a.name)
                else:
                    self.imports[local] = ("extern", f"{mod}.{a.name}")
        elif isinstance(node, ast.FunctionDef):
            self.functions[node.name] = node
        elif isinstance(node, ast.ClassDef):
            self.classes[node.name] = node
        elif isinstance(node, ast.Assign) and len(node.targets) == 1 and isinstance(node.targets[0], ast.Name):
            self.constants[node.targets[0].id] = node.value
        elif isinstance(node, ast.Try):
            for n in node.body:
                self._scan_node(n)


class Repo:
    def __init__(self, root=None):
        self.root = root or REPO
        self.modules = {}

    def module(self, name):
        if name not in self.modules:
            if name not in MODULE_FILES:
                raise KeyError(name)
            self.modules[name] = ModuleInfo(name, os.path.join(self.root, MODULE_FILES[name]))
        return self.modules[name]

    def resolve_export(self, modname, attr, _seen=None):
        """Find which real module defines `attr` when imported from `modname` (module or package)."""
        _seen = _seen or set()
        if (modname, attr) in _seen:
            return None
        _seen.add((modname, attr))
        if modname in MODULE_FILES:
            m = self.module(modname)
            if attr in m.functions or attr in m.classes or attr in m.constants:
                return (modname, attr)
            if attr in m.imports:
                imp = m.imports[attr]
                if imp[0] == "repo":
                    return self.resolve_export(imp[1], imp[2], _seen)
                return imp
            for sm in m.star_imports:
                r = self.resolve_export(sm, attr, _seen)
                if r:
                    return r
            return None
        for sub in PACKAGE_EXPORTS.get(modname, []):
            r = self.resolve_export(sub, attr, _seen)
            if r:
                return r
        return None

    def find_function(self, qualname):
        """qualname: 'pyrepseq.nn.symdel' or 'pyrepseq.nn.SymdelDB.lookup' or nested
        'pyrepseq.stats.pc.convert_to_array'.  Returns (ModuleInfo, FunctionDef, ClassDef|None)."""
        parts = qualname.split(".")
        for cut in range(len(parts) - 1, 0, -1):
            modname = ".".join(parts[:cut])
            if modname in MODULE_FILES:
                m = self.module(modname)
                rest = parts[cut:]
                cls = None
                scope_funcs, scope_classes = m.functions, m.classes
                node = None
                for i, p in enumerate(rest):
                    if p in scope_classes and i < len(rest) - 1:
                        cls = scope_classes[p]
                        scope_funcs = {n.name: n for n in cls.body if isinstance(n, ast.FunctionDef)}
                        scope_classes = {}
                    elif p in scope_funcs:
                        node = scope_funcs[p]
                        scope_funcs = {n.name: n for n in ast.walk(node)
                                       if isinstance(n, ast.FunctionDef) and n is not node}
                        scope_classes = {}
                    else:
                        raise KeyError(qualname)
                if node is None:
                    raise KeyError(qualname)
                return m, node, cls
        raise KeyError(qualname)

    def source_digest(self):
        h = hashlib.sha256()
        for name in sorted(MODULE_FILES):
            p = os.path.join(self.root, MODULE_FILES[name])
            if os.path.exists(p):
                with open(p, "rb") as f:
                    h.update(f.read())
        return h.hexdigest()[:16]
