"""Lean back end: the inductive lemmas over specification functions that the SMT side imports as axioms
are kernel-checked Lean 4 + Mathlib proofs (lean/Lemmas/*.lean, code-independent).  Each check re-validates
the files its property relies on through bin/lean-check (content-hash cache: an unchanged file that passed
is not re-elaborated in the quick tier; thorough forces re-elaboration)."""
import os
import subprocess
import time
from .plugins import plugin

VERIF = os.path.dirname(os.path.dirname(os.path.abspath(__file__)))

FILES = {
    "SymdelLemma": "L-symdel: lev a b <= k -> common subsequence within k deletions of both (symdel_lemma)",
    "CombLemma": "L-comb: deletion variants at admissible position tuples = subsequences at most k shorter (mem_delvariants_iff)",
    "StepLemmas": "L-step A/B, L-lev0: lev_step_le, lev_pred, lev_eq_one_iff_step, lev a b = 0 <-> a = b",
    "OneEditAndHamming": "L-n1 (step_iff_oneEdit: index form <-> Step), L-hstep (ham_hstep_le, ham_pred)",
    "RoutineLemmas": "L-sym (lev_comm), L-hamdel (ham_symdel), lev_le_ham, L-count (coinc_eq_sum, cross_eq_sum), L-join (join_injective)",
    "CoincCong": "L-coinc-cong (coinc_congr, cross_congr), coinc_le, cross_le, coinc_perm",
    "HamBasic": "ham_comm, ham_eq_zero_iff",
    "HamIndexForms": "ham x y = 1 / 2 / 3 <-> y is x with 1 / 2 / 3 strictly increasing positions replaced by different letters (ham_eq_two_iff, ham_eq_three_iff)",
    "InjCount": "L-inj-count: positions drawn without replacement hold a value at most as often as the source (inj_count_le); drawn multiplicities sum to the number of draws",
    "EncBound": "L-enc: sum_i (enc a i - enc b i)^2 <= 2 (lev a b)^2 for any binning (sqdist_enc_le)",
}
USES = {
    "C01": ["SymdelLemma", "CombLemma", "StepLemmas", "RoutineLemmas"],
    "C02": ["RoutineLemmas", "CoincCong"],
    "C03": ["SymdelLemma", "CombLemma", "StepLemmas", "OneEditAndHamming", "RoutineLemmas"],
    "C04": ["SymdelLemma", "CombLemma", "StepLemmas", "OneEditAndHamming", "RoutineLemmas", "EncBound"],
    "C05": ["RoutineLemmas", "CoincCong"],
    "C06": ["RoutineLemmas", "CoincCong"],
    "C07": ["SymdelLemma", "CombLemma", "OneEditAndHamming", "RoutineLemmas", "HamBasic", "EncBound"],
    "C10": ["SymdelLemma", "CombLemma", "StepLemmas", "RoutineLemmas"],
    "C11": ["EncBound", "StepLemmas"],
    "C12": ["StepLemmas", "OneEditAndHamming", "HamBasic", "HamIndexForms"],
    "C17": ["InjCount"],
    "C14": ["SymdelLemma", "CombLemma", "StepLemmas", "OneEditAndHamming", "RoutineLemmas"],
}


def run(prop, tier):
    files = USES.get(prop, [])
    if not files:
        return None
    cmd = [os.path.join(VERIF, "bin", "lean-check")] + (["--force"] if tier == "thorough" else []) + files
    t0 = time.time()
    p = subprocess.run(cmd, capture_output=True, text=True, cwd=VERIF, timeout=3600)
    checked, errors = [], []
    seen = set()
    for line in p.stdout.splitlines():
        parts = line.split()
        if line.startswith("LEAN OK"):
            name = os.path.basename(parts[2]).replace(".lean", "")
            seen.add(name)
            checked.append({"name": f"lean/{name}.lean", "function": None, "kind": "lean-lemma", "status": "discharged",
                            "instances": 1, "solvers": ["lean-4.33 kernel" + (" (cached by content hash)" if "cached" in line else "")],
                            "time_s": float(parts[3].rstrip("s")), "detail": FILES.get(name, "")})
        elif line.startswith("LEAN FAIL"):
            name = os.path.basename(parts[2].rstrip(":")).replace(".lean", "")
            seen.add(name)
            errors.append((f"lean/{name}.lean", line))
    for f in files:
        if f not in seen:
            errors.append((f"lean/{f}.lean", f"no result from bin/lean-check: {p.stderr[-300:]}"))
    return {"name": "lean_lemmas", "checked": checked, "errors": errors,
            "assumed": ["lean: the SMT axioms named 'lemma:... (Lean)' are hand transcriptions of the Lean theorem statements "
                        "(list / Nat in Lean, String / Int and array-indexed position tuples in SMT)"],
            "extra": {"files": files, "wall_s": round(time.time() - t0, 1)}}


for _p in USES:
    plugin(_p)((lambda pr: (lambda repo, reg, prop, tier, seed: run(pr, tier)))(_p))
