"""Symbolic value domain of the VC generator.

Values are Python objects built over z3 scalar terms (Int / Real / Bool / String) and
uninterpreted functions.  Structured values (lists, dicts, sets, tuples, opaque library
objects) are *Python-level* structures whose leaves are z3 terms, so that no SMT array or
sequence-of-sequences sort is needed; mutable ones have identity (aliasing is Python
aliasing inside the executor, which re-executes each path from scratch).

Idealisations (DESIGN 2.1): int = Z, float = R (no rounding; nan / inf are explicit tagged
values), str = SMT String.
"""
import z3


class Unsupported(Exception):
    """The executor met a construct outside the accepted subset (exit 3, never a verdict)."""


# ----------------------------------------------------------------------------- scalars

class Value:
    mutable = False

    def py_type(self):
        return type(self).__name__


class VNone(Value):
    def __repr__(self):
        return "None"

    def py_type(self):
        return "NoneType"


NONE = VNone()


class VBool(Value):
    def __init__(self, term):
        if isinstance(term, bool):
            term = z3.BoolVal(term)
        self.term = term

    def __repr__(self):
        return f"VBool({self.term})"

    def py_type(self):
        return "bool"


class VInt(Value):
    """Python int or numpy integer scalar (np=True: arithmetic never raises ZeroDivisionError)."""

    def __init__(self, term, np=False):
        if isinstance(term, int):
            term = z3.IntVal(term)
        self.term = term
        self.np = np

    def __repr__(self):
        return f"VInt({self.term})"

    def py_type(self):
        return "numpy.int64" if self.np else "int"


class VReal(Value):
    """Python float / numpy float, idealised as a mathematical real."""

    def __init__(self, term, np=False):
        if isinstance(term, (int, float)):
            term = z3.RealVal(repr(term) if isinstance(term, float) else term)
        self.term = term
        self.np = np

    def __repr__(self):
        return f"VReal({self.term})"

    def py_type(self):
        return "numpy.float64" if self.np else "float"


class VNan(Value):
    def __repr__(self):
        return "nan"

    def py_type(self):
        return "float"


class VInf(Value):
    def __init__(self, sign=1):
        self.sign = sign

    def __repr__(self):
        return "inf" if self.sign > 0 else "-inf"

    def py_type(self):
        return "float"


NAN = VNan()
INF = VInf(1)


class VStr(Value):
    def __init__(self, term, np=False):
        if isinstance(term, str):
            term = z3.StringVal(term)
        self.term = term
        self.np = np

    def __repr__(self):
        return f"VStr({self.term})"

    def py_type(self):
        return "numpy.str_" if self.np else "str"


class VUndef(Value):
    """value of an out-of-range position of a sequence (never legitimately observed; ite with it yields the other arm)"""

    def py_type(self):
        return "undefined"


UNDEF = VUndef()


class VTuple(Value):
    def __init__(self, items):
        self.items = list(items)

    def __repr__(self):
        return f"VTuple({self.items})"

    def py_type(self):
        return "tuple"


class VType(Value):
    """A Python type object (str, int, np.str_, pd.Series, DataFrame, exception classes ...)."""

    def __init__(self, name):
        self.name = name

    def __repr__(self):
        return f"<type {self.name}>"

    def py_type(self):
        return "type"


# ----------------------------------------------------------------------------- sequences

class SeqContent:
    pass


class ConcreteSeq(SeqContent):
    def __init__(self, items):
        self.items = list(items)


class SymSeq(SeqContent):
    """length term + point-wise definition at(k_term) -> Value (a Python closure)."""

    def __init__(self, length, at, elem_kind=None):
        self.length = length
        self.at = at
        self.elem_kind = elem_kind


class Site:
    """One emitting site of a comprehension bag: {elem | bvars : cond}.

    `hvars` are symbols created while executing the loop body (havoc'd loop state of inner invariant
    loops, results of callee contracts): they stand for the *actual* values computed by the code, of
    which only `cond_h` is known.  Universal statements quantify over them; existential statements
    (membership) must hold for every value satisfying cond_h."""

    def __init__(self, label, bvars, cond, elem, hvars=(), cond_h=None, cond_d=None):
        self.label = label
        self.bvars = list(bvars)      # z3 constants bound at this site (loop variables)
        self.cond = cond              # decisions (loop ranges, branch conditions) over bvars + free symbols
        self.elem = elem              # Value over bvars + hvars + free symbols
        self.hvars = list(hvars)
        self.cond_h = cond_h if cond_h is not None else z3.BoolVal(True)   # knowledge about computed values
        self.cond_d = cond_d if cond_d is not None else z3.BoolVal(True)   # decisions that depend on computed values

    def rename(self, ctx):
        """A copy with fresh bound variables (alpha-renaming)."""
        allv = self.bvars + self.hvars
        fresh = [ctx.fresh(str(v).split("!")[0], v.sort()) for v in allv]
        sub = list(zip(allv, fresh))
        nb = len(self.bvars)
        return Site(self.label, fresh[:nb], z3.substitute(self.cond, *sub) if sub else self.cond,
                    vsubst(self.elem, sub), fresh[nb:], z3.substitute(self.cond_h, *sub) if sub else self.cond_h,
                    z3.substitute(self.cond_d, *sub) if sub else self.cond_d)

    def full_cond(self):
        return z3.And(self.cond, self.cond_h, self.cond_d)

    def exists_body(self, goal):
        """formula (over bvars) saying: this instance is generated and `goal` holds for the values the code computes"""
        inner = z3.And(self.cond_d, goal)
        if not (z3.is_true(z3.simplify(self.cond_h)) and not self.hvars):
            inner = z3.Implies(self.cond_h, inner)
        if self.hvars:
            inner = z3.ForAll(self.hvars, inner)
        return z3.And(self.cond, inner)

    def all_vars(self):
        return self.bvars + self.hvars


class CompBag(SeqContent):
    """Unordered bag given by emitting sites (R-acc).  `extra` holds concrete members."""

    def __init__(self, sites=None):
        self.sites = list(sites or [])


class VList(Value):
    mutable = True

    def __init__(self, content, kind="list"):
        self.content = content
        self.kind = kind          # list | ndarray | generator

    def __repr__(self):
        c = self.content
        if isinstance(c, ConcreteSeq):
            return f"VList({c.items})"
        if isinstance(c, SymSeq):
            return f"VList(sym len={c.length})"
        return f"VList(bag {len(c.sites)} sites)"

    def py_type(self):
        return {"list": "list", "ndarray": "numpy.ndarray", "generator": "generator",
                "Series": "pandas.Series", "tuple": "tuple"}.get(self.kind, self.kind)


class VSet(Value):
    """A Python set.  content: ConcreteSeq of distinct values, CompBag, or `pred` (membership
    closure Value -> z3 Bool) for sets given by predicate (fresh / havoc'd sets)."""
    mutable = True

    def __init__(self, content=None, pred=None, frozen=False):
        self.content = content
        self.pred = pred
        self.frozen = frozen

    def py_type(self):
        return "set"


class VDict(Value):
    """dict.  Either concrete (list of (key Value, value Value) with concrete distinct keys) or
    symbolic: dom(key Value) -> z3 Bool, get(key Value) -> Value."""
    mutable = True

    def __init__(self, items=None, dom=None, get=None, key_kind=None, val_kind=None):
        self.items = items            # list of [k, v] or None
        self.dom = dom
        self.get = get
        self.key_kind = key_kind
        self.val_kind = val_kind

    def py_type(self):
        return "dict"


class VObj(Value):
    """Opaque library object / class instance.  `tag` names its Python type, `term` (optional) is a
    z3 constant of the uninterpreted sort Obj standing for its (immutable) content, `attrs` holds
    instance attributes set by repo code (self.x = ...)."""
    mutable = True

    def __init__(self, tag, term=None, attrs=None, origin=None):
        self.tag = tag
        self.term = term
        self.attrs = dict(attrs or {})
        self.origin = origin

    def __repr__(self):
        return f"VObj<{self.tag}>({self.term})"

    def py_type(self):
        return self.tag


class VFunc(Value):
    """Callable: closure over repo AST, repo function by contract, extern, uninterpreted callable
    parameter, bound method, or builtin."""

    def __init__(self, kind, name, node=None, env=None, self_val=None, data=None):
        self.kind = kind      # closure | repo | extern | uf | method | builtin | class | spec
        self.name = name
        self.node = node
        self.env = env
        self.self_val = self_val
        self.data = data

    def __repr__(self):
        return f"VFunc({self.kind}:{self.name})"

    def py_type(self):
        return "function"


class VModule(Value):
    def __init__(self, dotted):
        self.dotted = dotted

    def py_type(self):
        return "module"


# ----------------------------------------------------------------------------- helpers

OBJ = z3.DeclareSort("Obj")


def is_num(v):
    return isinstance(v, (VInt, VReal, VBool))


def to_real(v):
    if isinstance(v, VReal):
        return v.term
    if isinstance(v, VInt):
        return z3.ToReal(v.term)
    if isinstance(v, VBool):
        return z3.If(v.term, z3.RealVal(1), z3.RealVal(0))
    raise Unsupported(f"to_real({v!r})")


def to_int(v):
    if isinstance(v, VInt):
        return v.term
    if isinstance(v, VBool):
        return z3.If(v.term, z3.IntVal(1), z3.IntVal(0))
    raise Unsupported(f"to_int({v!r})")


def simp(t):
    return z3.simplify(t)


def concrete_int(v):
    if isinstance(v, VBool):
        t = simp(v.term)
        if z3.is_true(t):
            return 1
        if z3.is_false(t):
            return 0
        return None
    if not isinstance(v, VInt):
        return None
    t = simp(v.term)
    if z3.is_int_value(t):
        return t.as_long()
    return None


def concrete_str(v):
    if not isinstance(v, VStr):
        return None
    t = simp(v.term)
    if z3.is_string_value(t):
        return t.as_string()
    return None


def concrete_bool(t):
    t = simp(t)
    if z3.is_true(t):
        return True
    if z3.is_false(t):
        return False
    return None


def vsubst(v, sub):
    """Substitute z3 constants inside a Value (for alpha-renaming comprehension sites)."""
    if not sub:
        return v
    if isinstance(v, VBool):
        return VBool(z3.substitute(v.term, *sub))
    if isinstance(v, VInt):
        return VInt(z3.substitute(v.term, *sub), v.np)
    if isinstance(v, VReal):
        return VReal(z3.substitute(v.term, *sub), v.np)
    if isinstance(v, VStr):
        return VStr(z3.substitute(v.term, *sub), v.np)
    if isinstance(v, VTuple):
        return VTuple([vsubst(x, sub) for x in v.items])
    if isinstance(v, (VNone, VNan, VInf, VType, VFunc)):
        return v
    if isinstance(v, VObj) and v.term is not None:
        o = VObj(v.tag, z3.substitute(v.term, *sub), v.attrs, v.origin)
        return o
    if isinstance(v, VObj) and v.tag == "np_repeat":
        return VObj(v.tag, None, {a: vsubst(x, sub) for a, x in v.attrs.items()}, v.origin)
    if isinstance(v, VList) and isinstance(v.content, ConcreteSeq):
        return VList(ConcreteSeq([vsubst(x, sub) for x in v.content.items]), v.kind)
    if isinstance(v, VList) and isinstance(v.content, SymSeq):
        c = v.content
        return VList(SymSeq(z3.substitute(c.length, *sub), lambda k, c=c: vsubst(c.at(k), sub), c.elem_kind), v.kind)
    raise Unsupported(f"vsubst over {v!r}")


def const_value(pyval):
    """Lift a Python constant to a Value."""
    if pyval is None:
        return NONE
    if isinstance(pyval, bool):
        return VBool(pyval)
    if isinstance(pyval, int):
        return VInt(pyval)
    if isinstance(pyval, float):
        if pyval != pyval:
            return NAN
        if pyval in (float("inf"), float("-inf")):
            return VInf(1 if pyval > 0 else -1)
        return VReal(pyval)
    if isinstance(pyval, str):
        return VStr(pyval)
    if isinstance(pyval, tuple):
        return VTuple([const_value(x) for x in pyval])
    if isinstance(pyval, list):
        return VList(ConcreteSeq([const_value(x) for x in pyval]))
    if isinstance(pyval, dict):
        return VDict(items=[[const_value(k), const_value(v)] for k, v in pyval.items()])
    raise Unsupported(f"constant {pyval!r}")
