"""Verification of one function against its side-car contract: symbolic inputs from the
contract's signature, all paths of the real body, then the contract's clauses become
obligations on every outcome.
"""
import ast
import itertools
import z3
from .values import *
from .ctx import Ctx, PathAbort, explore, Obligation
from .symex import Interp, Env, PyRaise, ReturnSig, assigned_names
from . import externs as EXT
from . import spec as SPECMOD


from .types import SameAs as T_SameAs


class FunctionReport:
    def __init__(self, qualname):
        self.qualname = qualname
        self.obligations = []      # Obligation
        self.paths = 0
        self.outcomes = []         # (variant, kind, detail)
        self.assumed = set()
        self.calls = set()
        self.error = None
        self.source_lines = None
        self.variants = 0


def make_interp(repo, ctx, registry):
    return Interp(repo, ctx, registry, EXT, SPECMOD)


def verify_function(repo, registry, qualname, only_variant=None):
    c = registry.get(qualname)
    rep = FunctionReport(qualname)
    m, fnode, cls = repo.find_function(qualname)
    rep.source_lines = (m.path, fnode.lineno, fnode.end_lineno)
    # the generator reads the function BODY: a decorator could change what a call does (caching, wrapping).  Only decorators
    # that leave the body's meaning alone are accepted.
    for d in fnode.decorator_list:
        dn = ast.unparse(d.func if isinstance(d, ast.Call) else d)
        if dn.split(".")[-1] not in ("staticmethod", "classmethod", "abstractmethod", "property"):
            raise Unsupported(f"{qualname}: decorator @{dn} is not modelled (the verified text would not be the code that runs)")
    ptypes = c.param_types()
    gtypes = [(f"global:{g}", c.type_of(tx)) for g, tx in c.globals_used]
    ptypes = ptypes + gtypes
    alts = [t.expand() for _, t in ptypes]
    short = qualname.replace("pyrepseq.", "")
    combos = list(itertools.product(*alts)) if alts else [()]
    rep.variants = len(combos)
    for vi, combo in enumerate(combos):
        if only_variant is not None and vi != only_variant:
            continue
        vtag = f"v{vi}" if len(combos) > 1 else ""

        def run(ctx, combo=combo, vtag=vtag):
            interp = make_interp(repo, ctx, registry)
            interp.current_contract = c
            interp.current_qualname = qualname
            ctx.function = qualname
            env = Env(m, func=fnode)
            # symbolic inputs
            bound = {}
            for (pname, _), ty in zip(ptypes, combo):
                if pname.startswith("global:"):
                    gname = pname.split(":", 1)[1]
                    v = ty.fresh(gname, ctx)
                    interp.global_state[(m.name, gname)] = v
                    ctx.inputs[pname] = (ty, v)
                    continue
                if isinstance(ty, T_SameAs):
                    continue
                v = ty.fresh(pname, ctx)
                bound[pname] = v
                ctx.inputs[pname] = (ty, v)
            for (pname, _), ty in zip(ptypes, combo):
                if isinstance(ty, T_SameAs):
                    bound[pname] = bound[ty.other]
                    ctx.inputs[pname] = (ty, bound[pname])
            # bind against the real signature (defaults come from the real code when a parameter is
            # not mentioned by the contract)
            real_params = [a.arg for a in fnode.args.posonlyargs + fnode.args.args + fnode.args.kwonlyargs]
            for pn in bound:
                if pn not in real_params and pn not in ("self",) and not (
                        fnode.args.kwarg and pn == fnode.args.kwarg.arg) and not (fnode.args.vararg and pn == fnode.args.vararg.arg):
                    raise Unsupported(f"{qualname}: contract parameter {pn} is not a parameter of the real function")
            denv = Env(m)
            nd = len(fnode.args.defaults)
            pos = fnode.args.posonlyargs + fnode.args.args
            for i, a in enumerate(pos):
                if a.arg not in bound:
                    j = i - (len(pos) - nd)
                    if j < 0:
                        raise Unsupported(f"{qualname}: contract omits required parameter {a.arg}")
                    bound[a.arg] = interp.ev(fnode.args.defaults[j], denv)
            for a, d in zip(fnode.args.kwonlyargs, fnode.args.kw_defaults):
                if a.arg not in bound:
                    bound[a.arg] = interp.ev(d, denv)
            if fnode.args.kwarg and fnode.args.kwarg.arg not in bound:
                bound[fnode.args.kwarg.arg] = interp.born(VDict(items=[]))
            if fnode.args.vararg and fnode.args.vararg.arg not in bound:
                bound[fnode.args.vararg.arg] = VTuple([])
            env.vars.update(bound)
            env.local_names = assigned_names(fnode) | set(bound)
            for pn, pv in bound.items():
                if isinstance(pv, Value) and pv.mutable:
                    pv.frame_name = f"argument {pn}"
                if pn in c.may_modify and isinstance(pv, Value):
                    interp.frame_ok.add(id(pv))
            if "self" in bound and qualname.endswith(".__init__"):
                interp.frame_ok.add(id(bound["self"]))
            if fnode.args.kwarg and isinstance(bound.get(fnode.args.kwarg.arg), Value):
                interp.birth[id(bound[fnode.args.kwarg.arg])] = 0      # **kwargs is a fresh dict per call
            if "self" in bound and isinstance(bound["self"], VObj):
                for an, av in bound["self"].attrs.items():
                    if isinstance(av, Value) and av.mutable:
                        av.frame_name = f"self.{an}"
            spec_bound = dict(bound)
            if fnode.args.kwarg and isinstance(bound.get(fnode.args.kwarg.arg), VDict) and bound[fnode.args.kwarg.arg].items is not None:
                # the function may legitimately update its own **kwargs dict: contract clauses talk about the keywords PASSED
                kw0 = bound[fnode.args.kwarg.arg]
                spec_bound[fnode.args.kwarg.arg] = VDict(items=[[k, v] for k, v in kw0.items], key_kind=kw0.key_kind, val_kind=kw0.val_kind)
            spec_env = c.spec_env(interp, spec_bound)
            # snapshot of mutable inputs for old(...)
            for cl in c.requires:
                t = interp.as_bool_term(c.eval_spec(interp, cl.expr, spec_env))
                ctx.assume(t)
            if not ctx.feasible():
                raise PathAbort()
            interp.lemma_mode = "use"
            lemma_terms = {}
            for cl in c.lemmas:
                lemma_terms[cl.name] = interp.as_bool_term(c.eval_spec(interp, cl.expr, spec_env))

            def using(cl):
                names = ast.literal_eval(cl.kw["using"]) if "using" in cl.kw else []
                for n in names:
                    ctx.assumed.add(f"lemma:{short}/{n} (proved separately)")
                return [(lemma_terms[n], None) for n in names]
            kind, val, exc = "return", NONE, None
            pushed = False
            if cls is not None and "self" in bound:
                cv = interp.resolve_class(cls.name if hasattr(cls, "name") else str(cls))
                if cv is not None:
                    interp.class_stack.append((cv, bound["self"]))      # the defining class: what super() refers to
                    pushed = True
            try:
                val = interp.run_body(fnode, env)
            except PyRaise as e:
                kind, exc = "raise", e
            finally:
                if pushed:
                    interp.class_stack.pop()
            interp.exit_env = env
            # ---- contract on this outcome
            meta = dict(function=qualname, variant=vtag)
            pre = f"{short}" + (f"[{vtag}]" if vtag else "")
            for callee, mapping in c.validates:
                att = [x for x in interp.contract_attempts if x[0] == callee]
                good = bool(att)
                terms = []
                if good:
                    cb = att[0][1]
                    for k, ex in mapping.items():
                        want = c.eval_spec(interp, ex, spec_env)
                        got = cb.get(k)
                        if got is want:
                            continue
                        if isinstance(want, Value) and want.mutable or isinstance(got, Value) and got.mutable:
                            good = False          # a different (converted / copied) object reaches the check
                            break
                        try:
                            terms.append(interp.veq(got, want))
                        except Unsupported:
                            good = False
                            break
                ctx.oblige(f"{pre}/validates[{callee.replace('pyrepseq.', '')} sees the caller's own arguments]",
                           z3.And(*terms) if (good and terms) else z3.BoolVal(bool(good)), kind="post", assume_after=False, **meta)
            if kind == "raise":
                allowed = [cl for cl in c.raises if cl.name == exc.exc or
                           __import__("pyvc.symex", fromlist=["exc_matches"]).exc_matches(exc.exc, cl.name)]
                if allowed:
                    conds = [interp.as_bool_term(c.eval_spec(interp, cl.expr, spec_env)) if cl.expr is not None
                             else z3.BoolVal(True) for cl in allowed]
                    ctx.oblige(f"{pre}/raises[{exc.exc}@L{exc.line}]/when", z3.Or(*conds), kind="raises-when",
                               line=exc.line, **meta)
                else:
                    ctx.oblige(f"{pre}/no-raise[{exc.exc}@L{exc.line}]", z3.BoolVal(False), kind="no-raise",
                               line=exc.line, exc=exc.exc, msg=exc.msg, **meta)
                return ("raise", exc.exc, exc.line)
            # returned: exceptional clauses must not have applied
            for cl in c.raises:
                if cl.expr is not None and "may" not in cl.kw:
                    t = interp.as_bool_term(c.eval_spec(interp, cl.expr, spec_env))
                    ctx.oblige(f"{pre}/raises[{cl.name}]/must-raise", z3.Not(t), kind="must-raise", **meta)
            spec_env.vars["result"] = val
            pc_before_post = list(ctx.pc)
            if c.delegates is not None:
                callee, mapping = c.delegates
                calls = [x for x in interp.contract_calls if x[0] == callee]
                ok = len(calls) == 1 and calls[0][2] is val
                terms = []
                if ok:
                    _, cb, _ = calls[0]
                    cm, cf, _cc = repo.find_function(callee)
                    exp = {k: c.eval_spec(interp, ex, spec_env) for k, ex in mapping.items()}
                    full = interp.bind_args(cf.args, [], exp, Env(cm), None, callee.split(".")[-1])
                    for k in full:
                        a, b = cb.get(k), full[k]
                        if a is b:
                            continue
                        try:
                            terms.append(interp.veq(a, b))
                        except Unsupported:
                            ok = False
                ctx.oblige(f"{pre}/delegates[{callee.replace('pyrepseq.', '')}]",
                           z3.And(*terms) if (ok and terms) else z3.BoolVal(bool(ok)), kind="post", assume_after=False, **meta)
            for fname, ex, ao in c.sets:
                if ao:
                    continue
                exp = c.eval_spec(interp, ex, spec_env)
                got = bound["self"].attrs.get(fname)
                if got is exp:
                    t = z3.BoolVal(True)
                elif got is None:
                    t = z3.BoolVal(False)
                elif isinstance(got, VList) and isinstance(exp, VList):
                    t = z3.And(z3.BoolVal(got.kind == exp.kind), interp.seq_eq(got, exp))
                elif isinstance(got, Value) and got.mutable:
                    t = z3.BoolVal(False)
                else:
                    t = interp.veq(got, exp)
                ctx.oblige(f"{pre}/sets[self.{fname}]", t, kind="post", assume_after=False, **meta)
            if c.returns_expr is not None and "assume_only" not in c.returns_expr.kw:
                interp.spec_fork_ok = True
                try:
                    exp = c.eval_spec(interp, c.returns_expr.expr, spec_env)
                finally:
                    interp.spec_fork_ok = False
                ctx.oblige(f"{pre}/{c.returns_expr.name}", interp.veq(val, exp), kind="post", assume_after=False,
                           extra_hyps=using(c.returns_expr), **meta)
            for cl in c.ensures:
                t = interp.as_bool_term(c.eval_spec(interp, cl.expr, spec_env))
                ctx.oblige(f"{pre}/{cl.name}", t, kind="post", assume_after=False, extra_hyps=using(cl), **meta)
            for cl in c.canaries:
                t = interp.as_bool_term(c.eval_spec(interp, cl.expr, spec_env))
                # a canary is a wrong post-condition: recorded separately, expected NOT to be provable
                ctx.obligs.append(Obligation(f"{pre}/canary[{cl.name}]", list(ctx.global_facts) + pc_before_post + using(cl), t,
                                             dict(kind="canary", inputs=dict(ctx.inputs), **meta)))
            rep.calls.update(q for q, _ in interp.calls_made)
            return ("return", None, None)

        results = explore(run)
        for ctx, res in results:
            rep.obligations.extend(ctx.obligs)
            rep.assumed |= ctx.assumed
            if res is None:
                continue
            rep.paths += 1
            rep.outcomes.append((vtag,) + tuple(res))
    return rep


def lemma_obligations(repo, registry, qualname):
    """`lemma(expr)` clauses: facts about the contract's own vocabulary that do not depend on the code
    (obligation: requires => expr, for every type variant)."""
    c = registry.get(qualname)
    if not c.lemmas:
        return []
    m_, _f, _c = repo.find_function(qualname)
    ptypes = c.param_types() + [(f"global:{g}", c.type_of(tx)) for g, tx in c.globals_used]
    alts = [t.expand() for _, t in ptypes]
    short = qualname.replace("pyrepseq.", "")
    out = []
    combos = list(itertools.product(*alts)) if alts else [()]
    for vi, combo in enumerate(combos):
        vtag = f"[v{vi}]" if len(combos) > 1 else ""
        for cl in c.lemmas:
            ctx = Ctx()
            interp = make_interp(repo, ctx, registry)
            interp.current_contract = c
            interp.current_qualname = qualname
            try:
                bound = {}
                for (pname, _), ty in zip(ptypes, combo):
                    if pname.startswith("global:"):
                        interp.global_state[(m_.name, pname.split(":", 1)[1])] = ty.fresh(pname.split(":", 1)[1], ctx)
                        continue
                    if isinstance(ty, T_SameAs):
                        continue
                    bound[pname] = ty.fresh(pname, ctx)
                    ctx.inputs[pname] = (ty, bound[pname])
                for (pname, _), ty in zip(ptypes, combo):
                    if isinstance(ty, T_SameAs):
                        bound[pname] = bound[ty.other]
                env = c.spec_env(interp, bound)
                for r in c.requires:
                    ctx.assume(interp.as_bool_term(c.eval_spec(interp, r.expr, env)))
                # earlier lemmas of the same contract may be used by later ones
                interp.lemma_mode = "use"
                for prev in c.lemmas:
                    if prev is cl:
                        break
                    ctx.assume(interp.as_bool_term(c.eval_spec(interp, prev.expr, env)), f"lemma:{short}/{prev.name} (proved separately)")
                interp.lemma_mode = "prove"
                t = interp.as_bool_term(c.eval_spec(interp, cl.expr, env))
                interp.lemma_mode = "use"
                ctx.oblige(f"{short}{vtag}/lemma[{cl.name}]", t, kind="lemma", function=qualname, variant=vtag)
                out.extend(ctx.obligs)
            except PathAbort:
                continue
    return out


def reachability(repo, registry, qualname):
    """Non-vacuity: the conjunction of the pre-conditions must be satisfiable (per variant)."""
    c = registry.get(qualname)
    m, fnode, cls = repo.find_function(qualname)
    ptypes = c.param_types() + [(f"global:{g}", c.type_of(tx)) for g, tx in c.globals_used]
    alts = [t.expand() for _, t in ptypes]
    out = []
    for vi, combo in enumerate(itertools.product(*alts) if alts else [()]):
        ctx = Ctx()
        interp = make_interp(repo, ctx, registry)
        interp.current_contract = c
        interp.current_qualname = qualname
        bound = {}
        try:
            for (pname, _), ty in zip(ptypes, combo):
                if pname.startswith("global:"):
                    interp.global_state[(m.name, pname.split(":", 1)[1])] = ty.fresh(pname.split(":", 1)[1], ctx)
                    continue
                if isinstance(ty, T_SameAs):
                    continue
                v = ty.fresh(pname, ctx)
                bound[pname] = v
                ctx.inputs[pname] = (ty, v)
            for (pname, _), ty in zip(ptypes, combo):
                if isinstance(ty, T_SameAs):
                    bound[pname] = bound[ty.other]
            env = c.spec_env(interp, bound)
            for cl in c.requires:
                ctx.assume(interp.as_bool_term(c.eval_spec(interp, cl.expr, env)))
            out.append((vi, [t for t, _ in ctx.pc], dict(ctx.inputs)))
        except PathAbort:
            out.append((vi, [z3.BoolVal(False)], {}))
    return out
