"""Assumed contracts: numpy (DESIGN section 4)."""
import z3
from .values import *
from . import externs as E
from . import vec
from .externs import extern, method, raise_py


@extern("numpy.sum")
def np_sum(interp, args, kwargs, node):
    v = args[0]
    if isinstance(v, VList) and isinstance(v.content, (SymSeq, ConcreteSeq)):
        return vec.vec_sum(interp, v)
    if isinstance(v, VObj):
        return interp.born(E.opaque(interp, "numpy.sum", args, kwargs, "npscalar"))
    raise Unsupported(f"np.sum of {v!r}")


@extern("numpy.asarray", "numpy.array")
def np_asarray(interp, args, kwargs, node):
    v = args[0]
    if isinstance(v, VList) and isinstance(v.content, SymSeq) and v.kind in ("list", "tuple", "ndarray"):
        if v.kind == "ndarray":
            return v
        r = VList(SymSeq(v.content.length, v.content.at, v.content.elem_kind), "ndarray")
        if getattr(v, "poly", None) is None and isinstance(v.content.elem_kind, (vec.T_IntT, vec.T_RealT)):
            vec.base_poly(interp, v)
        r.poly = getattr(v, "poly", None)
        return interp.born(r)
    if isinstance(v, VObj):
        return interp.born(E.opaque(interp, "numpy.asarray", args, kwargs, "ndarray"))
    raise Unsupported(f"np.asarray of {v!r}")


def keep_id(src, dst):
    for a in ("sid", "poly", "vec_name", "labels"):
        if getattr(src, a, None) is not None and a != "labels":
            setattr(dst, a, getattr(src, a))
    return dst


def as_ndarray(interp, v):
    """positional ndarray view of a list / tuple / Series / ndarray value (same elements, same identity)"""
    if isinstance(v, VList) and isinstance(v.content, (SymSeq, ConcreteSeq)):
        if v.kind == "ndarray":
            return v
        if isinstance(v.content, SymSeq) and isinstance(v.content.elem_kind, (vec.T_IntT, vec.T_RealT)) \
                and getattr(v, "poly", None) is None:
            vec.base_poly(interp, v)
        c = v.content
        r = VList(SymSeq(c.length, c.at, c.elem_kind) if isinstance(c, SymSeq) else ConcreteSeq(list(c.items)), "ndarray")
        return interp.born(keep_id(v, r))
    raise Unsupported(f"as_ndarray of {v!r}")


EXTERNS = E.EXTERNS
EXTERNS["numpy.asarray"] = EXTERNS["numpy.array"] = lambda interp, args, kwargs, node: (
    as_ndarray(interp, args[0]) if isinstance(args[0], VList) and isinstance(args[0].content, (SymSeq, ConcreteSeq))
    else interp.born(E.opaque(interp, "numpy.asarray", args, kwargs, "ndarray")))


def _series_to_numpy(interp, sv, args, kwargs, node):
    interp.ctx.assumed.add("extern:pandas.Series.to_numpy (positional values)")
    r = as_ndarray(interp, VList(sv.content, "list"))
    return keep_id(sv, r)


E.METHODS[("Series", "to_numpy")] = _series_to_numpy


def _arr_getattr(interp, base, attr, node):
    if isinstance(base, VList) and base.kind == "ndarray" and isinstance(base.content, (SymSeq, ConcreteSeq)):
        if attr == "shape":
            return VTuple([VInt(interp.seq_len(base))])
        if attr == "size":
            return VInt(interp.seq_len(base))
    return None


E.HOOKS["getattr"].append(_arr_getattr)


# ---- counting: np.unique / np.intersect1d with the imported lemma L-count -------------------

def seq_id(v):
    sid = getattr(v, "sid", None)
    if sid is None and isinstance(v, VList) and isinstance(v.content, SymSeq):
        # a derived sequence of scalars (e.g. a comprehension over a named sequence): identified by its defining expression
        try:
            probe = v.content.at(z3.Int("k!canon"))
            if isinstance(probe, (VInt, VReal, VStr, VBool)):
                import hashlib
                sid = "derived:" + hashlib.sha1((z3.simplify(probe.term).sexpr() + "|" + z3.simplify(v.content.length).sexpr()).encode()).hexdigest()[:12]
                v.sid = sid
        except Unsupported:
            sid = None
    if sid is None:
        raise Unsupported("sequence without identity (needed for coinc / cross)")
    return sid


def coinc_sym(interp, v):
    """number of ordered pairs of distinct positions of v holding equal elements"""
    sid = seq_id(v)
    c = z3.Int(f"coinc[{sid}]")
    ctx = interp.ctx
    if not hasattr(ctx, "coinc_seqs"):
        ctx.coinc_seqs = {}
    if sid in ctx.coinc_seqs:
        return c
    n = interp.seq_len(v)
    ctx.assume(z3.And(c >= 0, c <= n * (n - 1)), "spec:coinc is a count of ordered pairs of distinct positions (0 <= coinc <= N(N-1))")
    # lemma L-coinc-cong (Lean): sequences with the same equality pattern have the same coinc.
    # Used in Skolemised contrapositive form (quantifier-free): if the counts differ, some pair of
    # positions (i0, j0) is equal in one sequence and different in the other.
    for sid2, (v2, c2) in ctx.coinc_seqs.items():
        n2 = interp.seq_len(v2)
        i0, j0 = ctx.fresh("i_cc", z3.IntSort()), ctx.fresh("j_cc", z3.IntSort())
        differ = z3.And(0 <= i0, i0 < n, 0 <= j0, j0 < n,
                        interp.veq(interp.seq_at(v, i0), interp.seq_at(v, j0)) !=
                        interp.veq(interp.seq_at(v2, i0), interp.seq_at(v2, j0)))
        ctx.assume(z3.Implies(n == n2, z3.Or(c == c2, differ)),
                   "lemma:L-coinc-cong (Lean) equal length and equal equality pattern imply equal coinc")
    ctx.coinc_seqs[sid] = (v, c)
    return c


def cross_sym(interp, a, b):
    key = (seq_id(a), seq_id(b))
    c = z3.Int(f"cross[{key[0]},{key[1]}]")
    ctx = interp.ctx
    if not hasattr(ctx, "cross_seqs"):
        ctx.cross_seqs = {}
    if key in ctx.cross_seqs:
        return c
    na, nb = interp.seq_len(a), interp.seq_len(b)
    ctx.assume(z3.And(c >= 0, c <= na * nb), "spec:cross is a count of position pairs (0 <= cross <= N1*N2)")
    for key2, (a2, b2, c2) in ctx.cross_seqs.items():
        i0, j0 = ctx.fresh("i_cx", z3.IntSort()), ctx.fresh("j_cx", z3.IntSort())
        differ = z3.And(0 <= i0, i0 < na, 0 <= j0, j0 < nb,
                        interp.veq(interp.seq_at(a, i0), interp.seq_at(b, j0)) !=
                        interp.veq(interp.seq_at(a2, i0), interp.seq_at(b2, j0)))
        ctx.assume(z3.Implies(z3.And(na == interp.seq_len(a2), nb == interp.seq_len(b2)), z3.Or(c == c2, differ)),
                   "lemma:L-coinc-cong (Lean, two-sample form) equal lengths and equal cross-equality pattern imply equal cross")
    ctx.cross_seqs[key] = (a, b, c)
    return c


@extern("numpy.unique")
def np_unique(interp, args, kwargs, node):
    arr = args[0]
    rc = kwargs.get("return_counts")
    if not (isinstance(arr, VList) and isinstance(arr.content, SymSeq)):
        raise Unsupported(f"np.unique of {arr!r}")
    if "axis" in kwargs or "return_index" in kwargs or "return_inverse" in kwargs:
        raise Unsupported("np.unique options")
    ctx = interp.ctx
    sid = seq_id(arr)
    if not hasattr(ctx, "memo"):
        ctx.memo = {}
    want_counts = rc is not None and concrete_bool(interp.as_bool_term(rc)) is True
    if ("uniq", sid) in ctx.memo:
        vals, cnt = ctx.memo[("uniq", sid)]
        return VTuple([vals, cnt]) if want_counts else vals
    n = interp.seq_len(arr)
    nu = z3.Int(f"nuniq[{sid}]")
    ctx.assume(z3.And(nu >= 0, nu <= n, z3.Implies(n > 0, nu >= 1)), "extern:numpy.unique (sorted distinct values)")
    ek = arr.content.elem_kind
    if ek is None:
        try:
            probe = arr.content.at(z3.Int("k!canon"))
            ek = types_IntT(np=True) if isinstance(probe, VInt) else vec.T_RealT(np=True) if isinstance(probe, VReal) else None
        except Unsupported:
            ek = None
    if ek is None:
        vals = VObj("ndarray", ctx.fresh(f"uniq_{sid}", OBJ))
    else:
        vals = types_SeqT(ek, "ndarray", distinct=True).fresh(f"uniq_{sid}", ctx)
        ctx.assume(vals.content.length == nu)
    vals.uniq_of = arr
    cnt = types_SeqT(types_IntT(lo=1), "ndarray").fresh(f"ucnt_{sid}", ctx)
    ctx.assume(cnt.content.length == nu)
    cnt.vec_name = f"ucnt_{sid}"
    vec.base_poly(interp, cnt)
    cnt.uniq_of = arr
    s1 = vec.sum_symbol(interp, ((cnt.vec_name, 1),))
    s2 = vec.sum_symbol(interp, ((cnt.vec_name, 2),))
    ctx.assume(s1 == n, "extern:numpy.unique(return_counts): multiplicities sum to the length")
    ctx.assume(s2 - s1 == coinc_sym(interp, arr),
               "lemma:L-count (Lean) sum_v m_v(m_v-1) = number of ordered coinciding pairs of distinct positions")
    if isinstance(ek, (types_IntT, vec.T_RealT)):
        s_, t_ = z3.Int("s!u"), z3.Int("t!u")
        va = lambda q: vals.content.at(q).term
        ctx.assume(z3.ForAll([s_, t_], z3.Implies(z3.And(0 <= s_, s_ < t_, t_ < nu), va(s_) < va(t_))),
                   "extern:numpy.unique returns the distinct values in increasing order")
        upos = ctx.fresh_fun("uniq_pos", z3.IntSort(), z3.IntSort())
        ctx.assume(z3.ForAll([t_], z3.Implies(z3.And(0 <= t_, t_ < nu),
                                              z3.And(0 <= upos(t_), upos(t_) < n, arr.content.at(upos(t_)).term == va(t_))),
                             patterns=[upos(t_)]), "extern:numpy.unique returns values that occur in its argument")
        src = getattr(arr, "sub_of", None)
        if src is not None and not getattr(arr, "with_replacement", True) and getattr(src, "blocks", None) is not None:
            # L-inj-count (Lean: Lemmas/InjCount.lean): positions drawn WITHOUT replacement are pairwise distinct, so a value is
            # drawn at most as often as it occurs in the source; in concatenate(repeat(v_k, c_k)) with pairwise distinct v_k
            # (v_k = k here) value v_k occurs exactly c_k times
            m_, start_, block_, cnt_, val_ = src.blocks
            kk = z3.Int("k!canon")
            if z3.eq(z3.simplify(val_(kk).term), kk):
                ca = lambda q: cnt.content.at(q).term
                ctx.assume(z3.ForAll([t_], z3.Implies(z3.And(0 <= t_, t_ < nu), ca(t_) <= cnt_(va(t_))), patterns=[ca(t_)]),
                           "lemma:L-inj-count (Lean) a value is drawn without replacement at most as often as it occurs in the source")
    if isinstance(ek, T_StrT_):
        # string labels: every element occurs among the unique values, the unique values occur in the argument, and the count of a
        # unique value is the number of its occurrences (occ: an uninterpreted function of the value, named by the sequence)
        t_, i_ = z3.Int("t!u"), z3.Int("i!u")
        va = lambda q: vals.content.at(q).term
        ca = lambda q: cnt.content.at(q).term
        upos = z3.Function(f"uniq_pos[{sid}]", z3.IntSort(), z3.IntSort())
        uidx = z3.Function(f"uniq_idx[{sid}]", z3.IntSort(), z3.IntSort())
        occ = z3.Function(f"occurrences[{sid}]", z3.StringSort(), z3.IntSort())
        lab = "extern:numpy.unique(return_counts=True): the distinct values of the argument with their numbers of occurrences"
        ctx.assume(z3.ForAll([t_], z3.Implies(z3.And(0 <= t_, t_ < nu), z3.And(0 <= upos(t_), upos(t_) < n, arr.content.at(upos(t_)).term == va(t_),
                                                                            ca(t_) == occ(va(t_)), ca(t_) >= 1)), patterns=[va(t_)]), lab)
        ctx.assume(z3.ForAll([i_], z3.Implies(z3.And(0 <= i_, i_ < n), z3.And(0 <= uidx(i_), uidx(i_) < nu, va(uidx(i_)) == arr.content.at(i_).term,
                                                                            occ(arr.content.at(i_).term) >= 1)),
                             patterns=[arr.content.at(i_).term]), lab)
        vals.uniq_pair, cnt.uniq_pair = cnt, vals
    ctx.memo[("uniq", sid)] = (vals, cnt)
    return VTuple([interp.born(vals), interp.born(cnt)]) if want_counts else vals


from .types import SeqT as types_SeqT, IntT as types_IntT, StrT as T_StrT_


@extern("numpy.intersect1d")
def np_intersect1d(interp, args, kwargs, node):
    v1, v2 = args[0], args[1]
    ri = kwargs.get("return_indices")
    au = kwargs.get("assume_unique")
    if getattr(v1, "uniq_of", None) is None or getattr(v2, "uniq_of", None) is None:
        raise Unsupported("np.intersect1d is modelled for np.unique outputs only")
    ctx = interp.ctx
    call = ctx.fresh("isect", z3.IntSort())
    common = types_SeqT(v1.content.elem_kind, "ndarray", distinct=True).fresh("common", ctx)
    if not (ri is not None and concrete_bool(interp.as_bool_term(ri)) is True):
        return common
    i1 = VObj("intersect_idx")
    i1.side, i1.of, i1.call = 1, v1.uniq_of, (v1.uniq_of, v2.uniq_of)
    i2 = VObj("intersect_idx")
    i2.side, i2.of, i2.call = 2, v2.uniq_of, (v1.uniq_of, v2.uniq_of)
    ctx.assumed.add("extern:numpy.intersect1d(assume_unique, return_indices): common values with their positions in each argument")
    return VTuple([common, i1, i2])


def _gather_index(interp, base, idx, node):
    if isinstance(idx, VObj) and idx.tag == "intersect_idx" and isinstance(base, VList):
        ctx = interp.ctx
        g = types_SeqT(types_IntT(lo=0), "ndarray").fresh("gather", ctx)
        g.gather = (idx, getattr(base, "uniq_of", None))
        return g
    return None


E.HOOKS["index"].append(_gather_index)


def _gather_mul(interp, opn, a, b, node):
    ga, gb = getattr(a, "gather", None), getattr(b, "gather", None)
    if opn != "Mult" or ga is None or gb is None:
        return None
    ia, ca = ga
    ib, cb = gb
    ctx = interp.ctx
    prod = types_SeqT(types_IntT(lo=0), "ndarray").fresh("matched", ctx)
    prod.vec_name = f"matched{len(getattr(ctx, 'vec_bases', {}))}"
    vec.base_poly(interp, prod)
    ok = (ia.call == ib.call and {ia.side, ib.side} == {1, 2} and ca is ia.of and cb is ib.of)
    if ok:
        first, second = ia.call
        s = vec.sum_symbol(interp, ((prod.vec_name, 1),))
        ctx.assume(s == cross_sym(interp, first, second),
                   "lemma:L-count (Lean) sum over common values of m_v*m'_v = number of coinciding cross pairs")
    return prod


E.HOOKS["binop"].insert(0, _gather_mul)


from . import spec as S


@S.spec("coinc")
def _coinc(interp, args, kwargs, node):
    return VInt(coinc_sym(interp, args[0]))


@S.spec("cross")
def _cross(interp, args, kwargs, node):
    return VInt(cross_sym(interp, args[0], args[1]))


@S.spec("as_array")
def _as_array(interp, args, kwargs, node):
    return as_ndarray(interp, args[0])


@S.spec("ucounts")
def _ucounts(interp, args, kwargs, node):
    """multiplicity vector of a sample (the counts np.unique(..., return_counts=True) returns)"""
    r = np_unique(interp, [as_ndarray(interp, args[0])], {"return_counts": VBool(True)}, node)
    return r.items[1]


# ---- scalar math / constructors ----------------------------------------------------------------------------

@extern("numpy.ceil")
def np_ceil(interp, args, kwargs, node):
    x = to_real(args[0])
    interp.ctx.assumed.add("extern:numpy.ceil / numpy.floor are the mathematical ceiling / floor (float-as-real)")
    return VReal(z3.ToReal(-z3.ToInt(-x)), True)


@extern("numpy.floor")
def np_floor(interp, args, kwargs, node):
    v = args[0]
    if isinstance(v, VObj):
        return interp.born(E.opaque(interp, "numpy.floor", args, kwargs, "ndarray"))
    x = to_real(v)
    interp.ctx.assumed.add("extern:numpy.ceil / numpy.floor are the mathematical ceiling / floor (float-as-real)")
    return VReal(z3.ToReal(z3.ToInt(x)), True)


@extern("numpy.sqrt")
def np_sqrt(interp, args, kwargs, node):
    return E.sqrt(interp, args[0], node)


def _wide_dtype(dt):
    """'int' / 'float' for the dtypes whose arithmetic is modelled (unbounded ints, reals); narrow integer / float dtypes wrap around or
    round and are outside the assumed contracts"""
    name = concrete_str(dt) if isinstance(dt, VStr) else (dt.name if isinstance(dt, VType) else None)
    if name in ("int", "int64", "numpy.int64", "intp"):
        return "int"
    if name in ("float", "float64", "numpy.float64", "double"):
        return "float"
    raise Unsupported(f"array dtype {name or dt!r}: narrow or unknown dtypes (overflow / rounding) are not modelled")


@extern("numpy.zeros")
def np_zeros(interp, args, kwargs, node):
    n = args[0]
    if not isinstance(n, VInt):
        raise Unsupported("np.zeros with a non-integer shape")
    dt = kwargs.get("dtype")
    z = VInt(0, True) if (dt is not None and _wide_dtype(dt) == "int") else VReal(0, True)
    ek = types_IntT(np=True) if isinstance(z, VInt) else vec.T_RealT(np=True)
    interp.ctx.assumed.add("extern:numpy.zeros(n) is a fresh array of n zeros")
    if not interp.spec_mode:
        short = (interp.current_qualname or "").replace("pyrepseq.", "")
        interp.ctx.oblige(f"{short}/call-pre[numpy.zeros.nonnegative]@L{getattr(node, 'lineno', '?')}", n.term >= 0,
                          kind="call-pre", line=getattr(node, "lineno", None))
    return interp.born(VList(SymSeq(n.term, lambda k: z, ek), "ndarray"))


# ---- uninitialised arrays and 2-D arrays ----------------------------------------------------------------------

class VMatrix(VObj):
    """2-D numeric array given cell-wise: cell(r, c) -> Value"""

    def __init__(self, nrows, ncols, cell):
        super().__init__("ndarray2d")
        self.nrows, self.ncols, self.cell = nrows, ncols, cell


@extern("numpy.empty")
def np_empty(interp, args, kwargs, node):
    shape = args[0]
    ctx = interp.ctx
    ctx.assumed.add("extern:numpy.empty(shape, dtype) is a fresh array of that shape with arbitrary content; the value stored by a[k] = v "
                    "is v (dtype conversion / overflow not modelled)")
    if isinstance(shape, VInt):
        f = ctx.fresh_fun("empty", z3.IntSort(), z3.RealSort())
        if not interp.spec_mode:
            short = (interp.current_qualname or "").replace("pyrepseq.", "")
            ctx.oblige(f"{short}/call-pre[numpy.empty.nonnegative]@L{getattr(node, 'lineno', '?')}", shape.term >= 0,
                       kind="call-pre", line=getattr(node, "lineno", None))
        return interp.born(VList(SymSeq(shape.term, lambda k: VReal(f(k), True), vec.T_RealT(np=True)), "ndarray"))
    if isinstance(shape, VTuple) and len(shape.items) == 2:
        f = ctx.fresh_fun("empty2", z3.IntSort(), z3.IntSort(), z3.RealSort())
        m = VMatrix(to_int(shape.items[0]), to_int(shape.items[1]), lambda r, c: VReal(f(r, c), True))
        return interp.born(m)
    raise Unsupported("np.empty shape")


def _matrix_setitem(interp, base, idx, v, node):
    if isinstance(base, VMatrix) and isinstance(idx, VTuple) and len(idx.items) == 2:
        interp.check_mutable_target(base, node, "[i, j] =")
        r0, c0 = to_int(idx.items[0]), to_int(idx.items[1])
        if not interp.spec_mode:
            ok = z3.And(r0 >= 0, r0 < base.nrows, c0 >= 0, c0 < base.ncols)
            if not interp.ctx.decide(ok, getattr(node, "lineno", "")):
                raise_py(interp, "IndexError", "index out of bounds", node)
        old = base.cell
        base.cell = lambda r, c: interp.v_ite(z3.And(r == r0, c == c0), v, old(r, c))
        return True
    return None


E.HOOKS["setitem"].append(_matrix_setitem)


def _matrix_index(interp, base, idx, node):
    if isinstance(base, VMatrix) and isinstance(idx, VTuple) and len(idx.items) == 2:
        return base.cell(to_int(idx.items[0]), to_int(idx.items[1]))
    return None


E.HOOKS["index"].append(_matrix_index)


class MatrixT(vec.T_SeqT.__mro__[1]):
    """fresh 2-D real array (for loop-invariant havoc)"""

    def family(self, name, ctx, psorts):
        nr, nc = ctx.fresh(name + "_nrows", z3.IntSort()), ctx.fresh(name + "_ncols", z3.IntSort())
        f = ctx.fresh_fun(name + "_cell", z3.IntSort(), z3.IntSort(), z3.RealSort())
        ctx.assume(z3.And(nr >= 0, nc >= 0))
        return lambda p: VMatrix(nr, nc, lambda r, c: VReal(f(r, c), True))

    def decode(self, model, value):
        return {"t": "opaque", "tag": "ndarray2d"}


from . import types as _T
_T.NAMESPACE.update(MatrixT=MatrixT)


@S.spec("cell")
def _cell(interp, args, kwargs, node):
    m, r, c = args
    return m.cell(to_int(r), to_int(c))


@S.spec("shape2")
def _shape2(interp, args, kwargs, node):
    m = args[0]
    return VTuple([VInt(m.nrows), VInt(m.ncols)])


# ---- random sub-sampling --------------------------------------------------------------------------------------

@extern("numpy.random.choice")
def np_random_choice(interp, args, kwargs, node):
    """choice(a, size, replace=False): `size` elements of a at pairwise distinct positions (a sub-multiset), REQUIRES size <= len(a);
    which positions: uniformly random (assumed of the generator, not decided)"""
    a = args[0]
    size = kwargs.get("size", args[1] if len(args) > 1 else None)
    rep = kwargs.get("replace", args[2] if len(args) > 2 else VBool(True))
    ctx = interp.ctx
    ov = E.ordered_view(interp, a, node)
    if ov is None or size is None:
        raise Unsupported("np.random.choice argument form")
    n, at = ov
    m = to_int(size)
    without = concrete_bool(interp.as_bool_term(rep)) is False
    short = (interp.current_qualname or "").replace("pyrepseq.", "")
    line = getattr(node, "lineno", "?")
    if without and not interp.spec_mode:
        if not ctx.decide(z3.And(m >= 0, m <= n), line):
            raise_py(interp, "ValueError", "Cannot take a larger sample than population when 'replace=False'", node)
    idx = ctx.fresh_fun("choice_idx", z3.IntSort(), z3.IntSort())
    i, j = z3.Int("i!ch"), z3.Int("j!ch")
    ctx.assume(z3.ForAll([i], z3.Implies(z3.And(0 <= i, i < m), z3.And(idx(i) >= 0, idx(i) < n))),
               "extern:numpy.random.choice draws positions of its first argument")
    if without:
        ctx.assume(z3.ForAll([i, j], z3.Implies(z3.And(0 <= i, i < j, j < m), idx(i) != idx(j))),
                   "extern:numpy.random.choice(replace=False) draws pairwise distinct positions")
    ek = a.content.elem_kind if isinstance(a, VList) and isinstance(a.content, SymSeq) else None
    r = VList(SymSeq(m, lambda k: at(idx(k)), ek), "ndarray")
    r.sub_of, r.sub_idx, r.with_replacement = a, idx, not without
    r.sid = f"choice({getattr(a, 'sid', '?')})@L{line}"
    return interp.born(r)


# ---- point-wise numeric functions, random numbers, masks ------------------------------------------------------
log_f = z3.Function("ln", z3.RealSort(), z3.RealSort())


def _ln(interp, x):
    ctx = interp.ctx
    if ("ax", "ln") not in ctx.axioms_added:
        ctx.axioms_added.add(("ax", "ln"))
        u = z3.Real("u!ln")
        ctx.assume_global(z3.And(log_f(z3.RealVal(1)) == 0,
                                 z3.ForAll([u], z3.And(z3.Implies(u > 1, log_f(u) > 0), z3.Implies(z3.And(u > 0, u < 1), log_f(u) < 0)),
                                           patterns=[log_f(u)])),
                          "float-as-real: numpy.log is the real natural logarithm (uninterpreted; ln 1 = 0, ln x > 0 iff x > 1 for x > 0)")
    return log_f(x)


def np_log(interp, args, kwargs, node):
    v = args[0]
    if isinstance(v, (VInt, VReal)):
        return VReal(_ln(interp, to_real(v)), True)
    if isinstance(v, VList) and isinstance(v.content, SymSeq):
        return vec.pointwise(interp, v.content.length, lambda k: VReal(_ln(interp, to_real(v.content.at(k))), True))
    return interp.born(E.opaque(interp, "numpy.log", args, kwargs, "ndarray"))


E.EXTERNS["numpy.log"] = np_log
_np_floor_scalar = E.EXTERNS["numpy.floor"]


def np_floor2(interp, args, kwargs, node):
    v = args[0]
    if isinstance(v, VList) and isinstance(v.content, SymSeq):
        interp.ctx.assumed.add("extern:numpy.ceil / numpy.floor are the mathematical ceiling / floor (float-as-real)")
        return vec.pointwise(interp, v.content.length, lambda k: VReal(z3.ToReal(z3.ToInt(to_real(v.content.at(k)))), True))
    return _np_floor_scalar(interp, args, kwargs, node)


E.EXTERNS["numpy.floor"] = np_floor2


@extern("numpy.random.rand")
def np_random_rand(interp, args, kwargs, node):
    n = to_int(args[0])
    ctx = interp.ctx
    f = ctx.fresh_fun("rand", z3.IntSort(), z3.RealSort())
    k = z3.Int("k!r")
    ctx.assume(z3.ForAll([k], z3.And(f(k) >= 0, f(k) < 1), patterns=[f(k)]),
               "extern:numpy.random.rand(n) returns n floats in [0, 1) (uniformity assumed, not decided)")
    if not interp.spec_mode:
        short = (interp.current_qualname or "").replace("pyrepseq.", "")
        ctx.oblige(f"{short}/call-pre[numpy.random.rand.nonnegative]@L{getattr(node, 'lineno', '?')}", n >= 0, kind="call-pre",
                   line=getattr(node, "lineno", None))
    return vec.pointwise(interp, n, lambda j: VReal(f(j), True))


def _mask_index(interp, base, idx, node):
    """a[a >= t] : the sub-vector of the entries satisfying the mask (order kept); b[a >= t] for a vector b of the same length: the
    entries of b at the positions where the mask holds"""
    if isinstance(base, VList) and base.kind == "ndarray" and isinstance(idx, VObj) and idx.tag == "mask" and idx.of is base:
        return filtered_vector(interp, base, idx.opn, idx.bound)
    if isinstance(base, VList) and base.kind == "ndarray" and isinstance(base.content, SymSeq) and isinstance(idx, VObj) and idx.tag == "mask" \
            and isinstance(idx.of.content, SymSeq):
        return parallel_filter(interp, base, idx.of, idx.opn, idx.bound, node)
    return None


def parallel_filter(interp, base, keyvec, opn, bound, node):
    ctx = interp.ctx
    n = base.content.length
    if not interp.spec_mode:
        short = (interp.current_qualname or "").replace("pyrepseq.", "")
        ctx.oblige(f"{short}/call-pre[boolean mask has the length of the indexed array]@L{getattr(node, 'lineno', '?')}",
                   keyvec.content.length == n, kind="call-pre", line=getattr(node, "lineno", None))
    cmpf = {"GtE": lambda x, y: x >= y, "Gt": lambda x, y: x > y, "LtE": lambda x, y: x <= y, "Lt": lambda x, y: x < y}[opn]
    holds = lambda t: cmpf(to_real(keyvec.content.at(t)), to_real(bound))
    m = ctx.fresh("nkept", z3.IntSort())
    iota = ctx.fresh_fun("kept_pos", z3.IntSort(), z3.IntSort())
    inv = ctx.fresh_fun("kept_idx", z3.IntSort(), z3.IntSort())
    j, j2, t = z3.Int("j!pf"), z3.Int("j2!pf"), z3.Int("t!pf")
    lab = "extern:numpy boolean-mask indexing b[mask]: the entries of b at exactly the positions where the mask holds, in order"
    ctx.assume(z3.And(m >= 0, m <= n), lab)
    ctx.assume(z3.ForAll([j], z3.Implies(z3.And(0 <= j, j < m), z3.And(0 <= iota(j), iota(j) < n, holds(iota(j)), inv(iota(j)) == j)),
                         patterns=[iota(j)]), lab)
    ctx.assume(z3.ForAll([j, j2], z3.Implies(z3.And(0 <= j, j < j2, j2 < m), iota(j) < iota(j2))), lab)
    bt = lambda q: base.content.at(q).term
    ctx.assume(z3.ForAll([t], z3.Implies(z3.And(0 <= t, t < n, holds(t)), z3.And(0 <= inv(t), inv(t) < m, iota(inv(t)) == t,
                                                                                 bt(iota(inv(t))) == bt(t))),
                         patterns=[inv(t), bt(t)]), lab)
    r = VList(SymSeq(m, lambda q: base.content.at(iota(q)), base.content.elem_kind), "ndarray")
    r.sid = f"{getattr(base, 'sid', 'v')}[mask@L{getattr(node, 'lineno', '?')}]"
    r.kept = (iota, inv, keyvec, opn, bound, base)
    return interp.born(r)


def filtered_vector(interp, base, opn, bound):
    ctx = interp.ctx
    if not hasattr(ctx, "memo"):
        ctx.memo = {}
    ff = getattr(base, "filter_key", None)
    if ff is not None and ff == (opn, z3.simplify(to_real(bound)).sexpr()):
        return base         # filtering again with the same mask changes nothing (every entry already passes)
    key = ("filter", getattr(base, "sid", id(base)), opn, z3.simplify(to_real(bound)).sexpr())
    if key in ctx.memo:
        return ctx.memo[key]
    sid = f"{getattr(base, 'sid', 'v')}[{opn} {z3.simplify(to_real(bound))}]"
    n = z3.Int(f"len[{sid}]")
    ek = base.content.elem_kind
    f = z3.Function(f"at[{sid}]", z3.IntSort(), ek.sort())
    j = z3.Int("j!f")
    cmpf = {"GtE": lambda x, y: x >= y, "Gt": lambda x, y: x > y, "LtE": lambda x, y: x <= y, "Lt": lambda x, y: x < y}[opn]
    ctx.assume(z3.And(n >= 0, n <= base.content.length), "extern:numpy boolean-mask indexing a[mask] keeps exactly the entries where the mask holds, in order")
    fj = ek.wrap(f(j))
    ctx.assume(z3.ForAll([j], z3.Implies(z3.And(0 <= j, j < n), cmpf(to_real(fj), to_real(bound))), patterns=[f(j)]))
    r = VList(SymSeq(n, lambda k: ek.wrap(f(k)), ek), "ndarray")
    r.sid = sid
    r.vec_name = sid
    r.filtered_from = base
    r.filter_key = (opn, z3.simplify(to_real(bound)).sexpr())
    r.pointwise = True
    r.poly = None
    interp.born(r)
    ctx.memo[key] = r
    return r


E.HOOKS["index"].insert(0, _mask_index)


def _mask_cmp(interp, opn, a, b, node):
    if isinstance(a, VList) and a.kind == "ndarray" and isinstance(a.content, SymSeq) and isinstance(b, (VInt, VReal)) \
            and opn in ("GtE", "Gt", "LtE", "Lt") and isinstance(a.content.elem_kind, (vec.T_IntT, vec.T_RealT)):
        m = VObj("mask")
        m.of, m.opn, m.bound = a, opn, b
        return m
    return None


E.HOOKS["cmp"].insert(0, _mask_cmp)


@S.spec("filtered")
def _filtered(interp, args, kwargs, node):
    """the entries of vector c that are >= cmin (in order)"""
    c, cmin = args
    return filtered_vector(interp, as_ndarray(interp, c), "GtE", cmin)


@S.spec("ln")
def _ln_spec(interp, args, kwargs, node):
    return np_log(interp, args, kwargs, node)


# ---- repeat / concatenate: "unpacking" a count vector into one entry per item --------------------------------

@extern("numpy.repeat")
def np_repeat(interp, args, kwargs, node):
    x, cnt = args[0], args[1]
    if isinstance(x, VList) and isinstance(x.content, ConcreteSeq) and len(x.content.items) == 1:
        x = x.content.items[0]
    if not isinstance(x, (VInt, VReal)) or not isinstance(cnt, VInt):
        raise Unsupported("np.repeat argument form")
    if not interp.spec_mode:
        short = (interp.current_qualname or "").replace("pyrepseq.", "")
        interp.ctx.oblige(f"{short}/call-pre[numpy.repeat.count>=0]@L{getattr(node, 'lineno', '?')}", cnt.term >= 0, kind="call-pre",
                          line=getattr(node, "lineno", None))
    return VObj("np_repeat", None, {"value": x, "count": cnt})


_asarray_prev = E.EXTERNS["numpy.array"]


def _np_array_scalar(interp, args, kwargs, node):
    if isinstance(args[0], (VInt, VReal)):
        return args[0]                  # a 0-d array behaves as its scalar in the operations modelled here
    return _asarray_prev(interp, args, kwargs, node)


E.EXTERNS["numpy.array"] = E.EXTERNS["numpy.asarray"] = _np_array_scalar


@extern("numpy.concatenate")
def np_concatenate(interp, args, kwargs, node):
    """concatenate([repeat(v_k, c_k) for k < m]): a vector of length sum c_k in which block k (positions start(k) .. start(k+1)-1)
    holds v_k.  Modelled with a start-offset function (the prefix sums of c)."""
    parts = args[0]
    ctx = interp.ctx
    if not (isinstance(parts, VList) and isinstance(parts.content, SymSeq)):
        raise Unsupported("np.concatenate argument form")
    m = parts.content.length
    probe = parts.content.at(z3.Int("k!probe"))
    if not (isinstance(probe, VObj) and probe.tag == "np_repeat"):
        raise Unsupported("np.concatenate of something else than repeated scalars")
    if not interp.spec_mode:
        if not ctx.decide(m >= 1, getattr(node, "lineno", 0)):
            E.raise_py(interp, "ValueError", "need at least one array to concatenate", node)
    start = ctx.fresh_fun("block_start", z3.IntSort(), z3.IntSort())
    block = ctx.fresh_fun("block_of", z3.IntSort(), z3.IntSort())
    k, p = z3.Int("k!cc"), z3.Int("p!cc")
    cnt = lambda j: parts.content.at(j).attrs["count"].term
    val = lambda j: parts.content.at(j).attrs["value"]
    total = start(m)
    lbl = "extern:numpy.concatenate of numpy.repeat blocks: block k occupies positions start(k) .. start(k)+count_k-1 (start = prefix sums)"
    ctx.assume(start(0) == 0, lbl)
    ctx.assume(z3.ForAll([k], z3.Implies(z3.And(0 <= k, k < m), start(k + 1) == start(k) + cnt(k)), patterns=[start(k + 1)]), lbl)
    ctx.assume(z3.ForAll([p], z3.Implies(z3.And(0 <= p, p < total),
                                         z3.And(0 <= block(p), block(p) < m, start(block(p)) <= p, p < start(block(p) + 1))),
                         patterns=[block(p)]), lbl)
    # total = sum of the counts: tie to the Sum symbol of the count vector when the counts are a vector's entries
    kc = z3.Int("k!canon")
    for _nm, (_ty, _val) in list(ctx.inputs.items()):
        if isinstance(_val, VList) and isinstance(_val.content, SymSeq) and isinstance(_val.content.elem_kind, (vec.T_IntT, vec.T_RealT)) \
                and getattr(_val, "poly", None) is None:
            try:
                if z3.eq(z3.simplify(_val.content.at(kc).term), z3.simplify(cnt(kc))):
                    vec.base_poly(interp, _val)
            except Exception:
                pass
    for bid, b in list(getattr(ctx, "vec_bases", {}).items()):
        try:
            same = z3.eq(z3.simplify(b.content.at(kc).term), z3.simplify(cnt(kc))) and z3.eq(z3.simplify(b.content.length), z3.simplify(m))
        except Exception:
            same = False
        if same:
            ctx.assume(total == vec.sum_symbol(interp, ((bid, 1),)), "extern:numpy.concatenate: the total length is the sum of the block lengths")
            break
    r = VList(SymSeq(total, lambda q: val(block(q)), probe.attrs["value"].__class__ is VInt and vec.T_IntT(np=True) or vec.T_RealT(np=True)), "ndarray")
    r.blocks = (m, start, block, cnt, val)
    r.sid = f"unpacked@L{getattr(node, 'lineno', '?')}"
    r.pointwise = True
    r.poly = None
    return interp.born(r)


def _matrix_binop(interp, opn, a, b, node):
    """cell-wise arithmetic of 2-D arrays with scalars / arrays of the same shape (no broadcasting between different shapes)"""
    ma, mb = isinstance(a, VMatrix), isinstance(b, VMatrix)
    if not (ma or mb) or opn not in ("Add", "Sub", "Mult"):
        return None
    if (ma and not (mb or isinstance(b, (VInt, VReal, VBool)))) or (mb and not (ma or isinstance(a, (VInt, VReal, VBool)))):
        return None
    import ast as _ast
    op = getattr(_ast, opn)()
    ref = a if ma else b
    if ma and mb and not interp.spec_mode:
        short = (interp.current_qualname or "").replace("pyrepseq.", "")
        interp.ctx.oblige(f"{short}/call-pre[array shapes agree]@L{getattr(node, 'lineno', '?')}",
                          z3.And(a.nrows == b.nrows, a.ncols == b.ncols), kind="call-pre", line=getattr(node, "lineno", None))
    ca = (lambda r, c: a.cell(r, c)) if ma else (lambda r, c: a)
    cb = (lambda r, c: b.cell(r, c)) if mb else (lambda r, c: b)
    return interp.born(VMatrix(ref.nrows, ref.ncols, lambda r, c: interp.binop(op, ca(r, c), cb(r, c), node)))


E.HOOKS["binop"].insert(0, _matrix_binop)


@S.spec("matrix_of")
def _matrix_of(interp, args, kwargs, node):
    """matrix_of(n, m, f): the n x m array with cell (r, c) = f(r, c)"""
    n, m, f = args

    def cellf(r, c):
        old_mode = interp.spec_mode
        interp.spec_mode = True          # the cell expression is contract text, whenever it is evaluated
        try:
            return interp.call(f, [VInt(r), VInt(c)], {}, node)
        finally:
            interp.spec_mode = old_mode
    return VMatrix(to_int(n), to_int(m), cellf)



@extern("numpy.random.shuffle")
def np_random_shuffle(interp, args, kwargs, node):
    """shuffle(x): x is permuted IN PLACE (which permutation: the generator's choice)"""
    x = args[0]
    if not (isinstance(x, VList) and isinstance(x.content, SymSeq)) or kwargs or len(args) != 1:
        raise Unsupported("np.random.shuffle argument form")
    interp.check_mutable_target(x, node, " shuffled in place")
    ctx = interp.ctx
    n = x.content.length
    pi = ctx.fresh_fun("perm", z3.IntSort(), z3.IntSort())
    pinv = ctx.fresh_fun("perm_inv", z3.IntSort(), z3.IntSort())
    j = z3.Int("j!sh")
    lab = "extern:numpy.random.shuffle permutes its argument in place"
    ctx.assume(z3.ForAll([j], z3.Implies(z3.And(0 <= j, j < n), z3.And(0 <= pi(j), pi(j) < n, pinv(pi(j)) == j)), patterns=[pi(j)]), lab)
    old = x.content
    ctx.assume(z3.ForAll([j], z3.Implies(z3.And(0 <= j, j < n), z3.And(0 <= pinv(j), pinv(j) < n, pi(pinv(j)) == j,
                                                                        old.at(pi(pinv(j))).term == old.at(j).term)),
                         patterns=[pinv(j), old.at(j).term]), lab)
    x.content = SymSeq(n, lambda q: old.at(pi(q)), old.elem_kind)
    x.shuffled = (pi, pinv)
    return NONE
