"""Assumed contracts: numpy (DESIGN section 4)."""
import z3
from .values import *
from . import externs as E
from . import vec
from .externs import extern, method, raise_py


@extern("numpy.sum")
def np_sum(interp, args, kwargs, node):
    v = args[0]
    if isinstance(v, VList) and isinstance(v.content, (SymSeq, ConcreteSeq)):
        return vec.vec_sum(interp, v)
    if isinstance(v, VObj):
        return interp.born(E.opaque(interp, "numpy.sum", args, kwargs, "npscalar"))
    raise Unsupported(f"np.sum of {v!r}")


@extern("numpy.asarray", "numpy.array")
def np_asarray(interp, args, kwargs, node):
    v = args[0]
    if isinstance(v, VList) and isinstance(v.content, SymSeq) and v.kind in ("list", "tuple", "ndarray"):
        if v.kind == "ndarray":
            return v
        r = VList(SymSeq(v.content.length, v.content.at, v.content.elem_kind), "ndarray")
        if getattr(v, "poly", None) is None and isinstance(v.content.elem_kind, (vec.T_IntT, vec.T_RealT)):
            vec.base_poly(interp, v)
        r.poly = getattr(v, "poly", None)
        return interp.born(r)
    if isinstance(v, VObj):
        return interp.born(E.opaque(interp, "numpy.asarray", args, kwargs, "ndarray"))
    raise Unsupported(f"np.asarray of {v!r}")
