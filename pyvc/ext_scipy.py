"""Assumed contracts: scipy (sparse matrices, squareform, KDTree, hierarchy)."""
import z3
from .values import *
from . import externs as E
from . import spec as S
from . import types as T
from .externs import extern, method, raise_py


def _triple_view(interp, data, row, col, node):
    """(n, data_at, row_at, col_at) for three index-aligned lists"""
    views = [E.ordered_view(interp, v, node) for v in (data, row, col)]
    if any(v is None for v in views):
        raise Unsupported("coo_matrix from unordered (non index-aligned) lists")
    return views


@extern("scipy.sparse.coo_matrix")
def coo_matrix(interp, args, kwargs, node):
    """coo_matrix((data, (row, col)), shape): entries at equal (row, col) are summed when densified.
    Modelled under the pre-condition that no (row, col) pair occurs twice (an obligation at the call)."""
    ctx = interp.ctx
    a0 = args[0]
    if not (isinstance(a0, VTuple) and len(a0.items) == 2 and isinstance(a0.items[1], VTuple)):
        raise Unsupported("coo_matrix argument form")
    data, (row, col) = a0.items[0], a0.items[1].items
    shape = kwargs.get("shape")
    (n, dat), (n2, rat), (n3, cat) = _triple_view(interp, data, row, col, node)
    short = interp.current_qualname.replace("pyrepseq.", "")
    line = getattr(node, "lineno", "?")
    i, j = ctx.fresh("i", z3.IntSort()), ctx.fresh("j", z3.IntSort())
    ctx.oblige(f"{short}/call-pre[coo_matrix.no-duplicate-entries]@L{line}",
               z3.ForAll([i, j], z3.Implies(z3.And(0 <= i, i < j, j < n),
                                            z3.Not(z3.And(to_int(rat(i)) == to_int(rat(j)), to_int(cat(i)) == to_int(cat(j)))))),
               kind="call-pre", line=line)
    nr, nc = [to_int(x) for x in shape.items]
    ctx.oblige(f"{short}/call-pre[coo_matrix.indices-in-shape]@L{line}",
               z3.ForAll([i], z3.Implies(z3.And(0 <= i, i < n),
                                         z3.And(to_int(rat(i)) >= 0, to_int(rat(i)) < nr, to_int(cat(i)) >= 0, to_int(cat(i)) < nc))),
               kind="call-pre", line=line)
    dt = kwargs.get("dtype")
    if dt is not None:
        if isinstance(dt, VType) and dt.name == "int":
            # an integer dtype truncates the stored values
            dat0 = dat
            dat = lambda t: VReal(z3.ToReal(z3.ToInt(to_real(dat0(t)))))
            ctx.assumed.add("extern:scipy.sparse.coo_matrix(dtype=int) truncates the data to integers (non-negative data: floor)")
        elif not (isinstance(dt, VType) and dt.name == "float"):
            raise Unsupported("coo_matrix dtype")
    M = ctx.fresh_fun("M", z3.IntSort(), z3.IntSort(), z3.RealSort())
    w = ctx.fresh_fun("Mw", z3.IntSort(), z3.IntSort(), z3.IntSort())
    r, c, t = z3.Int("r!m"), z3.Int("c!m"), z3.Int("t!m")
    lab = "extern:scipy.sparse.coo_matrix((data,(row,col)),shape) with pairwise distinct (row,col): M[row[t],col[t]] = data[t], 0 elsewhere"
    ctx.assume(z3.ForAll([t], z3.Implies(z3.And(0 <= t, t < n), M(to_int(rat(t)), to_int(cat(t))) == to_real(dat(t)))), lab)
    ctx.assume(z3.ForAll([r, c], z3.Implies(M(r, c) != 0, z3.And(0 <= w(r, c), w(r, c) < n,
                                                                   to_int(rat(w(r, c))) == r, to_int(cat(w(r, c))) == c)),
                         patterns=[M(r, c)]), lab)
    o = VObj("coo_matrix")
    o.M, o.shape = M, (nr, nc)
    return interp.born(o)


@method("coo_matrix", "toarray")
def _toarray(interp, sv, args, kwargs, node):
    o = VObj("dense_matrix")
    o.M, o.shape = sv.M, sv.shape
    interp.ctx.assumed.add("extern:coo_matrix.toarray() is the dense form of the same matrix")
    return interp.born(o)


@S.spec("mat_at")
def _mat_at(interp, args, kwargs, node):
    m, r, c = args
    return VReal(m.M(to_int(r), to_int(c)))


@S.spec("mat_shape")
def _mat_shape(interp, args, kwargs, node):
    m = args[0]
    return VTuple([VInt(m.shape[0]), VInt(m.shape[1])])


@S.spec("is_matrix")
def _is_matrix(interp, args, kwargs, node):
    want = concrete_str(args[1])
    return VBool(isinstance(args[0], VObj) and args[0].tag == want)


# ---- KDTree ---------------------------------------------------------------------------------------------------
from . import ext_strings as XS


@extern("scipy.spatial.KDTree")
def kdtree_ctor(interp, args, kwargs, node):
    pts = args[0]
    ov = E.ordered_view(interp, pts, node)
    if ov is None:
        raise Unsupported("KDTree over an unordered point collection")
    o = VObj("KDTree")
    o.points = ov
    return interp.born(o)


@method("KDTree", "query_ball_point")
def kdtree_qbp(interp, sv, args, kwargs, node):
    """query_ball_point(X, r): for every row of X the indices of the tree points within Euclidean distance <= r,
    each once (float arithmetic idealised as real: r*r is compared with the exact squared distance)"""
    X = args[0]
    r = kwargs.get("r", args[1] if len(args) > 1 else None)
    qv = E.ordered_view(interp, X, node)
    n, pat = sv.points
    nq, qat = qv
    rr = to_real(r)
    interp.ctx.assumed.add("extern:scipy KDTree.query_ball_point(X, r) returns, per query row, exactly the indices within Euclidean "
                           "distance <= r, each once (float-as-real)")

    def at(i):
        qi = qat(i)
        s = VSet(pred=lambda j: z3.And(j.term >= 0, j.term < n, XS.sqd_f(qi.term, pat(j.term).term) <= rr * rr))
        s.elem_kind = T.Int
        s.kind_hint = "list"
        return s
    return interp.born(VList(SymSeq(nq, at, None), "ndarray"))


@extern("scipy.spatial.distance.squareform")
def squareform(interp, args, kwargs, node):
    """squareform(M, checks=False) of a square 2-D array: the condensed vector with v[m*i + j - (i+2)(i+1)/2] = M[i, j] for i < j
    (upper triangle, row-major); squareform(v) of a vector: the symmetric matrix with zero diagonal."""
    from .ext_numpy import VMatrix
    M = args[0]
    ctx = interp.ctx
    short = (interp.current_qualname or "").replace("pyrepseq.", "")
    line = getattr(node, "lineno", "?")
    if isinstance(M, VMatrix):
        ctx.oblige(f"{short}/call-pre[squareform.square]@L{line}", M.nrows == M.ncols, kind="call-pre", line=line)
        m = M.nrows
        ctx.assumed.add("extern:scipy squareform(square matrix, checks=False) is the row-major upper triangle in condensed order")
        f = ctx.fresh_fun("condensed", z3.IntSort(), z3.RealSort())
        i, j = z3.Int("i!sq"), z3.Int("j!sq")
        ctx.assume(z3.ForAll([i, j], z3.Implies(z3.And(0 <= i, i < j, j < m),
                                                f(m * i + j - ((i + 2) * (i + 1)) / 2) == to_real(M.cell(i, j)))))
        from . import vec
        return interp.born(VList(SymSeq((m * (m - 1)) / 2, lambda k: VReal(f(k), True), vec.T_RealT(np=True)), "ndarray"))
    return interp.born(E.opaque(interp, "scipy.spatial.distance.squareform", args, kwargs, "ndarray"))


# ---- scipy.special.zeta, scipy.optimize.minimize_scalar -------------------------------------------------------
zeta_f = z3.Function("zeta", z3.RealSort(), z3.RealSort(), z3.RealSort())


@extern("scipy.special.zeta")
def sp_zeta(interp, args, kwargs, node):
    a, q = to_real(args[0]), to_real(args[1])
    ctx = interp.ctx
    if ("ax", "zeta") not in ctx.axioms_added:
        ctx.axioms_added.add(("ax", "zeta"))
        u, w = z3.Real("u!z"), z3.Real("w!z")
        ctx.assume_global(z3.ForAll([u, w], z3.Implies(z3.And(u > 1, w > 0), zeta_f(u, w) > 0), patterns=[zeta_f(u, w)]),
                          "extern:scipy.special.zeta(a, q) is the Hurwitz zeta function (uninterpreted; positive for a > 1, q > 0)")
    r = zeta_f(a, q)
    return VReal(r, True)


@S.spec("zeta")
def _zeta_spec(interp, args, kwargs, node):
    return sp_zeta(interp, args, kwargs, node)


@extern("scipy.optimize.minimize_scalar")
def sp_minimize_scalar(interp, args, kwargs, node):
    """minimize_scalar(f, bounds=(lo, hi), method='bounded'): an OptimizeResult r; when r.success, lo <= r.x <= hi and
    f(r.x) <= f(a) for every a in [lo, hi].  (scipy's bounded Brent search is a LOCAL optimiser: global optimality is an
    assumption about scipy and about the shape of f -- for the power-law likelihood the objective is convex in alpha.)"""
    ctx = interp.ctx
    f = args[0]
    method = kwargs.get("method")
    bounds = kwargs.get("bounds")
    if method is None or concrete_str(method) != "bounded" or bounds is None:
        raise Unsupported("minimize_scalar: only method='bounded' with bounds is modelled")
    lo, hi = [to_real(interp.seq_at(bounds, z3.IntVal(i))) for i in (0, 1)]
    extra = set(kwargs) - {"method", "bounds"}
    if extra:
        raise Unsupported(f"minimize_scalar options {sorted(extra)}")
    short = (interp.current_qualname or "").replace("pyrepseq.", "")
    if not interp.spec_mode:
        ctx.oblige(f"{short}/call-pre[scipy.optimize.minimize_scalar.bounds-ordered]@L{getattr(node, 'lineno', '?')}", lo <= hi,
                   kind="call-pre", line=getattr(node, "lineno", None))
    a = ctx.fresh("alpha_any", z3.RealSort())
    mark = len(ctx.pc)
    ctx.assume(z3.And(lo <= a, a <= hi))
    fa = to_real(interp.call(f, [VReal(a, True)], {}, node))
    # facts learnt while evaluating f(a) stay (they are about uninterpreted functions at a), generalised over a below
    xopt = ctx.fresh("x_opt", z3.RealSort())
    success = ctx.fresh("opt_success", z3.BoolSort())
    fx = z3.substitute(fa, (a, xopt))
    b = z3.Real("a!opt")
    ctx.assume(z3.Implies(success, z3.And(lo <= xopt, xopt <= hi,
                                          z3.ForAll([b], z3.Implies(z3.And(lo <= b, b <= hi), fx <= z3.substitute(fa, (a, b)))))),
               "extern:scipy.optimize.minimize_scalar(method='bounded'): on success the result minimises the objective over the bounds "
               "(scipy finds a local minimum; equal to the global one for a convex objective such as the negative power-law likelihood)")
    r = VObj("OptimizeResult", None, {"x": VReal(xopt, True), "success": VBool(success)})
    r.objective = (a, fa)
    return interp.born(r)
