"""Path context: decisions, path condition, obligations, fresh names; path exploration by
re-execution with a decision prefix (each path is executed from scratch, so the executor is
ordinary recursive code and mutable symbolic objects never need to be copied at a fork).
"""
import z3
from .values import Unsupported


KNOW = "__knowledge__"


class PathAbort(Exception):
    """The current path ends here (infeasible, or deliberately cut after an invariant check)."""


class Obligation:
    def __init__(self, name, hyps, goal, meta):
        self.name = name
        self.hyps = hyps          # list of (z3 Bool, label|None)
        self.goal = goal          # z3 Bool
        self.meta = meta          # dict: function, kind, line, inputs (for decoding), note

    def formula(self):
        """hyps /\\ not goal  (unsat <=> discharged)"""
        return [h for h, _ in self.hyps] + [z3.Not(self.goal)]


class Scope:
    def __init__(self, prefix):
        self.prefix = list(prefix)
        self.decisions = []       # (choice, n_options, feasible_alternatives)


class Ctx:
    FEAS_TIMEOUT_MS = 1500

    def __init__(self, prefix=()):
        self.scopes = [Scope(prefix)]
        self.pc = []              # list of (term, label)
        self.obligs = []
        self.counters = {}
        self.solver = z3.Solver()
        self.solver.set("timeout", self.FEAS_TIMEOUT_MS)
        self.assumed = set()      # names of assumed contracts / lemmas / idealisations used
        self.acc_frames = []      # R-acc frames (see symex)
        self.notes = []
        self.inputs = {}          # name -> decode descriptor (top-level parameters)
        self.axioms_added = set()
        self.global_facts = []
        self.spec_hyps = []       # antecedents of enclosing `implies` while evaluating a contract clause

    def known(self, cond, timeout_ms=300):
        """True if the path condition (and enclosing spec antecedents) entail cond (cheap check)."""
        t = z3.simplify(cond)
        if z3.is_true(t):
            return True
        if z3.is_false(t):
            return False
        self.solver.push()
        try:
            self.solver.set("timeout", timeout_ms)
            for h in self.spec_hyps:
                self.solver.add(h)
            self.solver.add(z3.Not(cond))
            r = self.solver.check()
        finally:
            self.solver.set("timeout", self.FEAS_TIMEOUT_MS)
            self.solver.pop()
        return r == z3.unsat

    # -- names
    def fresh(self, base, sort):
        base = base.replace("!", "_")
        n = self.counters.get(base, 0)
        self.counters[base] = n + 1
        c = z3.Const(f"{base}!{n}", sort)
        for fr in self.acc_frames:
            fr.setdefault("fresh", []).append(c)
        return c

    def fresh_fun(self, base, *sorts):
        n = self.counters.get(base, 0)
        self.counters[base] = n + 1
        f = z3.Function(f"{base}!{n}", *sorts)
        for fr in self.acc_frames:
            fr.setdefault("fresh_funs", []).append(f)
        return f

    # -- path condition
    def assume_global(self, term, label):
        """a closed, path-independent fact (imported lemma, axiom about a spec function): kept outside the
        path condition so that it survives sub-run resets and never becomes part of a comprehension site"""
        self.global_facts.append((term, label))
        self.assumed.add(label)

    def assume(self, term, label=None, know=True, decision=False):
        """decision=True: a decision of the path (branch taken, loop element chosen) -- stored with label None.
        Otherwise knowledge: an assumed library / callee contract fact, representation invariant of a fresh
        value, invariant of a havoc'd loop state, imported lemma instance (label KNOW or a named label)."""
        if isinstance(term, bool):
            term = z3.BoolVal(term)
        t = z3.simplify(term)
        if z3.is_true(t):
            return
        if not decision and not label:
            label = KNOW
        self.pc.append((term, label))
        if label and label is not KNOW:
            self.assumed.add(label)
        if not _has_quant(term):
            self.solver.add(term)
        if z3.is_false(t):
            raise PathAbort()

    def mark(self):
        self.solver.push()
        return len(self.pc)

    def reset(self, mark):
        del self.pc[mark:]
        self.solver.pop()

    def feasible(self, term=None):
        self.solver.push()
        try:
            if term is not None:
                self.solver.add(term)
            r = self.solver.check()
        finally:
            self.solver.pop()
        return r != z3.unsat

    # -- decisions
    def choose(self, options, site=""):
        """Multi-way choice among z3 Bool `options` (assumed exhaustive; need not be exclusive
        when the caller only wants coverage).  Returns the chosen index; the condition is
        added to the path condition.  Infeasible options are skipped."""
        sc = self.scopes[-1]
        idx = len(sc.decisions)
        if idx < len(sc.prefix):
            c = sc.prefix[idx]
            sc.decisions.append((c, len(options), []))
            self.assume(options[c], decision=True)
            return c
        feas = [i for i, o in enumerate(options) if self.feasible(o)]
        if not feas:
            raise PathAbort()
        c = feas[0]
        sc.decisions.append((c, len(options), feas[1:]))
        self.assume(options[c], decision=True)
        return c

    def decide(self, term, site=""):
        """Two-way fork on a z3 Bool; returns the Python truth value taken on this path."""
        if isinstance(term, bool):
            return term
        t = z3.simplify(term)
        if z3.is_true(t):
            return True
        if z3.is_false(t):
            return False
        return self.choose([term, z3.Not(term)], site) == 0

    # -- obligations
    def oblige(self, name, goal, assume_after=True, extra_hyps=(), **meta):
        if isinstance(goal, bool):
            goal = z3.BoolVal(goal)
        g = z3.simplify(goal)
        meta = dict(meta)
        meta.setdefault("inputs", dict(self.inputs))
        meta.setdefault("function", getattr(self, "function", None))
        self.obligs.append(Obligation(name, list(self.global_facts) + list(self.pc) + list(extra_hyps), goal, meta))
        if z3.is_false(g) or not assume_after:
            return
        # continue under the assumption that the obligation holds
        if not z3.is_true(g):
            self.pc.append((goal, KNOW))
            if not _has_quant(goal):
                self.solver.add(goal)


def _has_quant(t):
    seen = set()
    stack = [t]
    while stack:
        e = stack.pop()
        if z3.is_quantifier(e):
            return True
        i = e.get_id()
        if i in seen:
            continue
        seen.add(i)
        stack.extend(e.children())
    return False


def explore(run, max_paths=4000):
    """Enumerate all paths of `run(ctx)`; returns list of (ctx, result) where result is whatever
    run returns (None for aborted paths, which are dropped)."""
    work = [[]]
    out = []
    n = 0
    while work:
        prefix = work.pop()
        n += 1
        if n > max_paths:
            raise Unsupported(f"more than {max_paths} paths")
        ctx = Ctx(prefix)
        try:
            res = run(ctx)
        except PathAbort:
            res = None
        sc = ctx.scopes[0]
        for i in range(len(prefix), len(sc.decisions)):
            c, nopt, alts = sc.decisions[i]
            for a in alts:
                work.append([d[0] for d in sc.decisions[:i]] + [a])
        # aborted paths (cut after an invariant-preservation check, or infeasible) still carry obligations
        out.append((ctx, res))
    return out


def explore_sub(ctx, run, max_paths=2000):
    """Enumerate all sub-paths of `run()` inside the current path: each sub-run starts from the
    current path condition, which is restored afterwards.  Returns list of
    (pc_delta, obligations_delta, result)."""
    work = [[]]
    out = []
    n = 0
    base_obl = len(ctx.obligs)
    while work:
        prefix = work.pop()
        n += 1
        if n > max_paths:
            raise Unsupported(f"more than {max_paths} sub-paths")
        sc = Scope(prefix)
        ctx.scopes.append(sc)
        mark = ctx.mark()
        obl_mark = len(ctx.obligs)
        # facts assumed inside a sub-run are dropped with its path condition: so must be the memo tables
        # that record "already assumed"
        saved = {k: (set(v) if isinstance(v, set) else dict(v)) for k, v in vars(ctx).items()
                 if k in ("memo", "coinc_seqs", "cross_seqs", "vec_sums", "vec_bases", "join_terms")}
        saved_ax = {a for a in ctx.axioms_added if not (isinstance(a, tuple) and a and a[0] == "ax")}
        keep_ax = lambda: {a for a in ctx.axioms_added if isinstance(a, tuple) and a and a[0] == "ax"}
        try:
            try:
                res = run()
            except PathAbort:
                res = None
            delta = ctx.pc[mark:]
            obl_delta = ctx.obligs[obl_mark:]
        finally:
            ctx.scopes.pop()
            ctx.reset(mark)
            for k, v in saved.items():
                setattr(ctx, k, v)
            ctx.axioms_added = saved_ax | keep_ax()
        del ctx.obligs[obl_mark:]
        for i in range(len(prefix), len(sc.decisions)):
            c, nopt, alts = sc.decisions[i]
            for a in alts:
                work.append([d[0] for d in sc.decisions[:i]] + [a])
        # obligations raised inside a sub-run are kept (they are real proof obligations)
        out.append((list(delta), list(obl_delta), res))
    for delta, obl, res in out:
        ctx.obligs.extend(obl)
    return [(d, o, r) for d, o, r in out if r is not None]
