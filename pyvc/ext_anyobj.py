"""'Any Python object' as a tagged union, for the totality clauses of C18 (isvalidaa / isvalidcdr3).

The domain is the stated union: str | None | float | nan | int | bytes | list / tuple / set of
arbitrary elements | dict with arbitrary keys.  An arbitrary element is a string (tag 0), another
hashable object that is not a string (tag 1) or an unhashable object (tag 2).  The Python data
model facts used (which operations raise which exception for which kind) are assumed and listed.
"""
import z3
from .values import *
from . import externs as E
from . import types as T
from .externs import raise_py


class AnyElemT(T.T):
    def family(self, name, ctx, psorts):
        tag = T._uf(ctx, name + "_tag", psorts, z3.IntSort())
        s = T._uf(ctx, name + "_s", psorts, z3.StringSort())
        ps = [z3.Const(f"p{i}", so) for i, so in enumerate(psorts)]
        ctx.assume(T._forall(ps, z3.And(tag(ps) >= 0, tag(ps) <= 2)))

        def make(p):
            o = VObj("anyelem")
            o.tagterm, o.sterm = tag(p), s(p)
            return o
        return make

    def decode(self, model, value):
        t = T.mval(model, value.tagterm).as_long()
        if t == 0:
            return {"t": "str", "v": T.mval(model, value.sterm).as_string()}
        if t == 1:
            return {"t": "int", "v": 7}
        return {"t": "py", "expr": "[1]"}


T.NAMESPACE.update(AnyElem=AnyElemT())


def _eq_any(interp, a, b, node):
    for x, y in ((a, b), (b, a)):
        if isinstance(x, VObj) and x.tag == "anyelem":
            if isinstance(y, VStr):
                return z3.And(x.tagterm == 0, x.sterm == y.term)
            if isinstance(y, VObj) and y.tag == "anyelem":
                return z3.And(x.tagterm == y.tagterm, x.sterm == y.sterm)
            return z3.BoolVal(False)
    return None


E.HOOKS["eq"].append(_eq_any)


def hashcheck(interp, item, node):
    """`item in <set or dict>` hashes item: unhashable objects raise TypeError"""
    if isinstance(item, VObj) and item.tag == "anyelem" and not interp.spec_mode:
        interp.ctx.assumed.add("python:membership test in a set hashes the element; unhashable objects raise TypeError")
        if not interp.ctx.decide(item.tagterm != 2, getattr(node, "lineno", "")):
            raise_py(interp, "TypeError", "unhashable type", node)
    if isinstance(item, (VList, VDict, VSet)) and not interp.spec_mode and not (isinstance(item, VList) and item.kind in ("tuple", "bytes")):
        raise_py(interp, "TypeError", "unhashable type", node)


def _index_special(interp, base, idx, node):
    if isinstance(base, VList) and base.kind == "anyset":
        interp.ctx.assumed.add("python:set objects are not subscriptable (TypeError)")
        raise_py(interp, "TypeError", "'set' object is not subscriptable", node)
    if isinstance(base, VList) and base.kind == "anydict":
        interp.ctx.assumed.add("python:dict[key] raises KeyError for an absent key")
        if interp.spec_mode:
            raise Unsupported("dict subscript in contract")
        present = interp.ctx.fresh("key_present", z3.BoolSort())
        if not interp.ctx.decide(present, getattr(node, "lineno", "")):
            raise_py(interp, "KeyError", "key", node)
        return AnyElemT().fresh("dictval", interp.ctx)
    return None


E.HOOKS["index"].insert(0, _index_special)


def _type_of_any(interp, args, kwargs, node):
    v = args[0]
    if isinstance(v, VObj) and v.tag == "anyelem":
        interp.ctx.assumed.add("python:type(x) of an arbitrary element is str exactly for strings")
        if interp.ctx.decide(v.tagterm == 0, getattr(node, "lineno", "")):
            return VType("str")
        return VType("object")
    return VType(v.py_type())


E.BUILTINS["type"] = _type_of_any

from . import spec as S


def all_str(interp, seqs):
    if isinstance(seqs, VList) and isinstance(seqs.content, SymSeq):
        ek = seqs.content.elem_kind
        if ek is None and isinstance(seqs.content.at(z3.Int("k!probe")), VStr):
            return z3.BoolVal(True)
        if isinstance(ek, T.StrT):
            return z3.BoolVal(True)
        if isinstance(ek, AnyElemT):
            k = z3.Int("k!as")
            return z3.ForAll([k], z3.Implies(z3.And(k >= 0, k < seqs.content.length), seqs.content.at(k).tagterm == 0))
        return z3.BoolVal(False)
    return z3.BoolVal(False)


@S.spec("valid_search_args")
def _valid_search_args(interp, args, kwargs, node):
    """the argument classes the search engines accept (everything else must be rejected with an error)"""
    seqs, max_edits, max_returns, n_cpu, cd, mcd, output_type, seqs2 = args
    cs = []
    if not isinstance(seqs, VList):
        return VBool(False)
    cs.append(interp.seq_len(seqs) > 0)
    cs.append(all_str(interp, seqs))
    cs.append(z3.BoolVal(isinstance(max_edits, VInt)) if not isinstance(max_edits, VInt) else max_edits.term > 0)
    if isinstance(max_returns, VNone):
        pass
    elif isinstance(max_returns, VInt):
        cs.append(max_returns.term > 0)
    else:
        cs.append(z3.BoolVal(False))
    cs.append(n_cpu.term > 0 if isinstance(n_cpu, VInt) else z3.BoolVal(False))
    if isinstance(cd, VNone):
        pass
    elif isinstance(cd, VStr):
        cs.append(cd.term == z3.StringVal("hamming"))
    elif isinstance(cd, VFunc) and cd.kind == "uf":
        first = seqs.content.at(z3.IntVal(0))
        ft = first.sterm if isinstance(first, VObj) else first.term
        cs.append(cd.data["fun"](ft, ft) == 0)
    else:
        cs.append(z3.BoolVal(False))
    if isinstance(mcd, (VInt, VReal)) and not isinstance(mcd, VBool):
        cs.append(mcd.term >= 0)
    elif isinstance(mcd, VInf):
        cs.append(z3.BoolVal(mcd.sign > 0))
    else:
        cs.append(z3.BoolVal(False))
    if isinstance(output_type, VStr):
        cs.append(z3.Or(*[output_type.term == z3.StringVal(x) for x in ("coo_matrix", "triplets", "ndarray")]))
    else:
        cs.append(z3.BoolVal(False))
    if isinstance(seqs2, VNone):
        pass
    elif isinstance(seqs2, VList):
        cs.append(all_str(interp, seqs2))
    else:
        cs.append(z3.BoolVal(False))
    return VBool(z3.And(*cs))


def _uf_any(interp, fv, args, node):
    return None
