"""Ground instantiation of universally quantified hypotheses (a small, explicit E-matching):
every top-level `forall` hypothesis over Int / String variables is instantiated with the ground
terms of matching sort that occur as arguments of uninterpreted functions (or as Skolem
constants) in the quantifier-free part of the VC.  Dropping the quantified originals afterwards
only weakens the hypotheses, so `unsat` of the instantiated VC is a sound proof.
"""
import itertools
import z3


def _ground_terms(forms):
    seen = set()
    out = {}
    stack = list(forms)
    while stack:
        e = stack.pop()
        i = e.get_id()
        if i in seen:
            continue
        seen.add(i)
        if z3.is_quantifier(e):
            continue
        if z3.is_app(e):
            d = e.decl()
            if d.kind() in (z3.Z3_OP_UNINTERPRETED, z3.Z3_OP_RECURSIVE):
                if e.num_args() == 0:
                    out.setdefault(e.sort().name(), {})[e.get_id()] = e
                else:
                    for a in e.children():
                        if _is_ground(a):
                            out.setdefault(a.sort().name(), {})[a.get_id()] = a
            stack.extend(e.children())
    return {k: list(v.values()) for k, v in out.items()}


def _is_ground(e):
    stack = [e]
    while stack:
        x = stack.pop()
        if z3.is_var(x):
            return False
        if z3.is_quantifier(x):
            return False
        stack.extend(x.children())
    return True


def instantiate(forms, max_inst=400, rounds=2):
    """returns (qf_forms, n_instances): the quantifier-free hypotheses plus ground instances of the
    quantified ones (quantified hypotheses themselves are dropped)."""
    qf = [f for f in forms if not z3.is_quantifier(f)]
    quants = [f for f in forms if z3.is_quantifier(f) and f.is_forall()]
    inst = []
    total = 0
    for _ in range(rounds):
        terms = _ground_terms(qf + inst)
        new = []
        for q in quants:
            n = q.num_vars()
            sorts = [q.var_sort(i).name() for i in range(n)]
            cands = [terms.get(s, []) for s in sorts]
            if any(not c for c in cands):
                continue
            count = 1
            for c in cands:
                count *= len(c)
            if count > max_inst:
                continue
            for combo in itertools.product(*cands):
                # z3 de Bruijn order: var 0 is the LAST bound variable
                body = z3.substitute_vars(q.body(), *reversed(combo))
                new.append(body)
        total = len(new)
        inst = new
    nested = [f for f in qf + inst if _has_quant(f)]
    return [f for f in qf + inst if not _has_quant(f)], total, len(nested)


def _has_quant(t):
    seen = set()
    stack = [t]
    while stack:
        e = stack.pop()
        if z3.is_quantifier(e):
            return True
        i = e.get_id()
        if i in seen:
            continue
        seen.add(i)
        stack.extend(e.children())
    return False
