"""Python builtins and the ASSUMED contracts of library functions (DESIGN section 4).

Everything in this file is part of the trusted base: each handler states what a library call
returns (as symbolic values / uninterpreted functions with axioms) and which pre-conditions it
has (obligations at the call site).  Handlers record their use in ctx.assumed so the evidence
lists exactly which assumed contracts a verification relied on.
"""
import ast
import z3
from .values import *
from .types import StrT as T_StrT, IntT as T_IntT
from . import types as T
from .ctx import PathAbort

# filled at the bottom / by sub-modules
BUILTINS = {}
EXTERNS = {}
METHODS = {}          # (value class name or obj tag, method) -> handler(interp, self, args, kwargs, node)
SUBMODULES = set()
TYPES = {
    "numpy.str_": "numpy.str_", "pandas.Series": "pandas.Series", "pandas.DataFrame": "DataFrame",
    "numpy.ndarray": "numpy.ndarray", "numpy.uint8": "numpy.uint8", "numpy.float64": "numpy.float64",
    "numpy.int64": "numpy.int64", "pandas.core.series.Series": "pandas.Series",
}
CONSTANTS = {"numpy.nan": lambda: NAN, "numpy.inf": lambda: INF, "math.inf": lambda: INF}
BUILTIN_TYPES = {"str": "str", "int": "int", "float": "float", "list": "list", "set": "set", "dict": "dict",
                 "tuple": "tuple", "bool": "bool", "bytes": "bytes", "object": "object", "frozenset": "frozenset"}
INLINE_OK = set()


def builtin(name):
    def deco(f):
        BUILTINS[name] = f
        return f
    return deco


def extern(*names):
    def deco(f):
        for n in names:
            EXTERNS[n] = f
            parts = n.split(".")
            for i in range(1, len(parts)):
                SUBMODULES.add(".".join(parts[:i]))
        return f
    return deco


def method(cls, name):
    def deco(f):
        METHODS[(cls, name)] = f
        return f
    return deco


def allow_inline(name):
    return name in INLINE_OK


def raise_py(interp, exc, msg, node):
    from .symex import PyRaise
    if interp.spec_mode:
        raise Unsupported(f"contract expression would raise {exc}: {msg}")
    raise PyRaise(exc, msg, getattr(node, "lineno", None))


# ----------------------------------------------------------------------------- lazy iterables

class VRange(Value):
    def __init__(self, lo, hi):
        self.lo, self.hi = lo, hi     # z3 Int terms, step 1

    def py_type(self):
        return "range"


class VEnum(Value):
    def __init__(self, it, start=0):
        self.it, self.start = it, start

    def py_type(self):
        return "enumerate"


class VZip(Value):
    def __init__(self, its):
        self.its = its

    def py_type(self):
        return "zip"


class VCombos(Value):
    """itertools.combinations(seq, r)"""

    def __init__(self, seq, r):
        self.seq, self.r = seq, r

    def py_type(self):
        return "itertools.combinations"


def ordered_view(interp, it, node=None):
    """(length term, at(k) -> Value) for ordered iterables, else None."""
    if isinstance(it, VRange):
        n = z3.If(it.hi - it.lo > 0, it.hi - it.lo, 0)
        return n, (lambda k: VInt(it.lo + k))
    if isinstance(it, VStr):
        return z3.Length(it.term), (lambda k: VStr(z3.SubString(it.term, k, 1)))
    if isinstance(it, VTuple):
        return z3.IntVal(len(it.items)), (lambda k: interp.seq_at(it, k))
    if isinstance(it, VList) and isinstance(it.content, (ConcreteSeq, SymSeq)):
        return interp.seq_len(it), (lambda k: interp.seq_at(it, k))
    if isinstance(it, VEnum):
        ov = ordered_view(interp, it.it, node)
        if ov is None:
            return None
        n, at = ov
        return n, (lambda k: VTuple([VInt(k + it.start), at(k)]))
    if isinstance(it, VZip):
        ovs = [ordered_view(interp, x, node) for x in it.its]
        if any(o is None for o in ovs):
            return None
        n = ovs[0][0]
        for o in ovs[1:]:
            n = z3.If(o[0] < n, o[0], n)
        return n, (lambda k: VTuple([o[1](k) for o in ovs]))
    return None


def element_options(interp, it, node):
    """'an arbitrary element of it': list of (bvars, cond, elem, order) with order = index term or None."""
    ctx = interp.ctx
    if isinstance(it, VRange):
        x = ctx.fresh("i", z3.IntSort())
        return [([x], z3.And(x >= it.lo, x < it.hi), VInt(x), x - it.lo)]
    ov = ordered_view(interp, it, node)
    if ov is not None:
        n, at = ov
        k = ctx.fresh("k", z3.IntSort())
        # the element is computed lazily, AFTER the range condition has been assumed (it may involve calls whose
        # pre-conditions depend on the index being in range)
        return [([k], z3.And(k >= 0, k < n), (lambda: at(k)), k)]
    if isinstance(it, VSet) and it.pred is None and isinstance(it.content, CompBag) and it.content.sites \
            and all(isinstance(s.elem, (VInt, VStr)) for s in it.content.sites):
        # a set yields each DISTINCT element once: bind the element value, not the generating instance
        e0 = it.content.sites[0].elem
        x = ctx.fresh("e", e0.term.sort())
        xv = VInt(x) if isinstance(e0, VInt) else VStr(x)
        return [([x], interp.specfuns.bag_contains(interp, it.content, xv), xv, None)]
    if isinstance(it, (VList, VSet)) and getattr(it, "pred", None) is None and isinstance(it.content, CompBag):
        out = []
        for s in it.content.sites:
            s2 = s.rename(ctx)
            # loop variables + decisions of the source site stay decisions; what was knowledge stays knowledge
            out.append((s2.bvars, z3.And(s2.cond, s2.cond_d), s2.elem, None, s2.cond_h))
        return out
    if isinstance(it, VSet) and it.pred is not None:
        ek = getattr(it, "elem_kind", None)
        if ek is None:
            raise Unsupported("iteration over a predicate set of unknown element kind")
        x = ctx.fresh("e", ek.sort())
        xv = ek.wrap(x)
        return [([x], it.pred(xv), xv, None)]
    if isinstance(it, VDict):
        if it.items is not None:
            return [([], z3.BoolVal(True), k, None) for k, _ in it.items]
        x = ctx.fresh("key", it.key_kind.sort())
        xv = it.key_kind.wrap(x)
        return [([x], it.dom(xv), xv, None)]
    if isinstance(it, VEnum):
        # enumerate over an unordered iterable: index unknown
        out = []
        for opt in element_options(interp, it.it, node):
            bv, cond, elem = opt[0], opt[1], opt[2]
            i = ctx.fresh("idx", z3.IntSort())
            out.append((bv + [i], z3.And(cond, i >= it.start),
                        (lambda elem=elem, i=i: VTuple([VInt(i), elem() if callable(elem) else elem])), None) + tuple(opt[4:]))
        return out
    if isinstance(it, VCombos):
        return combos_options(interp, it, node)
    r = iter_hook(interp, it, node)
    if r is not None:
        return r
    if isinstance(it, (VNone, VInt, VReal, VBool, VNan, VInf, VType, VFunc)):
        raise_py(interp, "TypeError", f"'{it.py_type()}' object is not iterable", node)
    raise Unsupported(f"iteration over {it!r}")


ITER_HOOKS = []


def iter_hook(interp, it, node):
    for h in ITER_HOOKS:
        r = h(interp, it, node)
        if r is not None:
            return r
    return None


def combos_options(interp, it, node):
    ctx = interp.ctx
    r = concrete_int(it.r)
    ov = ordered_view(interp, it.seq, node)
    if ov is None:
        raise Unsupported("combinations over an unordered iterable")
    n, at = ov
    ctx.assumed.add("extern:itertools.combinations (strictly increasing position tuples, each once)")
    if r is not None:
        ks = [ctx.fresh("c", z3.IntSort()) for _ in range(r)]
        conds = [ks[0] >= 0] if ks else []
        for a, b in zip(ks, ks[1:]):
            conds.append(a < b)
        if ks:
            conds.append(ks[-1] < n)
        return [(ks, z3.And(*conds) if conds else z3.BoolVal(True), VTuple([at(k) for k in ks]), None)]
    # symbolic r: an index tuple given by an array variable
    arr = ctx.fresh("idx", z3.ArraySort(z3.IntSort(), z3.IntSort()))
    rr = to_int(it.r)
    p, q = z3.Int("p!c"), z3.Int("q!c")
    cond = z3.And(rr >= 0,
                  z3.ForAll([p], z3.Implies(z3.And(0 <= p, p < rr), z3.And(arr[p] >= 0, arr[p] < n))),
                  z3.ForAll([p, q], z3.Implies(z3.And(0 <= p, p < q, q < rr), arr[p] < arr[q])))
    tup = VList(SymSeq(rr, lambda k: at(arr[k])), "tuple")
    tup.index_array = arr
    return [([arr], cond, tup, None)]


# ----------------------------------------------------------------------------- opaque applications

def _arg_term(interp, v):
    """z3 term standing for a value inside an uninterpreted application."""
    if isinstance(v, VObj) and v.term is not None:
        return v.term
    if isinstance(v, VInt):
        return v.term
    if isinstance(v, VReal):
        return v.term
    if isinstance(v, VBool):
        return v.term
    if isinstance(v, VStr):
        return v.term
    if isinstance(v, VNone):
        return z3.Const("py_None", OBJ)
    if isinstance(v, VNan):
        return z3.Const("py_nan", OBJ)
    if isinstance(v, VInf):
        return z3.Const("py_inf" if v.sign > 0 else "py_neginf", OBJ)
    if isinstance(v, VType):
        return z3.Const(f"type:{v.name}", OBJ)
    if isinstance(v, VFunc):
        if v.kind == "uf":
            return z3.Const(f"fn:{v.name}", OBJ)
        if v.kind in ("extern", "repo", "builtin"):
            return z3.Const(f"fn:{v.name}", OBJ)
        if v.kind == "closure" and getattr(v, "term", None) is not None:
            return v.term
    if isinstance(v, (VTuple,)) or (isinstance(v, VList) and isinstance(v.content, ConcreteSeq)):
        items = v.items if isinstance(v, VTuple) else v.content.items
        ts = [_arg_term(interp, x) for x in items]
        kind = "tuple" if isinstance(v, VTuple) else v.kind
        f = z3.Function(f"mk_{kind}{len(ts)}[{','.join(str(t.sort()) for t in ts)}]", *([t.sort() for t in ts] + [OBJ]))
        return f(*ts) if ts else z3.Const(f"empty_{kind}", OBJ)
    if isinstance(v, VDict) and v.items is not None:
        ts = []
        for k, x in sorted(v.items, key=lambda kv: str(kv[0])):
            ts.extend([_arg_term(interp, k), _arg_term(interp, x)])
        f = z3.Function(f"mk_dict{len(ts)}[{','.join(str(t.sort()) for t in ts)}]", *([t.sort() for t in ts] + [OBJ]))
        return f(*ts) if ts else z3.Const("empty_dict", OBJ)
    if isinstance(v, VRange):
        f = z3.Function("mk_range", z3.IntSort(), z3.IntSort(), OBJ)
        return f(v.lo, v.hi)
    if isinstance(v, VList) and getattr(v, "term", None) is not None:
        return v.term
    if isinstance(v, VList) and getattr(v, "sid", None) is not None:
        return z3.Const(f"seq:{v.sid}:{v.kind}", OBJ)
    if isinstance(v, VObj) and getattr(v, "sid", None) is not None and v.term is None:
        return z3.Const(f"frame:{v.sid}", OBJ)
    if isinstance(v, VObj) and v.attrs.get("__repo_instance__") and v.term is None:
        if not hasattr(v, "_id_term"):
            _INST[0] += 1
            v._id_term = z3.Const(f"inst:{v.tag}:{_INST[0]}", OBJ)
        return v._id_term
    if isinstance(v, VList) and hasattr(v, "as_obj"):
        return v.as_obj
    if isinstance(v, VList) and isinstance(v.content, SymSeq) and getattr(v, "origin_term", None) is not None:
        return v.origin_term
    raise Unsupported(f"value {v!r} cannot be passed to an opaque library function")


_INST = [0]


def opaque(interp, fname, args, kwargs=None, tag="object", rsort=None):
    """Uninterpreted application  fname(args..., kw=...) : deterministic pure library function."""
    ts = [_arg_term(interp, a) for a in args]
    name = fname
    for k in sorted(kwargs or {}):
        ts.append(_arg_term(interp, kwargs[k]))
        name += f",{k}="
    rs = OBJ if rsort is None else rsort
    f = z3.Function(f"{name}[{','.join(str(t.sort()) for t in ts)}]", *([t.sort() for t in ts] + [rs]))
    term = f(*ts) if ts else z3.Const(name + "()", rs)
    interp.ctx.assumed.add(f"extern:{fname} (opaque deterministic function of its arguments)")
    if rsort is None:
        return VObj(tag, term)
    return term


def opaque_repo_call(interp, c, bound, node):
    """<repo function>(opaque table ...): an uninterpreted real-valued application, named by the function"""
    names = sorted(bound)
    ts = [_arg_term(interp, bound[k]) for k in names]
    as_array = c.opaque_on_tables == "array"
    f = z3.Function(f"{c.qualname}[{','.join(names)};{','.join(str(t.sort()) for t in ts)}]", *([t.sort() for t in ts] + [OBJ if as_array else z3.RealSort()]))
    interp.ctx.assumed.add(f"contract:{c.qualname.replace('pyrepseq.', '')} applied to an opaque table (value not unfolded; its preconditions on "
                           "the opaque argument are not checked)")
    if as_array:
        return interp.born(VObj("ndarray", f(*ts)))
    return VReal(f(*ts), True)


def pure(dotted, tag="object"):
    """Register `dotted` as an opaque pure function returning an object tagged `tag`."""
    def h(interp, args, kwargs, node):
        return interp.born(opaque(interp, dotted, args, kwargs, tag))
    extern(dotted)(h)
    return h


# ----------------------------------------------------------------------------- dispatch

class TrackedKwargs(dict):
    """keyword arguments of a library call: the assumed contract must LOOK at every keyword it is given -- a keyword the
    model silently ignores could change the library's behaviour (soundness guard, see `_guard`)"""

    def __init__(self, d):
        super().__init__(d)
        self.seen = set()

    def __getitem__(self, k):
        self.seen.add(k)
        return super().__getitem__(k)

    def get(self, k, default=None):
        self.seen.add(k)
        return super().get(k, default)

    def __contains__(self, k):
        self.seen.add(k)
        return super().__contains__(k)

    def pop(self, k, *a):
        self.seen.add(k)
        return super().pop(k, *a)

    def _all(self):
        self.seen.update(super().keys())

    def items(self):
        self._all()
        return super().items()

    def keys(self):
        self._all()
        return super().keys()

    def values(self):
        self._all()
        return super().values()

    def __iter__(self):
        self._all()
        return super().__iter__()

    def copy(self):
        self._all()
        return dict(self)


# keywords that never change a result in the modelled calls
HARMLESS_KW = {"copy", "progress", "disable", "desc", "stacklevel", "category"}


def _guard(interp, what, h, call, kwargs, node):
    tk = TrackedKwargs(kwargs or {})
    r = call(tk)
    ignored = [k for k in tk if k not in tk.seen and k not in HARMLESS_KW]
    if ignored and not interp.spec_mode:
        raise Unsupported(f"{interp.current_qualname}:{getattr(node, 'lineno', '?')}: the assumed contract of {what} does not model "
                          f"keyword(s) {sorted(ignored)}")
    return r


def call_extern(interp, dotted, args, kwargs, node):
    h = EXTERNS.get(dotted)
    if h is None:
        raise Unsupported(f"{interp.current_qualname}:{getattr(node, 'lineno', '?')}: no assumed contract for library function {dotted}")
    return _guard(interp, dotted, h, lambda kw: h(interp, args, kw, node), kwargs, node)


def value_class(v):
    if isinstance(v, VObj):
        return v.tag
    if isinstance(v, VList):
        return {"list": "list", "ndarray": "ndarray", "generator": "generator", "Series": "Series", "tuple": "tuple"}.get(v.kind, v.kind)
    return {VStr: "str", VDict: "dict", VSet: "set", VTuple: "tuple", VInt: "int", VReal: "float",
            VNone: "NoneType", VBool: "bool", VRange: "range", VNan: "float", VInf: "float"}.get(type(v), type(v).__name__)


def call_method(interp, sv, name, args, kwargs, node):
    cls = value_class(sv)
    h = METHODS.get((cls, name))
    if h is None and isinstance(sv, (VInt, VReal)) and getattr(sv, "np", False):
        h = METHODS.get(("npscalar", name))
    if h is None:
        if cls in ("NoneType", "int", "float", "bool", "str", "list", "dict", "set", "tuple") and not interp.spec_mode:
            known = any(k[0] == cls for k in METHODS)
            py_has = hasattr({"NoneType": None, "int": 0, "float": 0.0, "bool": True, "str": "", "list": [], "dict": {},
                              "set": set(), "tuple": ()}[cls], name)
            if not py_has:
                raise_py(interp, "AttributeError", f"'{cls}' object has no attribute '{name}'", node)
        raise Unsupported(f"{interp.current_qualname}:{getattr(node, 'lineno', '?')}: no assumed contract for method {cls}.{name}")
    return _guard(interp, f"{cls}.{name}", h, lambda kw: h(interp, sv, args, kw, node), kwargs, node)


def call_type(interp, tv, args, kwargs, node):
    n = tv.name
    if n in BUILTINS:
        return BUILTINS[n](interp, args, kwargs, node)
    h = EXTERNS.get("type:" + n)
    if h is not None:
        return _guard(interp, n, h, lambda kw: h(interp, args, kw, node), kwargs, node)
    from .symex import EXC_PARENT
    if n in EXC_PARENT:
        return VObj("exception:" + n)
    raise Unsupported(f"constructor call of type {n}")


def call_object(interp, obj, args, kwargs, node):
    h = METHODS.get((obj.tag, "__call__"))
    if h is not None:
        return h(interp, obj, args, kwargs, node)
    return None


def type_attr(interp, tv, attr, node):
    if attr == "__module__":
        mod = {"pandas.Series": "pandas.core.series", "numpy.ndarray": "numpy", "numpy.str_": "numpy",
               "DataFrame": "pandas.core.frame", "list": "builtins", "tuple": "builtins", "str": "builtins",
               "set": "builtins", "dict": "builtins", "range": "builtins", "generator": "builtins"}.get(tv.name)
        if mod is None:
            raise Unsupported(f"__module__ of {tv.name}")
        return VStr(mod)
    if attr == "__name__":
        return VStr(tv.name.split(".")[-1])
    return None


HOOKS = {"getattr": [], "setattr": [], "index": [], "setitem": [], "slice": [], "binop": [], "unop": [],
         "cmp": [], "contains": [], "inplace": [], "unpack": [], "eq": []}


def _run(kind, *a):
    for h in HOOKS[kind]:
        r = h(*a)
        if r is not None:
            return r
    return None


def getattr_hook(interp, base, attr, node):
    return _run("getattr", interp, base, attr, node)


def setattr_hook(interp, base, attr, v, node):
    return _run("setattr", interp, base, attr, v, node)


def index_hook(interp, base, idx, node):
    return _run("index", interp, base, idx, node)


def setitem_hook(interp, base, idx, v, node):
    return _run("setitem", interp, base, idx, v, node)


def slice_hook(interp, base, lo, hi, st, node):
    return _run("slice", interp, base, lo, hi, st, node)


def unpack_hook(interp, v, n, node):
    return _run("unpack", interp, v, n, node)


def binary_op(interp, opn, a, b, node):
    r = _run("binop", interp, opn, a, b, node)
    if r is not None:
        return r
    if not interp.spec_mode and (isinstance(a, VNone) or isinstance(b, VNone) or
                                 (isinstance(a, VStr) != isinstance(b, VStr) and (is_num(a) or is_num(b)))):
        raise_py(interp, "TypeError", f"unsupported operand types for {opn}", node)
    raise Unsupported(f"{interp.current_qualname}:{getattr(node, 'lineno', '?')}: operator {opn} on {a!r}, {b!r}")


def unary_op(interp, opn, v, node):
    r = _run("unop", interp, opn, v, node)
    if r is not None:
        return r
    raise Unsupported(f"unary {opn} on {v!r}")


def elementwise_compare(interp, opn, a, b, node):
    return _run("cmp", interp, opn, a, b, node)


def contains(interp, container, item, node):
    return _run("contains", interp, container, item, node)


def hashcheck(interp, item, node):
    from . import ext_anyobj
    return ext_anyobj.hashcheck(interp, item, node)


def inplace_op(interp, opn, cur, rhs, node):
    return _run("inplace", interp, opn, cur, rhs, node)


def setslice(interp, base, sl, v, env, node):
    raise Unsupported(f"slice assignment on {base!r}")


def with_stmt(interp, node, env):
    raise Unsupported(f"{interp.current_qualname}:{node.lineno}: with statement")


def sqrt(interp, a, node=None):
    """x ** 0.5 : assumed real square root (sqrt(x)^2 = x and sqrt(x) >= 0 for x >= 0)."""
    x = to_real(a)
    f = z3.Function("sqrt", z3.RealSort(), z3.RealSort())
    interp.ctx.assumed.add("float-as-real: x**0.5 is the exact real square root")
    r = f(x)
    interp.ctx.assume(z3.Implies(x >= 0, z3.And(r * r == x, r >= 0)))
    return VReal(r, getattr(a, "np", False))


def pow(interp, a, b, node=None):
    x, y = to_real(a), to_real(b)
    f = z3.Function("pow", z3.RealSort(), z3.RealSort(), z3.RealSort())
    ctx = interp.ctx
    if ("ax", "pow") not in ctx.axioms_added:
        ctx.axioms_added.add(("ax", "pow"))
        u, w = z3.Real("u!pow"), z3.Real("w!pow")
        ctx.assume_global(z3.ForAll([u, w], z3.And(z3.Implies(z3.And(u > 0, u <= 1, w <= 0), f(u, w) >= 1), z3.Implies(u > 0, f(u, w) > 0)),
                                    patterns=[f(u, w)]),
                          "float-as-real: x**y is an uninterpreted real power with: 0<x<=1 and y<=0 => x**y>=1; x>0 => x**y>0")
    r = f(x, y)
    return VReal(r, getattr(a, "np", False) or getattr(b, "np", False))


# ----------------------------------------------------------------------------- builtins

@builtin("len")
def _len(interp, args, kwargs, node):
    v = args[0]
    if isinstance(v, (VStr, VTuple)) or (isinstance(v, (VList, VSet)) and getattr(v, "pred", None) is None
                                          and isinstance(v.content, (ConcreteSeq, SymSeq))):
        if isinstance(v, VList) and v.kind == "generator":
            raise_py(interp, "TypeError", "object of type 'generator' has no len()", node)
        return VInt(interp.seq_len(v))
    if isinstance(v, VDict) and v.items is not None:
        return VInt(len(v.items))
    if isinstance(v, (VSet, VDict)) or (isinstance(v, VList) and isinstance(v.content, CompBag)):
        return VInt(interp.specfuns.card(interp, v))
    if isinstance(v, VRange):
        return VInt(z3.If(v.hi - v.lo > 0, v.hi - v.lo, 0))
    r = _run_len(interp, v, node)
    if r is not None:
        return r
    if isinstance(v, (VNone, VInt, VReal, VBool, VNan, VInf, VFunc, VType)):
        raise_py(interp, "TypeError", f"object of type '{v.py_type()}' has no len()", node)
    raise Unsupported(f"len of {v!r}")


LEN_HOOKS = []


def _run_len(interp, v, node):
    for h in LEN_HOOKS:
        r = h(interp, v, node)
        if r is not None:
            return r
    return None


@builtin("range")
def _range(interp, args, kwargs, node):
    if len(args) == 1:
        lo, hi = z3.IntVal(0), to_int(args[0])
    elif len(args) == 2:
        lo, hi = to_int(args[0]), to_int(args[1])
    else:
        raise Unsupported("range with step")
    lo_c, hi_c = simp(lo), simp(hi)
    if z3.is_int_value(lo_c) and z3.is_int_value(hi_c) and hi_c.as_long() - lo_c.as_long() <= 64:
        return VList(ConcreteSeq([VInt(i) for i in range(lo_c.as_long(), hi_c.as_long())]), "list")
    return VRange(lo, hi)


@builtin("enumerate")
def _enumerate(interp, args, kwargs, node):
    start = 0
    if len(args) > 1 or "start" in kwargs:
        s = args[1] if len(args) > 1 else kwargs["start"]
        start = concrete_int(s)
        if start is None:
            raise Unsupported("enumerate with symbolic start")
    items = interp.concrete_iter(args[0])
    if items is not None:
        return VList(ConcreteSeq([VTuple([VInt(i + start), x]) for i, x in enumerate(items)]), "list")
    return VEnum(args[0], start)


@builtin("zip")
def _zip(interp, args, kwargs, node):
    cs = [interp.concrete_iter(a) for a in args]
    if all(c is not None for c in cs):
        return VList(ConcreteSeq([VTuple(list(t)) for t in zip(*cs)]), "list")
    return VZip(list(args))


@builtin("int")
def _int(interp, args, kwargs, node):
    v = args[0]
    if isinstance(v, (VInt, VBool)):
        return VInt(to_int(v))
    if isinstance(v, VReal):
        x = v.term
        # truncation toward zero
        return VInt(z3.If(x >= 0, z3.ToInt(x), -z3.ToInt(-x)))
    raise Unsupported(f"int({v!r})")


@builtin("float")
def _float(interp, args, kwargs, node):
    v = args[0]
    if is_num(v):
        return VReal(to_real(v))
    cs = concrete_str(v)
    if cs is not None:
        return const_value(float(cs))
    raise Unsupported(f"float({v!r})")


@builtin("str")
def _str(interp, args, kwargs, node):
    if not args:
        return VStr("")
    return interp.to_str(args[0], node)


@builtin("bool")
def _bool(interp, args, kwargs, node):
    t = interp.truth(args[0], node)
    return VBool(t)


@builtin("abs")
def _abs(interp, args, kwargs, node):
    v = args[0]
    if isinstance(v, VInt):
        return VInt(z3.If(v.term >= 0, v.term, -v.term), v.np)
    if isinstance(v, VReal):
        return VReal(z3.If(v.term >= 0, v.term, -v.term), v.np)
    raise Unsupported("abs")


def _minmax(interp, args, kwargs, node, is_min):
    items = args if len(args) > 1 else interp.concrete_iter(args[0])
    if items is None:
        raise Unsupported("min/max over a symbolic iterable")
    r = items[0]
    for x in items[1:]:
        c = interp.order("Lt" if is_min else "Gt", x, r, node)
        r = interp.v_ite(c, x, r, node)
    return r


@builtin("min")
def _min(interp, args, kwargs, node):
    return _minmax(interp, args, kwargs, node, True)


@builtin("max")
def _max(interp, args, kwargs, node):
    return _minmax(interp, args, kwargs, node, False)


@builtin("isinstance")
def _isinstance(interp, args, kwargs, node):
    v, t = args
    ts = t.items if isinstance(t, VTuple) else [t]
    pt = v.py_type()
    names = set()
    for x in ts:
        if not isinstance(x, VType):
            raise Unsupported(f"isinstance against {x!r}")
        names.add(x.name)
    sup = {"bool": {"int"}, "numpy.str_": {"str"}, "numpy.float64": {"float"}}
    have = {pt} | sup.get(pt, set())
    if isinstance(v, VObj) and "__class__" in v.attrs:
        have |= {c.split(".")[-1] for c in interp.specfuns.class_mro(interp, v.attrs["__class__"])}
        names = {n.split(".")[-1] for n in names}
    return VBool(bool(have & names))


@builtin("type")
def _type(interp, args, kwargs, node):
    return VType(args[0].py_type())


@builtin("callable")
def _callable(interp, args, kwargs, node):
    return VBool(isinstance(args[0], (VFunc, VType)))


@builtin("print")
def _print(interp, args, kwargs, node):
    return NONE


@builtin("list")
def _list(interp, args, kwargs, node):
    if not args:
        return interp.born(VList(ConcreteSeq([])))
    v = args[0]
    items = interp.concrete_iter(v)
    if items is not None:
        return interp.born(VList(ConcreteSeq(items)))
    ov = ordered_view(interp, v, node)
    if ov is not None:
        n, at = ov
        return interp.born(VList(SymSeq(n, at)))
    if isinstance(v, (VList, VSet)) and getattr(v, "pred", None) is None and isinstance(v.content, CompBag):
        return interp.born(VList(CompBag(list(v.content.sites))))
    if isinstance(v, (VSet, VDict, VZip, VEnum, VCombos)):
        acc = interp.born(VList(ConcreteSeq([])))
        interp.for_values(v, lambda x: interp.mutate_append(acc, x, node), node)
        return acc
    r = _run("unop", interp, "list", v, node)
    if r is not None:
        return r
    element_options(interp, v, node)   # raises TypeError for non-iterables
    raise Unsupported(f"list({v!r})")


@builtin("tuple")
def _tuple(interp, args, kwargs, node):
    if not args:
        return VTuple([])
    items = interp.concrete_iter(args[0])
    if items is not None:
        return VTuple(items)
    r = _list(interp, args, kwargs, node)
    r.kind = "tuple"
    return r


@builtin("set")
def _set(interp, args, kwargs, node):
    if not args:
        return interp.born(VSet(ConcreteSeq([])))
    v = args[0]
    items = interp.concrete_iter(v)
    if items is not None:
        return interp.born(interp.make_set(items, node))
    if isinstance(v, VSet) and getattr(v, "zset", None) is not None and v.pred is not None:
        # set(<a set>) is a new set object with the same elements
        c = VSet(pred=v.pred)
        c.zset, c.elem_kind = v.zset, getattr(v, "elem_kind", None)
        return interp.born(c)
    if isinstance(v, VList) and isinstance(v.content, SymSeq) and getattr(v, "sid", None) and isinstance(
            getattr(v.content, "elem_kind", None), (T_StrT, T_IntT)):
        # the element set of a symbolic sequence: one set constant per (sequence, content version), so that the same set built twice
        # (by the code and by a contract clause) is the same term
        ctx = interp.ctx
        if not hasattr(ctx, "memo"):
            ctx.memo = {}
        key = ("elems", v.sid, id(v.content))
        ek = v.content.elem_kind
        if key not in ctx.memo:
            n_ = sum(1 for k_ in ctx.memo if isinstance(k_, tuple) and k_ and k_[0] == "elems")
            zs = z3.Const(f"elems[{v.sid}]" + (f"#{n_}" if n_ else ""), z3.SetSort(ek.sort()))
            x = z3.Const("x!el", ek.sort())
            k = z3.Int("k!el")
            cont = v.content
            ctx.assume(z3.ForAll([x], z3.IsMember(x, zs) == z3.Exists([k], z3.And(0 <= k, k < cont.length, cont.at(k).term == x)),
                                 patterns=[z3.IsMember(x, zs)]))
            ctx.assume(z3.ForAll([k], z3.Implies(z3.And(0 <= k, k < cont.length), z3.IsMember(cont.at(k).term, zs)), patterns=[cont.at(k).term]))
            ctx.memo[key] = zs
        zs = ctx.memo[key]
        c = VSet(pred=lambda y: z3.IsMember(y.term, zs))
        c.zset, c.elem_kind = zs, ek
        return interp.born(c)
    s = interp.born(VSet(ConcreteSeq([])))
    r = _run("unop", interp, "set", v, node)
    if r is not None:
        return r
    interp.for_values(v, lambda x: interp.mutate_add(s, x, node), node)
    return s


@builtin("dict")
def _dict(interp, args, kwargs, node):
    items = []
    if args:
        src = args[0]
        if isinstance(src, VDict) and src.items is not None:
            items = [[k, v] for k, v in src.items]
        else:
            its = interp.concrete_iter(src)
            if its is None:
                raise Unsupported("dict() of a symbolic iterable")
            for it in its:
                k, v = interp.unpack(it, 2, node)
                interp.dict_store(items, k, v)
    for k, v in kwargs.items():
        interp.dict_store(items, VStr(k), v)
    return interp.born(VDict(items=items))


@builtin("sum")
def _sum(interp, args, kwargs, node):
    items = interp.concrete_iter(args[0])
    if items is None:
        r = _run("unop", interp, "sum", args[0], node)
        if r is not None:
            return r
        raise Unsupported("sum over a symbolic iterable")
    r = args[1] if len(args) > 1 else VInt(0)
    for x in items:
        r = interp.binop(ast.Add(), r, x, node)
    return r


@builtin("all")
def _all(interp, args, kwargs, node):
    return VBool(_quant_truth(interp, args[0], node, True))


@builtin("any")
def _any(interp, args, kwargs, node):
    return VBool(_quant_truth(interp, args[0], node, False))


def _quant_truth(interp, v, node, is_all):
    items = interp.concrete_iter(v)
    if items is not None:
        ts = [interp.as_bool_term(x, node) for x in items]
        if not ts:
            return z3.BoolVal(is_all)
        return z3.And(*ts) if is_all else z3.Or(*ts)
    bag = interp.to_bag(v.content) if isinstance(v, (VList, VSet)) else None
    if bag is None:
        raise Unsupported(f"all/any over {v!r}")
    parts = []
    for s in bag.sites:
        t = interp.as_bool_term(s.elem, node)
        if is_all:
            body = z3.Implies(s.full_cond(), t)
            parts.append(z3.ForAll(s.all_vars(), body) if s.all_vars() else body)
        else:
            body = s.exists_body(t)
            parts.append(z3.Exists(s.bvars, body) if s.bvars else body)
    if not parts:
        return z3.BoolVal(is_all)
    return z3.And(*parts) if is_all else z3.Or(*parts)


@builtin("sorted")
def _sorted(interp, args, kwargs, node):
    v = args[0]
    items = interp.concrete_iter(v)
    if items is not None and "key" not in kwargs and all(concrete_str(x) is not None or concrete_int(x) is not None for x in items):
        keyed = sorted(items, key=lambda x: concrete_str(x) if concrete_str(x) is not None else concrete_int(x))
        return interp.born(VList(ConcreteSeq(keyed)))
    r = interp.specfuns.sorted_of(interp, v, kwargs, node)
    return r


@builtin("filter")
def _filter(interp, args, kwargs, node):
    f, it = args
    acc = interp.born(VList(ConcreteSeq([]), "generator"))

    def each(x):
        if interp.test(interp.call(f, [x], {}, node), node):
            interp.mutate_append(acc, x, node)
    items = interp.concrete_iter(it)
    if items is not None:
        for x in items:
            each(x)
    else:
        interp.for_values(it, each, node)
    return acc


@builtin("map")
def _map(interp, args, kwargs, node):
    f, it = args[0], args[1]
    items = interp.concrete_iter(it)
    if items is not None:
        return interp.born(VList(ConcreteSeq([interp.call(f, [x], {}, node) for x in items]), "generator"))
    ov = ordered_view(interp, it, node)
    if ov is not None and interp.specfuns.is_pure_callable(interp, f):
        n, at = ov
        return interp.born(VList(SymSeq(n, lambda k: interp.call(f, [at(k)], {}, node)), "generator"))
    acc = interp.born(VList(ConcreteSeq([]), "generator"))
    interp.for_values(it, lambda x: interp.mutate_append(acc, interp.call(f, [x], {}, node), node), node)
    return acc


@builtin("next")
def _next(interp, args, kwargs, node):
    it = args[0]
    src = getattr(it, "iter_of", it)
    ov = ordered_view(interp, src, node)
    if ov is None:
        raise Unsupported(f"next() on {it!r}")
    n, at = ov
    if not interp.spec_mode and not interp.ctx.decide(n > 0, getattr(node, "lineno", "")):
        raise_py(interp, "StopIteration", "", node)
    return at(z3.IntVal(0))


@builtin("iter")
def _iter(interp, args, kwargs, node):
    v = args[0]
    element_options(interp, v, node) if not isinstance(v, (VList, VStr, VTuple, VSet, VDict, VRange)) else None
    o = VObj("iterator")
    o.iter_of = v
    return o


@builtin("reversed")
def _reversed(interp, args, kwargs, node):
    items = interp.concrete_iter(args[0])
    if items is not None:
        return VList(ConcreteSeq(list(reversed(items))), "generator")
    ov = ordered_view(interp, args[0], node)
    if ov is None:
        raise Unsupported("reversed")
    n, at = ov
    return VList(SymSeq(n, lambda k: at(n - 1 - k)), "generator")


# ----------------------------------------------------------------------------- str / list / dict / set methods

@method("str", "join")
def _str_join(interp, sv, args, kwargs, node):
    it = args[0]
    items = interp.concrete_iter(it)
    if items is not None:
        t = None
        for x in items:
            if not isinstance(x, VStr):
                raise_py(interp, "TypeError", "sequence item: expected str instance", node)
            t = x.term if t is None else z3.Concat(t, sv.term, x.term)
        if t is None:
            return VStr(z3.StringVal(""))
        if len(items) >= 2:
            if not hasattr(interp.ctx, "join_terms"):
                interp.ctx.join_terms = {}
            interp.ctx.join_terms[t.get_id()] = (sv.term, [x.term for x in items], t)
        return VStr(t)
    return interp.specfuns.join_sym(interp, sv, it, node)


@method("str", "upper")
def _str_upper(interp, sv, args, kwargs, node):
    cs = concrete_str(sv)
    if cs is None:
        raise Unsupported("upper() of a symbolic string")
    return VStr(cs.upper())


@method("list", "append")
def _list_append(interp, sv, args, kwargs, node):
    interp.mutate_append(sv, args[0], node)
    return NONE


@method("list", "extend")
def _list_extend(interp, sv, args, kwargs, node):
    interp.mutate_extend(sv, args[0], node)
    return NONE


@method("list", "copy")
def _list_copy(interp, sv, args, kwargs, node):
    c = sv.content
    if isinstance(c, ConcreteSeq):
        return interp.born(VList(ConcreteSeq(list(c.items))))
    if isinstance(c, SymSeq):
        return interp.born(VList(SymSeq(c.length, c.at, c.elem_kind)))
    return interp.born(VList(CompBag(list(c.sites))))


@method("list", "index")
def _list_index(interp, sv, args, kwargs, node):
    return interp.specfuns.list_index(interp, sv, args[0], node)


@method("set", "add")
def _set_add(interp, sv, args, kwargs, node):
    interp.mutate_add(sv, args[0], node)
    return NONE


@method("set", "intersection")
def _set_inter(interp, sv, args, kwargs, node):
    o = args[0] if isinstance(args[0], VSet) else _set(interp, [args[0]], {}, node)
    return interp.born(interp.set_op("BitAnd", sv, o, node))


@method("set", "union")
def _set_union(interp, sv, args, kwargs, node):
    o = args[0] if isinstance(args[0], VSet) else _set(interp, [args[0]], {}, node)
    return interp.born(interp.set_op("BitOr", sv, o, node))


@method("set", "discard")
def _set_discard(interp, sv, args, kwargs, node):
    interp.specfuns.set_remove(interp, sv, args[0], node, strict=False)
    return NONE


@method("set", "remove")
def _set_remove(interp, sv, args, kwargs, node):
    interp.specfuns.set_remove(interp, sv, args[0], node, strict=True)
    return NONE


@method("dict", "update")
def _dict_update(interp, sv, args, kwargs, node):
    interp.check_mutable_target(sv, node, ".update")
    src = args[0] if args else None
    if src is not None:
        if not (isinstance(src, VDict) and src.items is not None and sv.items is not None):
            raise Unsupported("dict.update with symbolic dicts")
        for k, v in src.items:
            interp.dict_store(sv.items, k, v)
    for k, v in kwargs.items():
        interp.dict_store(sv.items, VStr(k), v)
    return NONE


@method("dict", "get")
def _dict_get(interp, sv, args, kwargs, node):
    key = args[0]
    default = args[1] if len(args) > 1 else NONE
    if sv.items is not None:
        for k, v in sv.items:
            c = concrete_bool(interp.veq(k, key))
            if c is True:
                return v
            if c is None:
                raise Unsupported("dict.get undecided key")
        return default
    if interp.spec_mode or interp.ctx.decide(sv.dom(key), getattr(node, "lineno", "")):
        return sv.get(key)
    return default


@method("dict", "items")
def _dict_items(interp, sv, args, kwargs, node):
    if sv.items is not None:
        return VList(ConcreteSeq([VTuple([k, v]) for k, v in sv.items]), "generator")
    o = VObj("dict_items")
    o.dict_of = sv
    return o


@method("dict", "values")
def _dict_values(interp, sv, args, kwargs, node):
    if sv.items is not None:
        return VList(ConcreteSeq([v for k, v in sv.items]), "generator")
    o = VObj("dict_values")
    o.dict_of = sv
    return o


@method("dict", "keys")
def _dict_keys(interp, sv, args, kwargs, node):
    if sv.items is not None:
        return VList(ConcreteSeq([k for k, v in sv.items]), "generator")
    return sv


@method("dict", "copy")
def _dict_copy(interp, sv, args, kwargs, node):
    if sv.items is not None:
        return interp.born(VDict(items=[[k, v] for k, v in sv.items]))
    return interp.born(VDict(dom=sv.dom, get=sv.get, key_kind=sv.key_kind, val_kind=sv.val_kind))


@method("dict", "pop")
def _dict_pop(interp, sv, args, kwargs, node):
    interp.check_mutable_target(sv, node, ".pop")
    if sv.items is None:
        raise Unsupported("pop on symbolic dict")
    key = args[0]
    for i, (k, v) in enumerate(sv.items):
        c = concrete_bool(interp.veq(k, key))
        if c is True:
            del sv.items[i]
            return v
        if c is None:
            raise Unsupported("dict.pop undecided key")
    if len(args) > 1:
        return args[1]
    raise_py(interp, "KeyError", "pop", node)


@method("dict", "setdefault")
def _dict_setdefault(interp, sv, args, kwargs, node):
    interp.check_mutable_target(sv, node, ".setdefault")
    if sv.items is None:
        raise Unsupported("setdefault on symbolic dict")
    key = args[0]
    for k, v in sv.items:
        if concrete_bool(interp.veq(k, key)) is True:
            return v
    sv.items.append([key, args[1] if len(args) > 1 else NONE])
    return sv.items[-1][1]


def _dict_iter_hook(interp, it, node):
    if isinstance(it, VObj) and it.tag in ("dict_items", "dict_values"):
        d = it.dict_of
        x = interp.ctx.fresh("key", d.key_kind.sort())
        xv = d.key_kind.wrap(x)
        if it.tag == "dict_items":
            return [([x], d.dom(xv), VTuple([xv, d.get(xv)]), None)]
        return [([x], d.dom(xv), d.get(xv), None)]
    return None


ITER_HOOKS.append(_dict_iter_hook)


@method("iterator", "__next__")
def _it_next(interp, sv, args, kwargs, node):
    return _next(interp, [sv], {}, node)


def _iter_method(interp, sv, args, kwargs, node):
    return _iter(interp, [sv], {}, node)


for _c in ("list", "tuple", "str", "set", "dict", "ndarray", "Series", "generator", "range"):
    METHODS[(_c, "__iter__")] = _iter_method


@extern("itertools.combinations")
def _combinations(interp, args, kwargs, node):
    return VCombos(args[0], args[1])


@extern("itertools.chain")
def _chain(interp, args, kwargs, node):
    acc = interp.born(VList(ConcreteSeq([]), "generator"))
    for a in args:
        interp.mutate_extend(acc, a, node)
    return acc


# ---- multiprocessing.Pool (assumed: map = sequential order-preserving map; workers inherit module globals as they
# were when the pool was created) --------------------------------------------------------------------------------

@extern("multiprocessing.Pool")
def _pool(interp, args, kwargs, node):
    o = VObj("Pool")
    o.globals_at_creation = dict(interp.global_state)
    return o


def with_stmt(interp, node, env):
    if len(node.items) != 1:
        raise Unsupported("with: several items")
    it = node.items[0]
    cm = interp.ev(it.context_expr, env)
    if not (isinstance(cm, VObj) and cm.tag == "Pool"):
        raise Unsupported(f"{interp.current_qualname}:{node.lineno}: with statement over {cm!r}")
    if it.optional_vars is not None:
        interp.assign(it.optional_vars, cm, env, node)
    interp.exec_block(node.body, env)


@method("Pool", "map")
def _pool_map(interp, sv, args, kwargs, node):
    f, it = args[0], args[1]
    cs = kwargs.get("chunksize", args[2] if len(args) > 2 else NONE)
    short = (interp.current_qualname or "").replace("pyrepseq.", "")
    line = getattr(node, "lineno", "?")
    interp.ctx.assumed.add("extern:multiprocessing.Pool.map(f, it, chunksize) = list(map(f, it)) in input order, requires chunksize >= 1; "
                           "workers see module globals as of Pool creation (fork); scheduling is not modelled")
    if not isinstance(cs, VNone):
        interp.ctx.oblige(f"{short}/call-pre[Pool.map.chunksize>=1]@L{line}", to_int(cs) >= 1, kind="call-pre", line=line)
    stale = [k for k, v in interp.global_state.items() if sv.globals_at_creation.get(k) is not v]
    interp.ctx.oblige(f"{short}/order[globals assigned before Pool()]@L{line}", z3.BoolVal(not stale), kind="order", line=line,
                      detail=f"module globals written after the pool was created: {stale}")
    return BUILTINS["list"](interp, [BUILTINS["map"](interp, [f, it], {}, node)], {}, node)


@builtin("super")
def _super(interp, args, kwargs, node):
    return interp.super_proxy(node)
