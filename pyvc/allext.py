"""imports every extern / lemma module (registration by side effect)"""
from . import ext_numpy, ext_pandas, ext_anyobj, ext_scipy, ext_strings, ext_opaque, ext_graph, ext_plot, lemmas_c06, lean_plugin, bounded_plugins, frame_plugin  # noqa: F401
