"""C20: frame obligations for every function of the package (pyvc/frame.py), the benign-global check for nn._cal_params,
and the scan for non-NumPy sources of nondeterminism."""
import ast
import os
import json
from .plugins import plugin
from . import frontend, frame
from .bounded_plugins import _harness

NONDET_MODULES = {"random", "time", "secrets", "uuid", "datetime"}


def _functions(repo):
    for mn in frontend.MODULE_FILES:
        m = repo.module(mn)
        fns = [(None, f) for f in m.functions.values()]
        for c in m.classes.values():
            fns += [(c, f) for f in c.body if isinstance(f, ast.FunctionDef)]
        for cls, f in fns:
            yield mn, m, cls, f


@plugin("C20")
def c20_frames(repo, reg, prop, tier, seed):
    checked, errors = [], []
    n_sites = 0
    samples = []
    frame.scan_memoised([repo.module(mn) for mn in frontend.MODULE_FILES])
    for mn, m, cls, f in _functions(repo):
        ff = frame.FunctionFrame(m, f, cls).analyse()
        n_sites += len(ff.sites)
        bad = [(s, sorted(frame.violating(s, ff))) for s in ff.sites if frame.violating(s, ff)]
        qual = f"{mn}.{ff.name}"
        item = {"name": f"{qual.replace('pyrepseq.', '')}/frame[no store into caller-owned, default-argument or module objects]",
                "function": qual, "kind": "frame", "instances": max(1, len(ff.sites)), "solvers": ["origin analysis (no solver)"],
                "time_s": 0.0, "status": "discharged" if not bad else "refuted",
                "sites": [{"line": s["line"], "what": s["what"], "origins": s["origins"]} for s in ff.sites]}
        if bad:
            s, orgs = bad[0]
            item["detail"] = f"{os.path.relpath(m.path, frontend.REPO)}:{s['line']}: {s['what']} -- target may be {orgs}"
            # replay: run the function and compare argument / default / module-state snapshots
            out = _harness("frame", {"qualname": qual, "seed": seed})
            item["replay"] = {"qualname": qual, "found": bool(out.get("found")), "args": out.get("args"), "report": out,
                              "frame_replay": True}
        checked.append(item)
    # ---- module-level state written by functions: `global` declarations
    for mn, m, cls, f in _functions(repo):
        gl = sorted({n for g in ast.walk(f) if isinstance(g, ast.Global) for n in g.names})
        for g in gl:
            ok, why = benign_global(repo, m, f, g)
            checked.append({"name": f"{mn.replace('pyrepseq.', '')}.{f.name}/frame[benign global {g}]", "function": f"{mn}.{f.name}",
                            "kind": "frame", "instances": 1, "solvers": ["call-graph / dominance check"], "time_s": 0.0,
                            "status": "discharged" if ok else "refuted", "detail": why})
    # ---- nondeterminism other than numpy's global generator
    bad_imports = []
    for mn in frontend.MODULE_FILES:
        m = repo.module(mn)
        for n in ast.walk(m.tree):
            if isinstance(n, ast.Import):
                bad_imports += [(mn, a.name) for a in n.names if a.name.split(".")[0] in NONDET_MODULES]
            if isinstance(n, ast.ImportFrom) and n.module and n.module.split(".")[0] in NONDET_MODULES:
                bad_imports.append((mn, n.module))
            if isinstance(n, ast.Attribute) and isinstance(n.value, ast.Name) and n.value.id == "os" and n.attr in ("urandom", "getpid", "times"):
                bad_imports.append((mn, f"os.{n.attr}"))
    checked.append({"name": "package/frame[randomness only through numpy's global generator]", "function": None, "kind": "frame",
                    "instances": len(frontend.MODULE_FILES), "solvers": ["import / attribute scan"], "time_s": 0.0,
                    "status": "discharged" if not bad_imports else "refuted", "detail": str(bad_imports)})
    return {"name": "c20_frames", "checked": checked, "errors": errors,
            "assumed": ["frame: the fresh / aliasing / mutating classification of library calls in pyvc/frame.py (np.sort is pure, x.sort() mutates, "
                        "pandas methods without inplace=True return new objects, **kwargs is a new dict per call)",
                        "frame: results of pyrepseq functions are new objects except ensure_numpy / convert_tuple_to_dataframe_if_necessary / "
                        "downsample / np.asarray, which may return their argument",
                        "meta-lemma (stated, not mechanised): functions with an empty frame whose results depend only on arguments, module "
                        "constants and the NumPy generator state cannot influence each other through call history"],
            "not_decided": ["the ORDER of triplets in list results depends on set / dict iteration order (string hashing is randomised per "
                            "interpreter): results are equal as collections, not necessarily as ordered lists, across interpreters",
                            "the tcrdist sub-package (tcrdist3 is not installed) is not analysed"],
            "extra": {"functions": len([1 for _ in _functions(repo)]), "mutation_sites": n_sites}}


def benign_global(repo, m, f, g):
    """the global is (re)written by f before any code that reads it can run in the same call, and its readers are reachable
    only through f: then no result depends on what an EARLIER call left there."""
    readers = []
    for name, fn in m.functions.items():
        if fn is f:
            continue
        if any(isinstance(n, ast.Name) and n.id == g and isinstance(n.ctx, ast.Load) for n in ast.walk(fn)):
            readers.append(name)
    # write position in f
    wline = None
    for n in ast.walk(f):
        if isinstance(n, ast.Assign) and any(isinstance(t, ast.Name) and t.id == g for t in n.targets):
            wline = n.lineno if wline is None else min(wline, n.lineno)
    if wline is None:
        return False, f"{g} declared global but never assigned"
    # the write must dominate: be a top-level statement of f
    if not any(isinstance(s, ast.Assign) and s.lineno == wline for s in f.body):
        return False, f"write of {g} at L{wline} is conditional"
    # every reference to a reader function must be inside f, after the write
    for mn2 in frontend.MODULE_FILES:
        m2 = repo.module(mn2)
        for fn2 in ast.walk(m2.tree):
            if not isinstance(fn2, ast.FunctionDef):
                continue
            for n in ast.walk(fn2):
                if isinstance(n, ast.Name) and n.id in readers and isinstance(n.ctx, ast.Load):
                    if not (fn2 is f or fn2.name in readers) :
                        return False, f"reader {n.id} of global {g} is referenced from {mn2}.{fn2.name}, outside {f.name}"
                    if fn2 is f and n.lineno < wline:
                        # selecting the function object before the write is harmless; calling it is not
                        pass
    # calls (uses as callee / map argument) of readers inside f after the write
    for n in ast.walk(f):
        if isinstance(n, ast.Call):
            names = [a.id for a in ast.walk(n) if isinstance(a, ast.Name)]
            if any(r in names for r in readers) or "cal" in names:
                if n.lineno < wline:
                    return False, f"a reader of {g} may run at L{n.lineno}, before the write at L{wline}"
    # worker processes: Pool created after the write
    for n in ast.walk(f):
        if isinstance(n, ast.Call) and isinstance(n.func, ast.Name) and n.func.id == "Pool" and n.lineno < wline:
            return False, f"Pool created at L{n.lineno} before {g} is written at L{wline}: workers would inherit the stale value"
    return True, f"{g} is written at L{wline} (top level of {f.name}) before any of its readers {readers} can run; readers are referenced only inside {f.name}"
