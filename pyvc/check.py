"""bin/check <PROPERTY> [--tier quick|thorough] [--replay FILE] [--json]

Decides one property: regenerates the verification conditions of every function under contract
for that property from the CURRENT /repo working tree, discharges them, replays refutations on
the real code, compares with known_findings.jsonl and writes evidence/<ID>.json.

exit 0  every obligation discharged (or only listed known findings fail)
exit 1  VIOLATION property=<id> replay=<path> [no-failing-input-found]
exit 3  ERROR (front end / tool failure: never a verdict)
"""
import argparse
import hashlib
import json
import os
import subprocess
import sys
import time
import traceback

VERIF = os.path.dirname(os.path.dirname(os.path.abspath(__file__)))
sys.path.insert(0, VERIF)

import z3                                            # noqa: E402
from pyvc import frontend, contracts, verify, solve  # noqa: E402
from pyvc import allext                               # noqa: E402,F401
from pyvc.values import Unsupported                   # noqa: E402
from pyvc import plugins                              # noqa: E402,F401

VENV_PY = "/venv/bin/python"
IDEALISATIONS = [
    "int is Z; float is R (no rounding / overflow; nan and inf are explicit tagged values)",
    "str is a finite sequence of code points (SMT String); numpy.str_ identified with str",
    "generators are finite lists; set iteration order is arbitrary (bags); dict keeps insertion order",
    "assert raises AssertionError (interpreter not run with -O); MemoryError/RecursionError/KeyboardInterrupt out of scope",
    "termination is not proved except where a loop variant is stated",
]
TRUSTED_BASE = [
    "pyvc symbolic executor + VC generator (/verif/pyvc), guarded by canaries, reachability checks and the mutation self-test",
    "z3 5.1.0 / cvc5 1.0.3 (unsat answers)",
    "side-car contracts (/verif/contracts) as the formal reading of the property statement",
    "assumed library contracts (/verif/pyvc/externs.py, ext_*.py) listed under assumptions",
    "Lean 4.33 kernel + Mathlib for imported lemmas (where listed)",
]


def sh(cmd, **kw):
    return subprocess.run(cmd, capture_output=True, text=True, **kw)


def harness(cmd, req, timeout=600):
    env = dict(os.environ)
    env.setdefault("PYREPSEQ_REPO", frontend.REPO)
    p = subprocess.run([VENV_PY, os.path.join(VERIF, "replay", "harness.py"), cmd], input=json.dumps(req),
                       capture_output=True, text=True, env=env, timeout=timeout, cwd=VERIF)
    try:
        return json.loads(p.stdout)
    except Exception:
        return {"error": (p.stdout[-500:] + p.stderr[-1500:])}


def write_replay(prop, qualname, obligation, recipes, solver_info, found_input, frame=False):
    d = os.path.join(VERIF, "replays", prop)
    os.makedirs(d, exist_ok=True)
    safe = "".join(ch if ch.isalnum() or ch in "._-" else "_" for ch in obligation)[:120]
    path = os.path.join(d, safe + ".py")
    with open(path, "w") as f:
        f.write("#!/venv/bin/python\n")
        f.write(f'"""Replay for property {prop}\nfailed obligation: {obligation}\nfunction: {qualname}\n')
        f.write("verifier output:\n" + json.dumps(solver_info, indent=1, default=str).replace('"""', "'''") + '\n"""\n')
        f.write("import os, sys, json\n")
        f.write(f"sys.path.insert(0, {VERIF!r})\n")
        f.write("from replay import harness\n")
        f.write(f"OBLIGATION = {obligation!r}\nQUALNAME = {qualname!r}\n")
        if found_input and frame:
            f.write(f"ARGS = json.loads({json.dumps(json.dumps(recipes))})\n")
            f.write("harness.frame_replay_main(QUALNAME, ARGS)\n")
        elif found_input:
            f.write(f"ARGS = json.loads({json.dumps(json.dumps(recipes))})\n")
            f.write("harness.replay_main(QUALNAME, ARGS, OBLIGATION)\n")
        else:
            f.write("print('no failing input was found for this obligation; it is reported because the verifier\\n'\n"
                    "      'could not discharge it on the current tree (see the verifier output in this file)')\n")
            f.write("print('OBLIGATION', OBLIGATION)\nsys.exit(1)\n")
    return os.path.relpath(path, VERIF)


def load_known():
    p = os.path.join(VERIF, "known_findings.jsonl")
    out = []
    if os.path.exists(p):
        for line in open(p):
            line = line.strip()
            if line and not line.startswith("#"):
                out.append(json.loads(line))
    return out


def base_name(name):
    """obligation name without the variant tag"""
    import re
    return re.sub(r"\[v\d+\]", "", name)


def main(argv=None):
    ap = argparse.ArgumentParser()
    ap.add_argument("prop")
    ap.add_argument("--tier", default=os.environ.get("VERIF_TIER", "quick"))
    ap.add_argument("--replay")
    ap.add_argument("--only")
    ap.add_argument("--no-evidence", action="store_true")
    ap.add_argument("--verbose", "-v", action="store_true")
    args = ap.parse_args(argv)
    prop = args.prop
    if args.replay:
        p = subprocess.run([VENV_PY, args.replay], cwd=VERIF)
        return p.returncode
    t_start = time.time()
    seed = int(os.environ.get("VERIF_SEED", "0") or 0)
    tier = args.tier if args.tier in ("quick", "thorough") else "quick"
    os.environ["VERIF_TIER"] = tier          # contracts marked tier="thorough" are verified by the thorough tier only
    timeout = 10 if tier == "quick" else 60
    try:
        return run_property(prop, tier, seed, timeout, args, t_start)
    except Exception:
        print(f"ERROR property={prop} checker crashed:\n{traceback.format_exc()}")
        return 3


def run_property(prop, tier, seed, timeout, args, t_start):
    repo = frontend.Repo()
    reg = contracts.Registry()
    reg.load_dir(os.path.join(VERIF, "contracts"))
    funcs = [q for q, c in reg.contracts.items() if prop in c.props and not c.trusted and not c.inline]
    if args.only:
        funcs = [q for q in funcs if args.only in q]
    plug = plugins.for_property(prop)
    if not funcs and not plug:
        print(f"ERROR property={prop}: no function under contract")
        return 3
    all_obl, reports, errors = [], [], []
    # modular verification: a property's check covers the functions tagged with it AND, transitively, every function whose
    # contract those rely on (a caller is checked against the callee's contract, so the callee's own obligations belong here too)
    tagged = set(funcs)
    todo = sorted(funcs)
    done = set()
    while todo:
        q = todo.pop(0)
        if q in done:
            continue
        done.add(q)
        try:
            rep = verify.verify_function(repo, reg, q, only_variant=(int(os.environ["VERIF_VARIANT"]) if os.environ.get("VERIF_VARIANT") else None))
            rep.tagged = q in tagged
            reports.append(rep)
            all_obl.extend(rep.obligations)
            all_obl.extend(verify.lemma_obligations(repo, reg, q))
            if not args.only:
                for callee in sorted(rep.calls):
                    cc = reg.get(callee)
                    if cc is not None and not cc.trusted and not cc.inline and callee not in done and callee not in todo:
                        todo.append(callee)
        except Unsupported as e:
            errors.append((q, f"UNSUPPORTED {e}"))
        except KeyError as e:
            errors.append((q, f"function not found in the current tree: {e}"))
        except Exception as e:       # an engine failure on this function is never a verdict; the falsifier still runs below
            errors.append((q, f"ENGINE FAILURE {type(e).__name__}: {str(e)[:200]}"))
    funcs = sorted(done)
    # reachability (non-vacuity) queries
    reach = []
    for q in sorted(funcs):
        try:
            for vi, forms, inputs in verify.reachability(repo, reg, q):
                reach.append((q, vi, forms))
        except Unsupported as e:
            errors.append((q, f"UNSUPPORTED in requires: {e}"))
    # extra obligations from plug-ins (lemmas over contracts, frame analysis, ground checks, Lean)
    plug_results = []
    for p in plug:
        try:
            plug_results.append(p(repo, reg, prop, tier, seed))
        except Unsupported as e:
            errors.append((getattr(p, "__name__", "plugin"), f"UNSUPPORTED {e}"))
    for pr in plug_results:
        all_obl.extend(pr.get("obligations", []))

    is_canary = [ob.meta.get("kind") == "canary" for ob in all_obl]
    main_idx = [i for i, c in enumerate(is_canary) if not c]
    can_idx = [i for i, c in enumerate(is_canary) if c]
    results = [None] * len(all_obl)
    for i, r in zip(main_idx, solve.solve_all([all_obl[i] for i in main_idx], timeout=timeout,
                                               cross=(tier == "thorough"), seed=seed)):
        r["idx"] = i
        results[i] = r
    # canaries only need to be *not provable*: short budget, no retry, no second solver
    for i, r in zip(can_idx, solve.solve_all([all_obl[i] for i in can_idx], timeout=3, seed=seed, cvc5=False)):
        r["idx"] = i
        results[i] = r
    # retry undecided ones once with 4x budget and another seed
    undec = [r["idx"] for r in results if r["status"] == "unknown" and not is_canary[r["idx"]]]
    if undec:
        # second attempt with a generous budget and fewer parallel workers (a loaded machine must not flip a verdict).  The type variants
        # of one obligation share their fate almost always: three representatives per obligation are retried first, the remaining
        # variants only if those were all decided (otherwise the obligation is undischarged anyway) -- this bounds the time a run on a
        # broken tree can take.
        def retry(idxs):
            sub = [all_obl[i] for i in idxs]
            r2 = solve.solve_all(sub, timeout=max(60, timeout * 6), seed=seed + 7, workers=6)
            for i, r in zip(idxs, r2):
                r["idx"] = i
                r["retried"] = True
                results[i] = r
        groups_u = {}
        for i in undec:
            groups_u.setdefault(base_name(all_obl[i].name), []).append(i)
        wave1 = [i for g in groups_u.values() for i in g[:3]]
        retry(wave1)
        wave2 = [i for g in groups_u.values() if all(results[j]["status"] != "unknown" for j in g[:3]) for i in g[3:]]
        if wave2:
            retry(wave2)
    reach_res = []
    if reach:
        from pyvc.ctx import Obligation
        robl = [Obligation(f"{q.replace('pyrepseq.', '')}/reach[v{vi}]", [(f, None) for f in forms], z3.BoolVal(False), {})
                for q, vi, forms in reach]
        reach_res = solve.solve_all(robl, timeout=timeout, seed=seed, cvc5=False)

    # ---- group by obligation name
    groups = {}
    for ob, r in zip(all_obl, results):
        g = groups.setdefault(ob.name, {"name": ob.name, "kind": ob.meta.get("kind"), "function": ob.meta.get("function"),
                                        "instances": [], "meta": ob.meta})
        g["instances"].append(r)
    engine_errors = list(errors)
    failed, canary_bad = [], []
    canary_groups = {}
    discharged = 0
    solver_time = 0.0
    per_obl = []
    for name, g in sorted(groups.items()):
        sts = [r["status"] for r in g["instances"]]
        solver_time += sum(r["time"] for r in g["instances"])
        if any(r.get("disagree") for r in g["instances"]):
            engine_errors.append((name, "solver disagreement: " + "; ".join(r["detail"] for r in g["instances"])))
        if g["kind"] == "canary":
            cg = canary_groups.setdefault(base_name(name), {"sts": [], "function": g["function"]})
            cg["sts"].extend(sts)
            continue
        status = "discharged" if all(s == "unsat" for s in sts) else ("refuted" if any(s == "sat" for s in sts) else "undecided")
        solvers = sorted({r["solver"] for r in g["instances"] if r["solver"]})
        per_obl.append({"name": name, "function": g["function"], "kind": g["kind"], "status": status,
                        "instances": len(sts), "solvers": solvers,
                        "time_s": round(sum(r["time"] for r in g["instances"]), 3)})
        if status == "discharged":
            discharged += 1
        else:
            failed.append((name, g, status))
    for pr in plug_results:
        for it in pr.get("checked", []):
            per_obl.append(it)
            if it["status"] == "discharged":
                discharged += 1
            else:
                failed.append((it["name"], {"instances": [], "meta": it, "function": it.get("function"), "plugin": it}, it["status"]))
        engine_errors.extend(pr.get("errors", []))
    failed_funcs = {g.get("function") or g["meta"].get("function") for _, g, _ in failed}
    canary_bad = [n for n, cg in canary_groups.items() if all(s == "unsat" for s in cg["sts"])
                  and cg["function"] not in failed_funcs]
    n_obl = len(per_obl)
    # a contract is vacuous when NO type variant of the function has a satisfiable precondition
    by_fun = {}
    for r in reach_res:
        by_fun.setdefault(r["name"].split("/reach")[0], []).append(r["status"])
    vacuous = [f for f, sts in by_fun.items() if all(s == "unsat" for s in sts)]
    unreachable_variants = [r["name"] for r in reach_res if r["status"] == "unsat"]
    canaries = sorted(canary_groups)

    # ---- refutations -> replay on the real code
    known = load_known()
    open_known = [k for k in known if k.get("status") == "open" and k.get("property") == prop]
    violations, known_hits = [], []
    fals_cache = {}
    seen_bases = set()
    for name, g, status in failed:
        bn = base_name(name)
        if bn in seen_bases:
            continue        # other type variants of an already reported obligation
        seen_bases.add(bn)
        q = g.get("function") or g["meta"].get("function")
        info = {"obligation": name, "status": status,
                "solver": [{k: r.get(k) for k in ("status", "solver", "time", "detail", "cvc5")} for r in g["instances"]]}
        if g.get("plugin"):
            info["detail"] = g["plugin"].get("detail")
        recipes, found, rep = None, False, None
        if g.get("plugin") and g["plugin"].get("replay"):
            rp = g["plugin"]["replay"]
            recipes, found, rep = rp.get("args"), rp.get("found", False), rp.get("report")
            q = rp.get("qualname", q)
        for r in g["instances"]:
            if found:
                break
            if r["status"] == "sat" and r.get("model"):
                if any(v.get("t") in ("opaque", "callable") for v in r["model"].values()):
                    continue
                out = harness("case", {"qualname": q, "args": r["model"]})
                info.setdefault("model_replays", []).append({"args": r["model"], "report": out})
                if out.get("violations") and out.get("in_domain"):
                    recipes, found, rep = r["model"], True, out
        if not found and q and q in reg.contracts:
            c = reg.get(q)
            import re as _re
            m_ = _re.search(r"/((?:post|returns|no-raise|raises)[^/]*)$", bn)
            want = m_.group(1) if m_ else None
            if want and want.startswith("no-raise["):
                want = want.split("@")[0]
            if (q, want) not in fals_cache:
                fals_cache[(q, want)] = harness("falsify", {"qualname": q, "scope": c.scope, "seed": seed, "clause": want,
                                                            "budget": 1500 if tier == "quick" else 30000})
            out = fals_cache[(q, want)]
            info["falsifier"] = {k: out.get(k) for k in ("found", "tried", "note", "error")}
            if out.get("found"):
                recipes, found, rep = out["args"], True, out["report"]
        info["real_code_report"] = rep
        path = write_replay(prop, q, name, recipes, info, found,
                            frame=bool(g.get("plugin") and (g["plugin"].get("replay") or {}).get("frame_replay")))
        hit = None
        for k in open_known:
            if k.get("obligation") == bn:
                hit = k
        if hit is not None:
            if not any(h is hit for h, _ in known_hits):
                known_hits.append((hit, name))
        elif not any(base_name(v[0]) == bn for v in violations):
            violations.append((name, path, found))
    # failures of functions the engine could not process: still try to falsify (a violation needs an input)
    for q, msg in list(errors):
        if q in reg.contracts:
            c = reg.get(q)
            out = harness("falsify", {"qualname": q, "scope": c.scope, "seed": seed, "budget": 3000})
            if out.get("found"):
                name = f"{q.replace('pyrepseq.', '')}/falsifier[{','.join(out['report']['violations'])[:60]}]"
                path = write_replay(prop, q, name, out["args"], {"engine": msg, "report": out["report"]}, True)
                hit = [k for k in open_known if k.get("obligation") == base_name(name)]
                if hit:
                    known_hits.append((hit[0], name))
                else:
                    violations.append((name, path, True))
                continue
        if msg.startswith(("UNSUPPORTED", "ENGINE FAILURE")) and q in reg.contracts:
            # the function's current source leaves the subset of Python the generator accepts (or calls a library function in a
            # form no assumed contract covers): none of its obligations can be generated, hence none is discharged.  That is
            # reported like any other undischarged obligation -- without a failing input.
            name = f"{q.replace('pyrepseq.', '')}/not-verifiable[{msg.split(' ', 1)[1][:80].strip() if ' ' in msg else msg[:80]}]"
            path = write_replay(prop, q, name, None, {"engine": msg, "note": "no obligation of this function could be generated from its "
                                                      "current source; every obligation of the function is undischarged"}, False)
            violations.append((name, path, False))
            engine_errors[:] = [(a, b) for a, b in engine_errors if not (a == q and b == msg)]

    # ---- thorough tier: the concrete reading of every contract in the closure is also run against the real code over its
    # falsifier scope (bounded, never counted as proof: it guards the contracts' executable reading and the assumed library
    # contracts against the installed libraries)
    proactive = []
    if tier == "thorough" and not args.only:
        from concurrent.futures import ThreadPoolExecutor
        todo_f = [q for q in funcs if q in reg.contracts and reg.get(q).scope and not any(e[0] == q for e in errors)]

        def _run(q):
            return q, harness("falsify", {"qualname": q, "scope": reg.get(q).scope, "seed": seed, "budget": 1500}, timeout=3000)
        with ThreadPoolExecutor(6) as ex:
            for q, out in ex.map(_run, todo_f):
                proactive.append({"function": q, "scope": reg.get(q).scope, "inputs_tried": out.get("tried"), "found": bool(out.get("found")),
                                  "note": out.get("note") or out.get("error")})
                if out.get("found"):
                    name = f"{q.replace('pyrepseq.', '')}/bounded-falsifier[{','.join(out['report']['violations'])[:80]}]"
                    if any(base_name(v[0]).split("/")[0] == name.split("/")[0] for v in violations):
                        continue
                    path = write_replay(prop, q, name, out["args"], {"report": out["report"], "note": "found by the bounded concrete run of the contract"}, True)
                    hit = [k for k in open_known if k.get("obligation") == base_name(name)]
                    if hit:
                        known_hits.append((hit[0], name))
                    else:
                        violations.append((name, path, True))

    # ---- evidence
    assumed = set()
    for rep in reports:
        assumed |= rep.assumed
    for pr in plug_results:
        assumed |= set(pr.get("assumed", []))
    bounded = []
    for pr in plug_results:
        bounded.extend(pr.get("bounded_standins", []))
    if proactive:
        bounded.append({"what": "concrete evaluation of the contracts' clauses on the real code over the falsifier scopes (bounded; not proof)",
                        "bound": "at most 1500 generated inputs per function", "runs": proactive})
    wall = round(time.time() - t_start, 2)
    ev = {
        "property_id": prop, "tier": tier, "seed": seed, "level": "proof",
        "coverage": {
            "obligations": n_obl, "discharged": discharged,
            "checker_cmd": f"bin/check {prop} --tier {tier}",
            "trusted_base": TRUSTED_BASE,
            "samples": [p for p in per_obl[:6]],
            "functions_under_contract": [{"function": r.qualname, "source": f"{os.path.relpath(r.source_lines[0], frontend.REPO)}:{r.source_lines[1]}-{r.source_lines[2]}",
                                          "variants": r.variants, "paths": r.paths, "tagged_with_property": getattr(r, "tagged", True),
                                          "callees_by_contract": sorted(r.calls)} for r in reports],
            "per_obligation": per_obl,
            "solver_time_s": round(solver_time, 2),
            "canaries_refuted": [c for c in canaries if c not in canary_bad],
            "reachability_checks": len(reach_res),
            "type_variants_excluded_by_preconditions": unreachable_variants,
            "bounded_standins": bounded,
            "not_decided": sum((pr.get("not_decided", []) for pr in plug_results), []) + plugins.NOT_DECIDED.get(prop, []),
            "contracts_trusted_not_discharged": sorted(q for q, c in reg.contracts.items() if prop in c.props and c.trusted and not c.inline),
            "repo_source_digest": repo.source_digest(),
            "known_findings_hit": [k.get("obligation") for k, _ in known_hits],
            "extras": {pr.get("name", f"plugin{i}"): pr.get("extra") for i, pr in enumerate(plug_results) if pr.get("extra")},
        },
        "assumptions": sorted(assumed) + IDEALISATIONS,
        "wall_s": wall,
        "violations": len(violations),
    }
    if not args.no_evidence and not args.only:
        os.makedirs(os.path.join(VERIF, "evidence"), exist_ok=True)
        with open(os.path.join(VERIF, "evidence", f"{prop}.json"), "w") as f:
            json.dump(ev, f, indent=1, default=str)

    # ---- verdict
    print(f"property {prop}: {n_obl} obligations, {discharged} discharged, {len(failed)} failed, "
          f"{len(canaries)} canaries, {len(reach_res)} reachability checks, functions={len(reports)}, "
          f"solver {solver_time:.1f}s, wall {wall}s")
    if args.verbose:
        for p in per_obl:
            print(f"   {p['status']:11s} {p['name']}  [{','.join(p.get('solvers') or [])}] {p.get('time_s', '')}s")
    for k, name in known_hits:
        print(f"KNOWN-FINDING: property={prop} {k.get('what', k.get('obligation'))} (obligation {name})")
    rc = 0
    if canary_bad or vacuous:
        for n in canary_bad:
            print(f"ERROR property={prop}: canary {n} was PROVED - unsound axiom or encoder")
        for n in vacuous:
            print(f"ERROR property={prop}: precondition unsatisfiable (vacuous contract): {n}")
        rc = 3
    for q, msg in engine_errors:
        print(f"ERROR property={prop} {q}: {msg}")
        rc = 3
    if n_obl == 0:
        print(f"ERROR property={prop}: zero obligations generated")
        rc = 3
    for name, path, found in violations:
        print(f"VIOLATION property={prop} replay={path}" + ("" if found else " no-failing-input-found"))
        print(f"  failed obligation: {name}")
        rc = 1 if rc != 3 or True else rc
    if violations:
        rc = 1
    return rc


if __name__ == "__main__":
    sys.exit(main())
