"""Assumed contracts: igraph, scipy.cluster.hierarchy, and the pandas operations used by pyrepseq.clustering (C15).
Everything here is term level: the library operations are opaque deterministic functions; the contracts of
graph_clustering / hierarchical_clustering fix WHICH operation is applied to WHAT in WHICH order."""
import z3
from .values import *
from . import externs as E
from . import spec as S
from .externs import extern, method, pure, opaque, raise_py

# ---- np.array(list of (q, r, d) triplets): an (m, 3) array -- but a 1-D empty array when the list is empty -------------------

_prev_array = E.EXTERNS["numpy.array"]


def _np_array_rows(interp, args, kwargs, node):
    v = args[0]
    if isinstance(v, VList) and v.kind == "list" and isinstance(v.content, SymSeq) and isinstance(v.content.at(z3.Int("k!probe")), VTuple):
        if not hasattr(v, "_id_term"):
            v._id_term = z3.Const(f"seq:{getattr(v, 'sid', None) or id(v) % 100000}:rows", OBJ)
        r = VObj("ndarray", opaque(interp, "numpy.array", [VObj("object", v._id_term)], None, "ndarray").term)
        r.maybe_empty_1d = v.content.length == 0
        r.rows_of = v
        interp.ctx.assumed.add("extern:numpy.array(list of k-tuples) has shape (n, k), but shape (0,) when the list is empty")
        return interp.born(r)
    return _prev_array(interp, args, kwargs, node)


E.EXTERNS["numpy.array"] = _np_array_rows


@method("ndarray", "reshape")
def _reshape(interp, sv, args, kwargs, node):
    """a.reshape(-1, k) of an (n, k) array -- or of the empty 1-D array -- is the (n, k) array with the same rows"""
    dims = list(args[0].items) if (len(args) == 1 and isinstance(args[0], VTuple)) else list(args)
    if not (isinstance(sv, VObj) and sv.term is not None) or kwargs or len(dims) != 2 or concrete_int(dims[0]) != -1:
        raise Unsupported("ndarray.reshape form")
    rows = getattr(sv, "rows_of", None)
    k = concrete_int(dims[1])
    if rows is not None and k is not None:
        w = rows.content.at(z3.Int("k!probe"))
        if isinstance(w, VTuple) and len(w.items) == k:
            r = VObj("ndarray", sv.term)          # same content; the row-less case now has shape (0, k)
            r.rows_of = rows
            r.maybe_empty_1d = None
            interp.ctx.assumed.add("extern:ndarray.reshape(-1, k) of an (n, k) array (or of an empty array) keeps the rows and has shape (n, k)")
            return interp.born(r)
    return interp.born(opaque(interp, "ndarray.reshape", [sv] + dims, None, "ndarray"))


# ---- igraph -------------------------------------------------------------------------------------------------------------------

@extern("igraph.Graph")
def _graph(interp, args, kwargs, node):
    if len(args) != 1 or set(kwargs) - {"n"}:
        raise Unsupported("igraph.Graph argument form")
    n = kwargs.get("n")
    g = opaque(interp, "igraph.Graph", [args[0]], {"n": n} if n is not None else None, "Graph")
    return interp.born(g)


@method("Graph", "connected_components")
def _cc(interp, sv, args, kwargs, node):
    mode = kwargs.get("mode", args[0] if args else VStr("strong"))
    m = concrete_str(mode)
    if m not in ("weak", "strong"):
        raise Unsupported("connected_components mode")
    interp.ctx.assumed.add("extern:igraph Graph.connected_components(): membership[u] == membership[v] exactly when a path of edges connects u and v "
                           "(undirected graph: 'weak' and 'strong' coincide)")
    return interp.born(opaque(interp, "Graph.connected_components", [sv], None, "VertexClustering"))


@method("Graph", "simplify")
def _simplify(interp, sv, args, kwargs, node):
    if args or kwargs:
        raise Unsupported("Graph.simplify options")
    interp.check_mutable_target(sv, node, ".simplify()")
    sv.term = opaque(interp, "Graph.simplify", [VObj("Graph", sv.term)], None, "Graph").term
    return sv


for _alg, _ret in (("fastgreedy", "VertexDendrogram"), ("multilevel", "VertexClustering"), ("leiden", "VertexClustering"),
                   ("walktrap", "VertexDendrogram"), ("label_propagation", "VertexClustering"), ("infomap", "VertexClustering")):
    def _mk(alg, ret):
        def h(interp, sv, args, kwargs, node):
            if args:
                raise Unsupported("community_* positional arguments")
            interp.ctx.assumed.add("extern:igraph community_* never put vertices of different connected components into one cluster (assumed, not decided)")
            return interp.born(opaque(interp, f"Graph.community_{alg}", [sv], dict(kwargs.items()), ret))
        return h
    E.METHODS[("Graph", f"community_{_alg}")] = _mk(_alg, _ret)


@method("VertexDendrogram", "as_clustering")
def _as_clustering(interp, sv, args, kwargs, node):
    if args or kwargs:
        raise Unsupported("as_clustering options")
    return interp.born(opaque(interp, "VertexDendrogram.as_clustering", [sv], None, "VertexClustering"))


def _graph_getattr(interp, base, attr, node):
    if isinstance(base, VObj) and base.tag == "VertexClustering":
        if attr == "membership":
            return interp.born(opaque(interp, "attr.membership", [base], None, "ndarray"))
        if attr == "as_clustering":
            raise_py(interp, "AttributeError", "'VertexClustering' object has no attribute 'as_clustering'", node)
    if isinstance(base, VObj) and base.tag in ("Graph", "VertexDendrogram"):
        key = (base.tag, attr)
        if key in E.METHODS:
            return VFunc("method", attr, self_val=base)
        if attr.startswith("community_"):
            raise_py(interp, "AttributeError", f"'Graph' object has no attribute '{attr}'", node)
    return None


E.HOOKS["getattr"].insert(0, _graph_getattr)


# ---- pandas pieces ------------------------------------------------------------------------------------------------------------

for _m, _tag in (("value_counts", "Series"), ("isin", "Series")):
    def _mk2(m, tag):
        def h(interp, sv, args, kwargs, node):
            if not (isinstance(sv, VObj) and sv.term is not None):
                raise Unsupported(f"Series.{m} on a modelled Series")
            return interp.born(opaque(interp, f"Series.{m}", [sv] + list(args), dict(kwargs.items()), tag))
        return h
    E.METHODS[("Series", _m)] = _mk2(_m, _tag)

_set_prev = E.BUILTINS["set"]


def _set2(interp, args, kwargs, node):
    if args and isinstance(args[0], VObj) and args[0].term is not None and getattr(args[0], "cols", None) is None \
            and args[0].tag in ("ndarray", "Series", "object"):
        return interp.born(opaque(interp, "set", args, None, "object"))
    return _set_prev(interp, args, kwargs, node)


E.BUILTINS["set"] = _set2

# ---- scipy.cluster.hierarchy ----------------------------------------------------------------------------------------------------
pure("scipy.cluster.hierarchy.linkage", "ndarray")
pure("scipy.cluster.hierarchy.fcluster", "ndarray")


@S.spec("first_two_columns")
def _first_two(interp, args, kwargs, node):
    """the (n, 2) array of the first two components of every row of np.array(rows)"""
    a = args[0]
    sl = lambda lo, hi: (lambda o: (setattr(o, "parts", [lo, hi, NONE]), o)[1])(
        VObj("slice", opaque(interp, "slice", [lo, hi, NONE], None, "slice").term))
    return interp.born(opaque(interp, "getitem", [VObj("ndarray", a.term), VTuple([sl(NONE, NONE), sl(NONE, VInt(2))])], None, "ndarray"))


@S.spec("simplified")
def _simplified(interp, args, kwargs, node):
    g = args[0]
    return interp.born(opaque(interp, "Graph.simplify", [VObj("Graph", g.term)], None, "Graph"))


@extern("itertools.product")
def _it_product(interp, args, kwargs, node):
    import itertools as _it
    lists = [interp.concrete_iter(a) for a in args]
    if kwargs or any(l is None for l in lists):
        raise Unsupported("itertools.product over symbolic iterables")
    return interp.born(VList(ConcreteSeq([VTuple(list(t)) for t in _it.product(*lists)]), "generator"))
