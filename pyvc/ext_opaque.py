"""Opaque array algebra: numeric arrays whose content is not modelled (histograms, distance vectors of an arbitrary
Metric object) are terms of the uninterpreted sort Obj built from uninterpreted library operations.  Post-conditions
over them are equalities of such terms: they fix WHICH library function is applied to WHAT in WHICH order."""
import z3
from .values import *
from . import externs as E
from . import spec as S
from .externs import extern, method, pure, opaque

ARR_TAGS = ("ndarray", "npscalar", "object", "Series", "DataFrame", "histogram", "boolarray")


def _is_opaque_arr(v):
    return isinstance(v, VObj) and v.term is not None and getattr(v, "cols", None) is None


def _binop(interp, opn, a, b, node):
    if _is_opaque_arr(a) or _is_opaque_arr(b):
        if isinstance(a, (VObj, VInt, VReal, VBool)) and isinstance(b, (VObj, VInt, VReal, VBool)):
            if opn == "Add":
                # element-wise addition is associative and commutative (float-as-real): nested sums are kept as the sorted
                # multiset of their operands, so that (a + b) + (c + d) and a + c + b + d are the same term
                ops = []
                for x in (a, b):
                    ops.extend(getattr(x, "add_ops", None) or [x])
                ops.sort(key=lambda x: E._arg_term(interp, x).sexpr())
                interp.ctx.assumed.add("float-as-real: element-wise array addition is associative and commutative")
                r = interp.born(opaque(interp, f"op.Sum{len(ops)}", ops, None, "ndarray"))
                r.add_ops = ops
                return r
            return interp.born(opaque(interp, f"op.{opn}", [a, b], None, "ndarray"))
    return None


E.HOOKS["binop"].append(_binop)


def _cmp(interp, opn, a, b, node):
    if (_is_opaque_arr(a) and a.tag in ("ndarray", "Series")) or (_is_opaque_arr(b) and b.tag in ("ndarray", "Series")):
        return interp.born(opaque(interp, f"cmp.{opn}", [a, b], None, "boolarray"))
    return None


E.HOOKS["cmp"].append(_cmp)


def _unpack(interp, v, n, node):
    if _is_opaque_arr(v):
        return [interp.born(opaque(interp, "getitem", [v, VInt(k)], None, "ndarray")) for k in range(n)]
    return None


E.HOOKS["unpack"].append(_unpack)


def _index(interp, base, idx, node):
    if _is_opaque_arr(base) and base.tag in ("ndarray", "object", "npscalar", "histogram"):
        if isinstance(idx, (VInt, VObj, VStr)):
            return interp.born(opaque(interp, "getitem", [base, idx], None, "ndarray"))
    return None


E.HOOKS["index"].append(_index)

pure("numpy.histogram", "object")
pure("numpy.arange", "ndarray")


@method("ndarray", "astype")
def _astype(interp, sv, args, kwargs, node):
    if _is_opaque_arr(sv):
        return interp.born(opaque(interp, "ndarray.astype", [sv] + list(args), kwargs, "ndarray"))
    raise Unsupported("astype on a modelled array")


_np_sum = E.EXTERNS["numpy.sum"]


def np_sum(interp, args, kwargs, node):
    if _is_opaque_arr(args[0]):
        return interp.born(opaque(interp, "numpy.sum", args, kwargs, "npscalar"))
    return _np_sum(interp, args, kwargs, node)


E.EXTERNS["numpy.sum"] = np_sum


# Metric objects (arbitrary implementations of the pyrepseq Metric interface): methods are opaque deterministic functions
@method("Metric", "calc_pdist_vector")
def _m_pdist(interp, sv, args, kwargs, node):
    return interp.born(opaque(interp, "Metric.calc_pdist_vector", [sv] + list(args), kwargs, "ndarray"))


@method("Metric", "calc_cdist_matrix")
def _m_cdist(interp, sv, args, kwargs, node):
    return interp.born(opaque(interp, "Metric.calc_cdist_matrix", [sv] + list(args), kwargs, "ndarray"))


@S.spec("class_name")
def _class_name(interp, args, kwargs, node):
    v = args[0]
    if isinstance(v, VObj):
        return VStr(v.tag)
    return VStr(v.py_type())


@S.spec("metric_of_class")
def _metric_of_class(interp, args, kwargs, node):
    """an instance of the named default metric class (constructed without arguments): identified by its class"""
    name = concrete_str(args[0])
    return VObj("Metric", z3.Const(f"default_metric:{name}", OBJ), attrs={"class_name": VStr(name)})


@S.spec("is_zero")
def _is_zero(interp, args, kwargs, node):
    v = args[0]
    return VBool(concrete_int(v) == 0 if isinstance(v, VInt) else False)


@S.spec("same_value")
def _same_value(interp, args, kwargs, node):
    a, b = args
    return VBool(interp.veq(a, b, node))


@S.spec("raw_hist")
def _raw_hist(interp, args, kwargs, node):
    """Inverts the documented normalisation symbolically: given the RESULT term, normalize and pseudocount, returns the term h
    such that result == h (normalize False), h / sum(h) (no pseudocount) or (h.astype(float64) + c) / (sum(h) + 2c).
    If the result does not have that shape the returned term is the result itself (the comparison then fails)."""
    res, normalize, pc = args
    norm = concrete_bool(interp.as_bool_term(normalize))
    if not norm:
        return res
    t = res.term if isinstance(res, VObj) else None
    if t is None or not z3.is_app(t):
        return res
    has_pc = not (isinstance(pc, VReal) and concrete_bool(pc.term == 0) is True)
    name = t.decl().name()
    if not name.startswith("op.Div"):
        return res
    num, den = t.children()
    if not has_pc:
        # h / np.sum(h)
        if z3.is_app(den) and den.decl().name().startswith("numpy.sum") and z3.eq(den.children()[0], num):
            return VObj("ndarray", num)
        return res
    # (h.astype(np.float64) + c) / (np.sum(h) + 2*c)
    c = to_real(pc)
    is_sum = lambda t_: z3.is_app(t_) and (t_.decl().name().startswith("op.Add") or t_.decl().name().startswith("op.Sum2"))
    if is_sum(num) and is_sum(den):
        def split(t_, prefix):
            x, y = t_.children()
            if z3.is_app(y) and y.decl().name().startswith(prefix):
                x, y = y, x
            return x, y         # (the library term, the scalar)
        a0, a1 = split(num, "ndarray.astype")
        d0, d1 = split(den, "numpy.sum")
        if z3.is_app(a0) and a0.decl().name().startswith("ndarray.astype") and a1.sort() == c.sort() and z3.eq(z3.simplify(a1), z3.simplify(c)) \
                and z3.is_app(d0) and d0.decl().name().startswith("numpy.sum") and z3.eq(d0.children()[0], a0.children()[0]) \
                and d1.sort() == c.sort() and z3.eq(z3.simplify(d1), z3.simplify(2 * c)):
            return VObj("ndarray", a0.children()[0])
    return res


@S.spec("the_metric")
def _the_metric(interp, args, kwargs, node):
    """the metric pcDelta / hierarchical_clustering must use: the given one, else the default for the data"""
    metric, data = args
    if not isinstance(metric, VNone):
        return metric
    c = interp.registry.get("pyrepseq.distance.get_default_metric_for_input_data")
    env = c.spec_env(interp, {"input_data": data, "result": NONE})
    # evaluate the default-metric rule of that contract (class chosen by the columns present)
    from .ext_pandas import _frame_contains
    is_tab = isinstance(data, VObj) and getattr(data, "cols", None) is not None
    if not is_tab:
        name = "Levenshtein"
    else:
        names = [n for n, _ in data.cols]
        name = "Cdr3Levenshtein" if ("CDR3A" in names and "CDR3B" in names) else "AlphaCdr3Levenshtein" if "CDR3A" in names \
            else "BetaCdr3Levenshtein" if "CDR3B" in names else "Levenshtein"
    return _metric_of_class(interp, [VStr(name)], {}, node)


@S.spec("same_rows")
def _same_rows(interp, args, kwargs, node):
    """x is src itself, or the table made of the two sequences of a legacy (alpha, beta) tuple"""
    x, src = args
    if x is src:
        return VBool(True)
    if isinstance(src, VTuple) and isinstance(x, VObj) and getattr(x, "cols", None) is not None and len(src.items) == 2:
        return VBool(x.cols[0][1] is src.items[0] and x.cols[1][1] is src.items[1])
    return VBool(False)


@S.spec("is_subsample_rows")
def _is_subsample_rows(interp, args, kwargs, node):
    x, src, m = args
    so = getattr(x, "sub_of", None)
    ok = so is src or (so is not None and concrete_bool(_same_rows(interp, [so, src], {}, node).term) is True)
    n = interp.seq_len(x) if isinstance(x, VList) else interp.seq_len(x.cols[0][1])
    return VBool(z3.And(z3.BoolVal(bool(ok) and not getattr(x, "with_replacement", False)), n == to_int(m)))


# ---- more opaque plumbing: slices, item assignment, pandas accessors ------------------------------------------
import ast as _ast
from .symex import Interp as _Interp


def _ev_Slice(self, node, env):
    parts = []
    for p in (node.lower, node.upper, node.step):
        parts.append(self.ev(p, env) if p is not None else NONE)
    o = VObj("slice", opaque(self, "slice", parts, None, "slice").term)
    o.parts = parts
    return o


_Interp.ev_Slice = _ev_Slice


def _setitem(interp, base, idx, v, node):
    if _is_opaque_arr(base) and base.tag in ("ndarray", "object"):
        interp.check_mutable_target(base, node, "[...] =")
        base.term = opaque(interp, "setitem", [VObj(base.tag, base.term), idx, v], None, base.tag).term
        return True
    return None


E.HOOKS["setitem"].append(_setitem)


def _index2(interp, base, idx, node):
    if _is_opaque_arr(base) and base.tag in ("DataFrame", "Series", "ndarray", "object", "strings"):
        if isinstance(idx, (VStr, VInt, VObj, VTuple)) or (isinstance(idx, VList) and isinstance(idx.content, ConcreteSeq)):
            empty = getattr(base, "maybe_empty_1d", None)
            if empty is not None and isinstance(idx, VTuple) and not interp.spec_mode:
                # a 2-D index into what is a 1-D empty array when there are no rows
                if interp.ctx.decide(empty, getattr(node, "lineno", "")):
                    E.raise_py(interp, "IndexError", "too many indices for array: array is 1-dimensional", node)
                base.maybe_empty_1d = None       # known to have rows from here on
            tag = {"DataFrame": "Series"}.get(base.tag, base.tag)
            return interp.born(opaque(interp, "getitem", [base, idx], None, tag))
    return None


E.HOOKS["index"].insert(0, _index2)


def _getattr(interp, base, attr, node):
    if _is_opaque_arr(base) and base.tag in ("Series", "DataFrame", "ndarray", "object"):
        if attr in ("str", "iloc", "loc", "values", "index", "columns", "flat", "T"):
            return interp.born(opaque(interp, f"attr.{attr}", [base], None, {"str": "strings", "iloc": "object", "loc": "object"}.get(attr, "ndarray")))
    return None


E.HOOKS["getattr"].append(_getattr)


@method("ndarray", "get_indexer")
def _get_indexer(interp, sv, args, kwargs, node):
    return interp.born(opaque(interp, "Index.get_indexer", [sv] + list(args), kwargs, "ndarray"))


_list_builtin = E.BUILTINS["list"]


def _list2(interp, args, kwargs, node):
    if args and _is_opaque_arr(args[0]):
        return interp.born(opaque(interp, "list", args, None, "ndarray"))
    return _list_builtin(interp, args, kwargs, node)


E.BUILTINS["list"] = _list2

_len_hook_prev = None


def _len_opaque(interp, v, node):
    if _is_opaque_arr(v) and v.tag in ("ndarray", "DataFrame", "Series", "object"):
        n = opaque(interp, "len", [v], None, "int", rsort=z3.IntSort())
        interp.ctx.assume(n >= 0)
        if getattr(v, "maybe_empty_1d", None) is not None:
            interp.ctx.assume((n == 0) == v.maybe_empty_1d, "extern:len(numpy.array(list)) is the number of list elements")
        return VInt(n)
    return None


E.LEN_HOOKS.append(_len_opaque)

pure("pwseqdist.apply_pairwise_sparse", "ndarray")

_np_asarray_prev = E.EXTERNS["numpy.asarray"]


def _np_array_bag(interp, args, kwargs, node):
    v = args[0]
    if isinstance(v, VList) and isinstance(v.content, CompBag):
        # np.array(list of k-tuples): shape (n, k) -- but shape (0,) for an empty list
        if not hasattr(v, "_id_term"):
            E._INST[0] += 1
            v._id_term = z3.Const(f"bag:{E._INST[0]}", OBJ)
        r = VObj("ndarray", opaque(interp, "numpy.array", [VObj("object", v._id_term)], None, "ndarray").term)
        if v.content.sites:
            empty = z3.Not(z3.Or(*[z3.Exists(s.all_vars(), s.full_cond()) if s.all_vars() else s.full_cond()
                                   for s in v.content.sites]))
        else:
            empty = z3.BoolVal(True)
        r.maybe_empty_1d = empty
        r.rows_of = v
        interp.ctx.assumed.add("extern:numpy.array(list of k-tuples) has shape (n, k) for n > 0 and shape (0,) for the empty list")
        return interp.born(r)
    return _np_asarray_prev(interp, args, kwargs, node)


E.EXTERNS["numpy.array"] = _np_array_bag


@extern("numpy.empty")
def _np_empty2(interp, args, kwargs, node):
    from .ext_numpy import np_empty
    shp = args[0]
    if isinstance(shp, VTuple) and all(concrete_int(x) is not None for x in shp.items) and concrete_int(shp.items[0]) == 0:
        return interp.born(opaque(interp, "numpy.empty", args, kwargs, "ndarray"))
    return np_empty(interp, args, kwargs, node)


@S.spec("is_empty_result")
def _is_empty_result(interp, args, kwargs, node):
    v = args[0]
    if isinstance(v, VObj) and v.term is not None and z3.is_app(v.term) and v.term.decl().name().startswith("numpy.empty"):
        return VBool(True)
    return VBool(False)


def _series_attr(interp, base, attr, node):
    if isinstance(base, VList) and base.kind == "Series" and isinstance(base.content, SymSeq):
        if attr == "str":
            o = VObj("strings")
            o.of = base
            return o
        if attr in ("iloc", "loc", "values"):
            return interp.born(opaque(interp, f"attr.{attr}", [base], None, "object"))
    return None


E.HOOKS["getattr"].insert(0, _series_attr)


def _str_slice(interp, base, lo, hi, st, node):
    if isinstance(base, VObj) and base.tag == "strings" and getattr(base, "of", None) is not None:
        src = base.of
        interp.ctx.assumed.add("extern:pandas Series.str[a:b] slices every string of the Series like Python's s[a:b]")
        r = VList(SymSeq(src.content.length, lambda k: interp.slice(src.content.at(k), lo, hi, st, node), src.content.elem_kind), "Series")
        r.labels = None
        r.sid = f"strslice({src.sid},{lo!r},{hi!r})"
        return interp.born(r)
    if _is_opaque_arr(base):
        return interp.born(opaque(interp, "getslice", [base, lo if lo is not None else NONE, hi if hi is not None else NONE], None, base.tag))
    return None


E.HOOKS["slice"].append(_str_slice)


@method("list", "get_indexer")
def _list_get_indexer(interp, sv, args, kwargs, node):
    """Index.get_indexer(labels): positions of the labels in the index (-1 for absent labels)"""
    return interp.born(opaque(interp, "Index.get_indexer", [VObj("object", z3.Const(getattr(sv, "index_of", None) or f"index:{id(sv) % 100000}", OBJ))] + list(args), kwargs, "ndarray"))


@S.spec("bag_is_empty")
def _bag_is_empty(interp, args, kwargs, node):
    v = args[0]
    bag = S.bag_of(interp, v)
    if not bag.sites:
        return VBool(True)
    return VBool(z3.Not(z3.Or(*[z3.Exists(s.all_vars(), s.full_cond()) if s.all_vars() else s.full_cond() for s in bag.sites])))


@S.spec("set_column")
def _set_column(interp, args, kwargs, node):
    """set_column(A, j, v): the array A after A[:, j] = v (functional form of the in-place assignment)"""
    A, j, v = args
    sl = VObj("slice", opaque(interp, "slice", [NONE, NONE, NONE], None, "slice").term)
    sl.parts = [NONE, NONE, NONE]
    idx = VTuple([sl, j])
    return interp.born(opaque(interp, "setitem", [VObj(A.tag, A.term), idx, v], None, A.tag))
