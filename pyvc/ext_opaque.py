"""Opaque array algebra: numeric arrays whose content is not modelled (histograms, distance vectors of an arbitrary
Metric object) are terms of the uninterpreted sort Obj built from uninterpreted library operations.  Post-conditions
over them are equalities of such terms: they fix WHICH library function is applied to WHAT in WHICH order."""
import z3
from .values import *
from . import externs as E
from . import spec as S
from .externs import extern, method, pure, opaque

ARR_TAGS = ("ndarray", "npscalar", "object", "Series", "DataFrame", "histogram", "boolarray")


def _is_opaque_arr(v):
    return isinstance(v, VObj) and v.term is not None and getattr(v, "cols", None) is None


def _binop(interp, opn, a, b, node):
    if _is_opaque_arr(a) or _is_opaque_arr(b):
        if isinstance(a, (VObj, VInt, VReal, VBool)) and isinstance(b, (VObj, VInt, VReal, VBool)):
            return interp.born(opaque(interp, f"op.{opn}", [a, b], None, "ndarray"))
    return None


E.HOOKS["binop"].append(_binop)


def _cmp(interp, opn, a, b, node):
    if (_is_opaque_arr(a) and a.tag in ("ndarray", "Series")) or (_is_opaque_arr(b) and b.tag in ("ndarray", "Series")):
        return interp.born(opaque(interp, f"cmp.{opn}", [a, b], None, "boolarray"))
    return None


E.HOOKS["cmp"].append(_cmp)


def _unpack(interp, v, n, node):
    if _is_opaque_arr(v):
        return [interp.born(opaque(interp, "getitem", [v, VInt(k)], None, "ndarray")) for k in range(n)]
    return None


E.HOOKS["unpack"].append(_unpack)


def _index(interp, base, idx, node):
    if _is_opaque_arr(base) and base.tag in ("ndarray", "object", "npscalar", "histogram"):
        if isinstance(idx, (VInt, VObj, VStr)):
            return interp.born(opaque(interp, "getitem", [base, idx], None, "ndarray"))
    return None


E.HOOKS["index"].append(_index)

pure("numpy.histogram", "object")
pure("numpy.arange", "ndarray")
pure("numpy.log", "ndarray")


@method("ndarray", "astype")
def _astype(interp, sv, args, kwargs, node):
    if _is_opaque_arr(sv):
        return interp.born(opaque(interp, "ndarray.astype", [sv] + list(args), kwargs, "ndarray"))
    raise Unsupported("astype on a modelled array")


_np_sum = E.EXTERNS["numpy.sum"]


def np_sum(interp, args, kwargs, node):
    if _is_opaque_arr(args[0]):
        return interp.born(opaque(interp, "numpy.sum", args, kwargs, "npscalar"))
    return _np_sum(interp, args, kwargs, node)


E.EXTERNS["numpy.sum"] = np_sum


# Metric objects (arbitrary implementations of the pyrepseq Metric interface): methods are opaque deterministic functions
@method("Metric", "calc_pdist_vector")
def _m_pdist(interp, sv, args, kwargs, node):
    return interp.born(opaque(interp, "Metric.calc_pdist_vector", [sv] + list(args), kwargs, "ndarray"))


@method("Metric", "calc_cdist_matrix")
def _m_cdist(interp, sv, args, kwargs, node):
    return interp.born(opaque(interp, "Metric.calc_cdist_matrix", [sv] + list(args), kwargs, "ndarray"))


@S.spec("class_name")
def _class_name(interp, args, kwargs, node):
    v = args[0]
    if isinstance(v, VObj):
        return VStr(v.tag)
    return VStr(v.py_type())


@S.spec("metric_of_class")
def _metric_of_class(interp, args, kwargs, node):
    """an instance of the named default metric class (constructed without arguments): identified by its class"""
    name = concrete_str(args[0])
    return VObj("Metric", z3.Const(f"default_metric:{name}", OBJ), attrs={"class_name": VStr(name)})


@S.spec("is_zero")
def _is_zero(interp, args, kwargs, node):
    v = args[0]
    return VBool(concrete_int(v) == 0 if isinstance(v, VInt) else False)


@S.spec("same_value")
def _same_value(interp, args, kwargs, node):
    a, b = args
    return VBool(interp.veq(a, b, node))


@S.spec("raw_hist")
def _raw_hist(interp, args, kwargs, node):
    """Inverts the documented normalisation symbolically: given the RESULT term, normalize and pseudocount, returns the term h
    such that result == h (normalize False), h / sum(h) (no pseudocount) or (h.astype(float64) + c) / (sum(h) + 2c).
    If the result does not have that shape the returned term is the result itself (the comparison then fails)."""
    res, normalize, pc = args
    norm = concrete_bool(interp.as_bool_term(normalize))
    if not norm:
        return res
    t = res.term if isinstance(res, VObj) else None
    if t is None or not z3.is_app(t):
        return res
    has_pc = not (isinstance(pc, VReal) and concrete_bool(pc.term == 0) is True)
    name = t.decl().name()
    if not name.startswith("op.Div"):
        return res
    num, den = t.children()
    if not has_pc:
        # h / np.sum(h)
        if z3.is_app(den) and den.decl().name().startswith("numpy.sum") and z3.eq(den.children()[0], num):
            return VObj("ndarray", num)
        return res
    # (h.astype(np.float64) + c) / (np.sum(h) + 2*c)
    c = to_real(pc)
    if z3.is_app(num) and num.decl().name().startswith("op.Add") and z3.is_app(den) and den.decl().name().startswith("op.Add"):
        a0, a1 = num.children()
        d0, d1 = den.children()
        if z3.is_app(a0) and a0.decl().name().startswith("ndarray.astype") and z3.eq(z3.simplify(a1), z3.simplify(c)) \
                and z3.is_app(d0) and d0.decl().name().startswith("numpy.sum") and z3.eq(d0.children()[0], a0.children()[0]) \
                and z3.eq(z3.simplify(d1), z3.simplify(2 * c)):
            return VObj("ndarray", a0.children()[0])
    return res


@S.spec("the_metric")
def _the_metric(interp, args, kwargs, node):
    """the metric pcDelta / hierarchical_clustering must use: the given one, else the default for the data"""
    metric, data = args
    if not isinstance(metric, VNone):
        return metric
    c = interp.registry.get("pyrepseq.distance.get_default_metric_for_input_data")
    env = c.spec_env(interp, {"input_data": data, "result": NONE})
    # evaluate the default-metric rule of that contract (class chosen by the columns present)
    from .ext_pandas import _frame_contains
    is_tab = isinstance(data, VObj) and getattr(data, "cols", None) is not None
    if not is_tab:
        name = "Levenshtein"
    else:
        names = [n for n, _ in data.cols]
        name = "Cdr3Levenshtein" if ("CDR3A" in names and "CDR3B" in names) else "AlphaCdr3Levenshtein" if "CDR3A" in names \
            else "BetaCdr3Levenshtein" if "CDR3B" in names else "Levenshtein"
    return _metric_of_class(interp, [VStr(name)], {}, node)


@S.spec("same_rows")
def _same_rows(interp, args, kwargs, node):
    """x is src itself, or the table made of the two sequences of a legacy (alpha, beta) tuple"""
    x, src = args
    if x is src:
        return VBool(True)
    if isinstance(src, VTuple) and isinstance(x, VObj) and getattr(x, "cols", None) is not None and len(src.items) == 2:
        return VBool(x.cols[0][1] is src.items[0] and x.cols[1][1] is src.items[1])
    return VBool(False)


@S.spec("is_subsample_rows")
def _is_subsample_rows(interp, args, kwargs, node):
    x, src, m = args
    so = getattr(x, "sub_of", None)
    ok = so is src or (so is not None and concrete_bool(_same_rows(interp, [so, src], {}, node).term) is True)
    n = interp.seq_len(x) if isinstance(x, VList) else interp.seq_len(x.cols[0][1])
    return VBool(z3.And(z3.BoolVal(bool(ok) and not getattr(x, "with_replacement", False)), n == to_int(m)))
