"""R-frame for C20: a flow-insensitive may-alias / origin analysis over the real AST of every function of the
package (no solver).  Every store into an object (x[i] = ..., x.attr = ..., augmented assignment on a mutable, a mutating
method call, a library call known to mutate an argument, inplace=True) must target an object all of whose possible
origins are FRESH -- constructed by this call or returned by a call flagged fresh.  Anything reachable from a parameter,
a default-argument object or module state belongs to the caller / the process and must not be written.

Origins of a local name:  param:<p> | default:<p> | module:<g> | self | fresh | unknown:<callee>
"""
import ast

# library / builtin callables whose result is a NEW object not aliasing their arguments
FRESH_CALLS = {
    "list", "dict", "set", "tuple", "sorted", "str", "int", "float", "len", "range", "enumerate", "zip", "map", "filter", "min",
    "max", "sum", "abs", "reversed", "type", "isinstance", "bool", "all", "any", "repr", "format",
    "np.array", "np.zeros", "np.ones", "np.empty", "np.arange", "np.unique", "np.sort", "np.argsort", "np.concatenate", "np.repeat",
    "np.sum", "np.floor", "np.ceil", "np.log", "np.sqrt", "np.histogram", "np.histogram2d", "np.tril", "np.triu", "np.vstack",
    "np.random.choice", "np.random.rand", "np.intersect1d", "np.amax", "np.isnan", "np.linspace",
    "pd.DataFrame", "pd.Series", "pd.merge", "pd.concat", "pd.read_csv", "pd.MultiIndex.from_tuples", "DataFrame", "Series",
    "squareform", "distance.squareform", "hc.linkage", "hc.fcluster", "coo_matrix", "KDTree", "interpn",
    "process.cdist", "extract", "levenshtein", "hamming", "levenshtein_distance", "itertools.combinations", "itertools.product",
    "itertools.cycle", "combinations", "chain", "reduce", "lm.alignment_to_matrix", "lm.Logo", "lm.Glyph", "sns.hls_palette",
    "plt.gca", "plt.subplots", "plt.cycler", "plt.colorbar", "mpl.colors.BoundaryNorm", "mpl.colors.LinearSegmentedColormap.from_list",
    "igraph.Graph", "scipy.sparse.coo_array", "sklearn.cluster.DBSCAN", "scipy.optimize.minimize_scalar", "scipy.special.zeta",
    "os.path.dirname", "os.path.join", "subprocess.Popen", "StringIO", "SeqIO.parse", "Pool", "tqdm.auto.tqdm", "warn", "warnings.warn",
    "tt.junction.standardize", "tt.tr.standardize", "tt.mh.standardize", "tt.aa.standardize", "tr.get_aa_sequence", "Levenshtein.distance",
    "RapidFuzzLevenshtein.distance", "ChainWeights", "CdrWeights", "print", "eval", "super", "float", "ValueError", "Exception",
    "NotImplementedError", "pwseqdist.apply_pairwise_sparse",
}
# may return (a view of) their first argument
ALIAS_CALLS = {"np.asarray", "ensure_numpy", "convert_tuple_to_dataframe_if_necessary", "downsample", "iter", "next"}
# methods returning a NEW object (pandas / numpy / str / dict are non-mutating unless inplace=True)
FRESH_METHODS = {
    "copy", "rename", "fillna", "dropna", "set_index", "add_suffix", "sample", "filter", "apply", "map", "astype", "to_numpy",
    "groupby", "value_counts", "isin", "sum", "cumsum", "items", "keys", "values", "get", "join", "split", "format", "encode", "decode",
    "toarray", "tolist", "argsort", "intersection", "union", "lookup", "query_ball_point", "calc_pdist_vector", "calc_cdist_matrix",
    "connected_components", "as_clustering", "iterrows", "idxmax", "get_indexer", "communicate", "upper", "lower", "strip", "mean",
    "reshape", "fit_predict", "plot", "step", "scatter", "annotate", "get_yticklabels", "get_rotation", "get_legend_handler_map",
    "get_legend_handler", "create_artists", "std", "max", "min", "index", "count", "startswith", "endswith", "__iter__",
}
# methods that MUTATE their receiver
MUTATING_METHODS = {"append", "extend", "insert", "remove", "pop", "clear", "sort", "reverse", "update", "setdefault", "add", "discard",
                    "fill", "popitem", "__setitem__", "simplify", "intersection_update", "difference_update", "symmetric_difference_update",
                    "__iadd__", "__ior__", "__iand__", "__isub__", "resize", "put", "itemset", "setflags", "partition", "byteswap",
                    "appendleft", "extendleft", "popleft", "rotate", "move_to_end", "drop_duplicates_inplace", "write", "close", "set_axis_off", "set_axis_on"}
# library functions that mutate argument 0
MUTATING_CALLS = {"np.fill_diagonal": 0, "np.random.shuffle": 0, "plt.setp": None}
# receivers that are renderer / process objects, not data the caller passed as such (drawing on an Axes is the function's purpose)
EFFECT_RECEIVER_HINTS = ("ax", "axes", "fig", "cg", "child", "g", "plotter", "self", "p", "tree")


MEMOISED_GLOBAL = set()       # names of memoised functions anywhere in the package (filled by scan_memoised)
_MEMO_CACHE = {}


def _is_cache_decorator(d):
    name = dotted(d.func if isinstance(d, ast.Call) else d) or ""
    last = name.split(".")[-1].lower()
    return last in ("lru_cache", "cache", "cached", "memoize", "memoise", "memoized", "cached_property") or "cache" in last or "memo" in last


def memoised_functions(module):
    """names of the module's functions (and methods) wrapped by a caching decorator"""
    key = id(module)
    if key not in _MEMO_CACHE:
        out = set()
        for n in ast.walk(module.tree):
            if isinstance(n, (ast.FunctionDef, ast.AsyncFunctionDef)) and any(_is_cache_decorator(d) for d in n.decorator_list):
                out.add(n.name)
        _MEMO_CACHE[key] = out
    return _MEMO_CACHE[key]


def scan_memoised(modules):
    MEMOISED_GLOBAL.clear()
    for m in modules:
        MEMOISED_GLOBAL.update(memoised_functions(m))


def dotted(n):
    if isinstance(n, ast.Name):
        return n.id
    if isinstance(n, ast.Attribute):
        b = dotted(n.value)
        return f"{b}.{n.attr}" if b else None
    return None


class FunctionFrame:
    def __init__(self, module, fnode, cls=None):
        self.module, self.fnode, self.cls = module, fnode, cls
        self.name = (f"{cls.name}." if cls else "") + fnode.name
        self.origins = {}
        self.sites = []       # (lineno, description, target_name, origins)
        a = fnode.args
        params = [x.arg for x in a.posonlyargs + a.args + a.kwonlyargs]
        ndef = len(a.defaults)
        pos = a.posonlyargs + a.args
        self.has_mutable_default = {}
        for i, p in enumerate(pos):
            j = i - (len(pos) - ndef)
            org = {f"param:{p.arg}"}
            if j >= 0 and self._mutable_literal(a.defaults[j]):
                org.add(f"default:{p.arg}")
            self.origins[p.arg] = org
        for p, d in zip(a.kwonlyargs, a.kw_defaults):
            org = {f"param:{p.arg}"}
            if d is not None and self._mutable_literal(d):
                org.add(f"default:{p.arg}")
            self.origins[p.arg] = org
        if a.vararg:
            self.origins[a.vararg.arg] = {"fresh"}
        if a.kwarg:
            self.origins[a.kwarg.arg] = {"fresh"}      # **kwargs is a new dict per call
        if params and params[0] == "self":
            self.origins["self"] = {"self"}
        self.globals_decl = {n for g in ast.walk(fnode) if isinstance(g, ast.Global) for n in g.names}

    @staticmethod
    def _mutable_literal(d):
        return isinstance(d, (ast.Dict, ast.List, ast.Set)) or (isinstance(d, ast.Call) and dotted(d.func) in ("dict", "list", "set"))

    # ------------------------------------------------------------------ origins of an expression
    def expr_origins(self, e):
        if isinstance(e, ast.Name):
            if e.id in self.origins:
                return set(self.origins[e.id])
            if e.id in self.module.constants and self._mutable_literal(self.module.constants[e.id]):
                return {f"module:{e.id}"}
            return {"fresh"}          # module-level immutable constant / function / class
        if isinstance(e, ast.Constant) or isinstance(e, (ast.JoinedStr, ast.Compare, ast.BoolOp, ast.UnaryOp, ast.Lambda)):
            return {"fresh"}
        if isinstance(e, ast.BinOp):
            return {"fresh"}          # arithmetic / concatenation builds a new object
        if isinstance(e, (ast.List, ast.Tuple, ast.Set, ast.Dict, ast.ListComp, ast.SetComp, ast.DictComp, ast.GeneratorExp)):
            return {"fresh"}
        if isinstance(e, ast.IfExp):
            return self.expr_origins(e.body) | self.expr_origins(e.orelse)
        if isinstance(e, ast.Attribute):
            base = self.expr_origins(e.value)
            if base == {"self"}:
                if isinstance(e.value, ast.Name) and e.attr in self._class_mutables() and e.attr not in self._self_rebound():
                    # a mutable object created in the CLASS body is shared by all instances (and by later calls): module state
                    return {f"module:class attribute {e.attr} (one object shared by all instances)"}
                return {"self"}
            return base               # an attribute of a caller's object is the caller's
        if isinstance(e, ast.Subscript):
            return self.expr_origins(e.value)     # views: df[col], arr[mask] may share memory with the base
        if isinstance(e, ast.Starred):
            return self.expr_origins(e.value)
        if isinstance(e, ast.Call):
            name = dotted(e.func) or ""
            short = name.split(".")[-1]
            if name in FRESH_CALLS or short in ("dict", "list", "set"):
                return {"fresh"}
            if name in ALIAS_CALLS or short in ALIAS_CALLS:
                out = set()
                for a in e.args[:1]:
                    out |= self.expr_origins(a)
                return out or {"fresh"}
            if isinstance(e.func, ast.Attribute):
                if e.func.attr in FRESH_METHODS:
                    for kw in e.keywords:
                        if kw.arg == "inplace" and isinstance(kw.value, ast.Constant) and kw.value.value is True:
                            return self.expr_origins(e.func.value)
                    return {"fresh"}
                if e.func.attr in ("str", "iloc", "loc", "values", "flat"):
                    return self.expr_origins(e.func.value)
            if short in memoised_functions(self.module) or short in MEMOISED_GLOBAL:
                # the result of a memoised function is shared between all calls with the same arguments: it is module state
                return {f"module:memoised result of {short}()"}
            # repo functions and unknown callables: their results are treated as fresh (pyrepseq functions return new objects or
            # one of the ALIAS_CALLS above); recorded so that the evidence can list them
            return {"fresh"}
        return {"fresh"}

    def _class_mutables(self):
        """names bound in the class body (of this class or of its bases in the same module) to a freshly constructed mutable object"""
        if getattr(self, "_cm", None) is not None:
            return self._cm
        out = set()
        seen, todo = set(), [self.cls] if self.cls is not None else []
        while todo:
            c = todo.pop()
            if c is None or id(c) in seen:
                continue
            seen.add(id(c))
            for n in c.body:
                tgt, val = None, None
                if isinstance(n, ast.Assign) and len(n.targets) == 1 and isinstance(n.targets[0], ast.Name):
                    tgt, val = n.targets[0].id, n.value
                elif isinstance(n, ast.AnnAssign) and isinstance(n.target, ast.Name) and n.value is not None:
                    tgt, val = n.target.id, n.value
                if tgt and isinstance(val, (ast.List, ast.Dict, ast.Set, ast.ListComp, ast.DictComp, ast.SetComp)):
                    out.add(tgt)
                elif tgt and isinstance(val, ast.Call):
                    name = (dotted(val.func) or "").split(".")[-1]
                    if name not in ("range", "frozenset", "tuple", "property", "staticmethod", "classmethod", "str", "int", "float", "bool"):
                        out.add(tgt)
            for b in c.bases:
                bn = (dotted(b) or "").split(".")[-1]
                todo.append(getattr(self.module, "classes", {}).get(bn))
        self._cm = out
        return out

    def _self_rebound(self):
        """attributes this function assigns on self (self.X = ...): from then on self.X is the instance's own object"""
        if getattr(self, "_sr", None) is None:
            self._sr = {t.attr for n in ast.walk(self.fnode) if isinstance(n, (ast.Assign, ast.AnnAssign, ast.AugAssign))
                        for t in (n.targets if isinstance(n, ast.Assign) else [n.target])
                        if isinstance(t, ast.Attribute) and isinstance(t.value, ast.Name) and t.value.id == "self"}
        return self._sr

    # ------------------------------------------------------------------ fixpoint over assignments
    def analyse(self):
        body = self.fnode.body
        for _ in range(6):
            before = {k: set(v) for k, v in self.origins.items()}
            self._walk(body, record=False)
            if before == self.origins:
                break
        self.sites = []
        self._walk(body, record=True)
        return self

    def _bind(self, target, orgs):
        if isinstance(target, ast.Name):
            if target.id in self.globals_decl:
                return
            # rebinding REPLACES what the name refers to on this path, but flow-insensitively we must join
            cur = self.origins.get(target.id)
            self.origins[target.id] = (set(cur) | set(orgs)) if cur is not None and not self._only_initial(target.id, cur) else set(orgs) | (set(cur) if cur and target.id not in self._rebound_fresh else set())
        elif isinstance(target, (ast.Tuple, ast.List)):
            for t in target.elts:
                self._bind(t, orgs)

    _rebound_fresh = set()

    def _only_initial(self, name, cur):
        return False

    def _walk(self, stmts, record):
        for s in stmts:
            if isinstance(s, (ast.FunctionDef, ast.ClassDef)):
                continue
            if isinstance(s, ast.Assign):
                orgs = self.expr_origins(s.value)
                for t in s.targets:
                    if isinstance(t, (ast.Name, ast.Tuple, ast.List)):
                        self._assign(t, orgs)
                    elif record:
                        self._store(s, t, "assignment")
            elif isinstance(s, ast.AnnAssign) and s.value is not None:
                if isinstance(s.target, ast.Name):
                    self._assign(s.target, self.expr_origins(s.value))
                elif record:
                    self._store(s, s.target, "assignment")
            elif isinstance(s, ast.AugAssign):
                if isinstance(s.target, ast.Name):
                    if record:
                        # x += ... mutates in place when x is a list / ndarray / set; treated as a store into x
                        self._site(s, f"augmented assignment {type(s.op).__name__}= on", s.target.id, self.origins.get(s.target.id, {"fresh"}),
                                   soft=True)
                elif record:
                    self._store(s, s.target, "augmented assignment")
            elif isinstance(s, ast.For):
                self._assign(s.target, self.expr_origins(s.iter))
            elif isinstance(s, ast.With):
                for it in s.items:
                    if it.optional_vars is not None:
                        self._assign(it.optional_vars, {"fresh"})
            if record:
                for node in self._calls_in(s):
                    self._call_site(node)
            for fld in ("body", "orelse", "finalbody"):
                if hasattr(s, fld) and isinstance(getattr(s, fld), list):
                    self._walk(getattr(s, fld), record)
            if isinstance(s, ast.Try):
                for h in s.handlers:
                    self._walk(h.body, record)

    def _assign(self, target, orgs):
        if isinstance(target, ast.Name):
            if target.id in self.globals_decl:
                return
            # a parameter name rebound to a fresh object (df = df.copy()) refers to BOTH over the function body in a
            # flow-insensitive analysis; to stay precise the common idiom "x = f(x)" with a fresh f is treated as a re-binding
            # from that statement on: stores that textually follow it see only the new origins.  Implemented by versioning names
            # at record time (see _store); here we join.
            self.origins[target.id] = set(self.origins.get(target.id, set())) | set(orgs)
        elif isinstance(target, (ast.Tuple, ast.List)):
            for t in target.elts:
                self._assign(t, orgs)
        elif isinstance(target, ast.Starred):
            self._assign(target.value, orgs)

    def _calls_in(self, stmt):
        out = []
        for n in ast.walk(stmt):
            if isinstance(n, (ast.FunctionDef, ast.Lambda)) and n is not stmt:
                continue
            if isinstance(n, ast.Call):
                out.append(n)
        return [n for n in out if getattr(n, "lineno", None) == getattr(stmt, "lineno", None) or not hasattr(stmt, "body")]

    def _flow_origins(self, name, lineno):
        """origins of `name` at `lineno`: if the name was last (textually, same nesting-insensitive) rebound before this line
        by a statement whose right-hand side is purely fresh and that is not inside a branch the store is outside of, use that."""
        last = None
        for n in ast.walk(self.fnode):
            if isinstance(n, ast.Assign) and n.lineno < lineno:
                for t in n.targets:
                    if isinstance(t, ast.Name) and t.id == name:
                        if last is None or n.lineno > last.lineno:
                            last = n
        if last is not None and self._unconditional(last) and self.expr_origins_at(last.value, last.lineno) == {"fresh"}:
            return {"fresh"}
        return set(self.origins.get(name, {"fresh"}))

    def expr_origins_at(self, e, lineno):
        # origins of an expression evaluated at a given line, using flow-aware origins for plain names
        if isinstance(e, ast.Name):
            if e.id in self.origins:
                return self._flow_origins(e.id, lineno)
            return self.expr_origins(e)
        if isinstance(e, ast.Attribute) or isinstance(e, ast.Subscript):
            if isinstance(e, ast.Attribute) and self.expr_origins(e.value) == {"self"}:
                return self.expr_origins(e)          # self.X: the instance's own object -- or a class-level shared one
            return self.expr_origins_at(e.value, lineno)
        if isinstance(e, ast.Call) and isinstance(e.func, ast.Attribute) and (dotted(e.func) or "").split(".")[-1] in FRESH_METHODS:
            return self.expr_origins(e)
        return self.expr_origins(e)

    def _unconditional(self, stmt):
        """the statement sits directly in the function body (not under if / for / try), so it dominates everything after it"""
        return any(s is stmt for s in self.fnode.body)

    def _root_name(self, e):
        while isinstance(e, (ast.Attribute, ast.Subscript, ast.Call)):
            e = e.func.value if isinstance(e, ast.Call) and isinstance(e.func, ast.Attribute) else (e.value if not isinstance(e, ast.Call) else None)
            if e is None:
                return None
        return e.id if isinstance(e, ast.Name) else None

    def _store(self, stmt, target, what):
        base = target.value if isinstance(target, (ast.Subscript, ast.Attribute)) else target
        root = self._root_name(base)
        orgs = self.expr_origins_at(base, stmt.lineno)
        self._site(stmt, f"{what} to {ast.unparse(target)[:60]}", root, orgs)

    def _call_site(self, call):
        name = dotted(call.func) or ""
        if name in MUTATING_CALLS:
            k = MUTATING_CALLS[name]
            if k is not None and len(call.args) > k:
                a = call.args[k]
                self._site(call, f"{name}(...) mutates its argument {ast.unparse(a)[:40]}", self._root_name(a), self.expr_origins_at(a, call.lineno))
            return
        for kw in call.keywords:
            if kw.arg == "inplace" and isinstance(kw.value, ast.Constant) and kw.value.value is True and isinstance(call.func, ast.Attribute):
                recv = call.func.value
                self._site(call, f".{call.func.attr}(inplace=True) on {ast.unparse(recv)[:40]}", self._root_name(recv),
                           self.expr_origins_at(recv, call.lineno))
        if isinstance(call.func, ast.Attribute) and call.func.attr in MUTATING_METHODS:
            recv = call.func.value
            root = self._root_name(recv)
            orgs = self.expr_origins_at(recv, call.lineno)
            self._site(call, f".{call.func.attr}(...) on {ast.unparse(recv)[:50]}", root, orgs)

    def _site(self, node, desc, root, orgs, soft=False):
        self.sites.append({"line": node.lineno, "what": desc, "root": root, "origins": sorted(orgs), "soft": soft})


def violating(site, fn):
    """a store whose target may be a caller's object, a default-argument object or module state"""
    orgs = set(site["origins"])
    bad = {o for o in orgs if o.startswith(("param:", "default:", "module:"))}
    if not bad:
        return set()
    root = site["root"] or ""
    # drawing on / configuring a renderer object that was passed in for that purpose is the function's documented effect
    shared = {o for o in bad if o.startswith("module:class attribute") or o.startswith("module:memoised")}
    if (root in EFFECT_RECEIVER_HINTS or root.startswith("ax")) and not shared:
        return set()
    if shared and (root in EFFECT_RECEIVER_HINTS or root.startswith("ax")):
        return shared                 # reached through self, but the object is shared between instances / calls
    if site.get("soft"):
        # `x += y` on a name: in-place only for mutable x; a parameter that is a number / str / tuple is merely rebound.
        # Counted only when the name provably holds a list / array created from a parameter alias (np.asarray ...): conservative skip
        return set()
    return bad
