"""Side-car contracts: parsed (never executed) by the engine; the replay harness evaluates the
same clause expressions concretely.  Syntax (contracts/*.py):

    @contract("pyrepseq.stats.var_chao1", props=["C16"], scope="count_vectors")
    def var_chao1(counts: OneOf(Seq(Nat, "list", min_len=1), Seq(Nat, "ndarray", min_len=1))) -> Real:
        requires(expr)
        raises(None)                         # no exception may escape
        raises("ValueError", when=expr)      # raised exactly when expr (and nothing is returned then)
        raises("Exception", when=expr, may=True)   # may be raised when expr, never otherwise
        ensures(expr, name="closed-form")
        returns(expr)                        # result == expr, used definitionally at call sites
        canary(expr, name=...)               # a deliberately wrong post-condition; must be refuted
        loop("L50", "inv", modifies={...}, inv=[...], ghost=...)   # see spec.loop_inv
        loop("L454", "search")
        field("variant_dict", DictT(Str, Seq(Nat)))               # for __init__: attributes created
"""
import ast
import itertools
import os
import z3
from .values import *
from . import types as T
from .ctx import PathAbort


class LoopRule:
    def __init__(self, label, kind, kw):
        self.label = label
        self.kind = kind
        self.kw = kw          # keyword name -> ast expr


class Clause:
    def __init__(self, kind, expr, name=None, kw=None, line=None):
        self.kind, self.expr, self.name, self.kw, self.line = kind, expr, name, kw or {}, line


class Contract:
    def __init__(self, qualname, fnode, opts, path):
        self.qualname = qualname
        self.fnode = fnode
        self.path = path
        self.props = opts.get("props", [])
        self.inline = opts.get("inline", False)
        self.trusted = opts.get("trusted", False)   # contract assumed, body not verified (listed as such)
        # tier="thorough": the body is verified only by the thorough tier (VC generation too slow for the per-change check); the quick
        # tier treats the contract as trusted and runs its bounded stand-in instead
        self.tier = opts.get("tier")
        self.opaque_on_tables = opts.get("opaque_on_tables", False)    # see Interp.call_contract
        import os as _os
        if self.tier == "thorough" and _os.environ.get("VERIF_TIER", "quick") != "thorough":
            self.trusted = True
            self.trusted_in_quick = True
        self.scope = opts.get("scope")
        self.opts = opts
        self.requires, self.ensures, self.canaries, self.lemmas = [], [], [], []
        self.skolem_ensures = []
        self.may_modify = []
        self.globals_used = []    # (module-level name, type expr): read by the function, symbolic at entry
        self.delegates = None     # (callee qualname, {callee param: expr over own params})
        self.validates = []       # [(callee qualname, {callee param: expr})]: the callee (an input check) is called, before anything
                                  # can be returned, on the caller's OWN argument objects (not on converted copies)
        self.sets = []            # (attribute name, expr): self.<name> is <expr> after the call (constructors)
        self.raises = []          # Clause(kind raises, expr=when, name=exc)
        self.raises_none = False
        self.returns_expr = None
        self.loops = {}
        self.fields = {}
        self.notes = []
        self.frame = None
        self._parse_body()

    def _parse_body(self):
        n_e = 0
        for st in self.fnode.body:
            if isinstance(st, ast.Expr) and isinstance(st.value, ast.Constant):
                continue
            if isinstance(st, ast.Pass):
                continue
            if not (isinstance(st, ast.Expr) and isinstance(st.value, ast.Call) and isinstance(st.value.func, ast.Name)):
                raise SyntaxError(f"{self.path}:{st.lineno}: contract bodies contain only clause calls")
            call = st.value
            fn = call.func.id
            kw = {k.arg: k.value for k in call.keywords}
            nm = None
            if "name" in kw:
                nm = ast.literal_eval(kw.pop("name"))
            if fn == "requires":
                self.requires.append(Clause("requires", call.args[0], nm or f"pre#{len(self.requires)+1}", kw, st.lineno))
            elif fn == "ensures":
                n_e += 1
                self.ensures.append(Clause("ensures", call.args[0], nm or f"post#{n_e}", kw, st.lineno))
            elif fn == "returns":
                n_e += 1
                self.returns_expr = Clause("returns", call.args[0], nm or "returns", kw, st.lineno)
            elif fn == "skolem_ensures":
                self.skolem_ensures.append(Clause("skolem", call.args[0], nm, kw, st.lineno))
            elif fn == "lemma":
                self.lemmas.append(Clause("lemma", call.args[0], nm or f"lemma#{len(self.lemmas)+1}", kw, st.lineno))
            elif fn == "canary":
                self.canaries.append(Clause("canary", call.args[0], nm or f"canary#{len(self.canaries)+1}", kw, st.lineno))
            elif fn == "raises":
                a0 = call.args[0]
                if isinstance(a0, ast.Constant) and a0.value is None:
                    self.raises_none = True
                else:
                    self.raises.append(Clause("raises", kw.get("when"), ast.literal_eval(a0), kw, st.lineno))
            elif fn == "loop":
                label = ast.literal_eval(call.args[0])
                kind = ast.literal_eval(call.args[1])
                self.loops[label] = LoopRule(label, kind, kw)
            elif fn == "field":
                self.fields[ast.literal_eval(call.args[0])] = call.args[1]
            elif fn == "modifies":
                self.may_modify = [ast.literal_eval(a) for a in call.args]
            elif fn == "uses_global":
                self.globals_used.append((ast.literal_eval(call.args[0]), call.args[1]))
            elif fn == "delegates":
                self.delegates = (ast.literal_eval(call.args[0]), kw)
            elif fn == "validates":
                self.validates.append((ast.literal_eval(call.args[0]), kw))
            elif fn == "sets":
                self.sets.append((ast.literal_eval(call.args[0]), call.args[1], "assume_only" in kw))
            elif fn == "note":
                self.notes.append(ast.literal_eval(call.args[0]))
            elif fn == "frame":
                self.frame = kw
            else:
                raise SyntaxError(f"{self.path}:{st.lineno}: unknown clause {fn}")

    def loop_rule(self, label):
        return self.loops.get(label)

    # --------------------------------------------------------------- signature
    def param_types(self):
        """list of (name, T) from the side-car annotations (evaluated in the types namespace)."""
        out = []
        a = self.fnode.args
        for arg in a.posonlyargs + a.args + a.kwonlyargs:
            if arg.annotation is None:
                raise SyntaxError(f"{self.path}: parameter {arg.arg} of {self.qualname} lacks a type")
            out.append((arg.arg, eval(compile(ast.Expression(arg.annotation), self.path, "eval"), dict(T.NAMESPACE))))
        return out

    def return_type(self):
        if self.fnode.returns is None:
            return None
        return eval(compile(ast.Expression(self.fnode.returns), self.path, "eval"), dict(T.NAMESPACE))

    def type_of(self, expr):
        return eval(compile(ast.Expression(expr), self.path, "eval"), dict(T.NAMESPACE))

    # --------------------------------------------------------------- caller side (R-call)
    def spec_env(self, interp, bound, extra=None):
        from .symex import Env
        m, fnode, cls = interp.repo.find_function(self.qualname)
        env = Env(m)
        env.vars.update(bound)
        if extra:
            env.vars.update(extra)
        return env

    def eval_spec(self, interp, expr, env):
        save = interp.spec_mode
        interp.spec_mode = True
        try:
            return interp.ev(expr, env)
        finally:
            interp.spec_mode = save

    def apply(self, interp, bound, node):
        """Replace a call by this contract: obligations for the pre-conditions, then assume the
        (exceptional) post-conditions."""
        from .symex import PyRaise
        ctx = interp.ctx
        line = getattr(node, "lineno", "?")
        env = self.spec_env(interp, bound)
        short = self.qualname.replace("pyrepseq.", "")
        if self.delegates is not None:
            callee = interp.registry.get(self.delegates[0])
            m, fnode, cls = interp.repo.find_function(callee.qualname)
            cb = {k: self.eval_spec(interp, ex, env) for k, ex in self.delegates[1].items()}
            from .symex import Env
            full = interp.bind_args(fnode.args, [], cb, Env(m), node, callee.qualname.split(".")[-1])
            return callee.apply(interp, full, node)
        tag = f"contract:{short}" + (" (trusted)" if self.trusted else "")
        for cl in self.requires:
            t = interp.as_bool_term(self.eval_spec(interp, cl.expr, env), node)
            ctx.oblige(f"call-pre[{short}.{cl.name}]@L{line}", t, kind="call-pre", line=line, callee=self.qualname)
        # exceptional outcomes
        if self.raises:
            conds = []
            for cl in self.raises:
                if cl.expr is None:
                    continue
                cnd = interp.as_bool_term(self.eval_spec(interp, cl.expr, env), node)
                if "may" in cl.kw:      # raises(E, when=c, may=True): E MAY be raised when c (never otherwise)
                    cnd = z3.And(cnd, ctx.fresh("may_raise", z3.BoolSort()))
                conds.append((cl, cnd))
            if conds:
                opts = [c for _, c in conds] + [z3.Not(z3.Or(*[c for _, c in conds]))]
                ch = ctx.choose(opts, f"raises@{line}")
                if ch < len(conds):
                    ctx.assumed.add(tag)
                    raise PyRaise(conds[ch][0].name, f"from {short}", line)
        ctx.assumed.add(tag)
        # fields created on self (constructors)
        if self.fields:
            selfv = bound.get("self")
            for fname, texpr in self.fields.items():
                ty = self.type_of(texpr)
                selfv.attrs[fname] = interp.born(ty.fresh(f"{short.split('.')[-2]}_{fname}", ctx))
        for fname, ex, _ao in self.sets:
            bound["self"].attrs[fname] = self.eval_spec(interp, ex, env)
        # result
        if self.returns_expr is not None:
            interp.spec_fork_ok = True
            try:
                res = self.eval_spec(interp, self.returns_expr.expr, env)
            finally:
                interp.spec_fork_ok = False
        else:
            rt = self.return_type()
            res = NONE if rt is None else interp.born(rt.fresh("ret_" + short.split(".")[-1], ctx))
        env.vars["result"] = res
        definitional = self.returns_expr is not None and "assume_only" in self.returns_expr.kw
        for cl in ([] if definitional else self.ensures) + self.skolem_ensures:
            t = interp.as_bool_term(self.eval_spec(interp, cl.expr, env), node)
            ctx.assume(t, None, know=True)
        return res


class Registry:
    def __init__(self):
        self.contracts = {}
        self.files = []
        self.predicates = {}      # name -> (FunctionDef, path)

    def get(self, qualname):
        return self.contracts.get(qualname)

    def load_dir(self, d):
        for fn in sorted(os.listdir(d)):
            if fn.endswith(".py") and not fn.startswith("_"):
                self.load_file(os.path.join(d, fn))

    def load_file(self, path):
        with open(path) as f:
            src = f.read()
        tree = ast.parse(src, filename=path)
        self.files.append(path)
        for node in tree.body:
            if not isinstance(node, ast.FunctionDef):
                continue
            for dec in node.decorator_list:
                if isinstance(dec, ast.Name) and dec.id == "predicate":
                    self.predicates[node.name] = (node, path)
                if isinstance(dec, ast.Call) and isinstance(dec.func, ast.Name) and dec.func.id == "contract":
                    qual = ast.literal_eval(dec.args[0])
                    opts = {k.arg: ast.literal_eval(k.value) for k in dec.keywords}
                    if qual in self.contracts and not opts.get("variant"):
                        raise SyntaxError(f"{path}: duplicate contract for {qual}")
                    self.contracts[qual] = Contract(qual, node, opts, path)
